// NvNoTrunc probe: normalize_validate(l) is never a proper prefix of l
fn nv(ad: &idna_adapter::Adapter, l: &[char]) -> Vec<char> { ad.normalize_validate(l.iter().copied()).collect() }
fn proper_prefix(n: &[char], l: &[char]) -> bool { n.len() < l.len() && l[..n.len()] == n[..] }
fn main() {
    let ad = idna_adapter::Adapter::new();
    let mut bad = 0u64; let mut total = 0u64;
    let firsts: Vec<char> = vec!['a', '0', '-', 'z', '\u{e9}', '\u{5d0}', '\u{1100}', '\u{915}', '\u{94d}', '\u{3b1}', '\u{ac00}', '\u{65}', '\u{301}'];
    for cp in 0u32..0x110000 {
        let c = match char::from_u32(cp) { Some(c) => c, None => continue };
        // single
        let l = [c]; let n = nv(&ad, &l); total += 1;
        if proper_prefix(&n, &l) { bad += 1; if bad < 20 { println!("BAD single {:x} -> {:?}", cp, n); } }
        for &f in &firsts {
            let l = [f, c]; let n = nv(&ad, &l); total += 1;
            if proper_prefix(&n, &l) { bad += 1; if bad < 20 { println!("BAD pair {:x} {:x} -> {:?}", f as u32, cp, n); } }
            let l = [f, c, c]; let n = nv(&ad, &l); total += 1;
            if proper_prefix(&n, &l) { bad += 1; if bad < 20 { println!("BAD triple {:x} {:x} -> {:?}", f as u32, cp, n); } }
            let l = [c, f]; let n = nv(&ad, &l); total += 1;
            if proper_prefix(&n, &l) { bad += 1; if bad < 20 { println!("BAD pair2 {:x} {:x} -> {:?}", cp, f as u32, n); } }
        }
    }
    // empty
    let n = nv(&ad, &[]); println!("empty -> {:?}", n);
    println!("total {} bad {}", total, bad);
}
