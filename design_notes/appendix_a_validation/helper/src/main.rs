// line protocol, fields hex-encoded UTF-8:
//  I <hexbytes>                 -> idna::domain_to_ascii_cow(bytes, URL)   => "OK <hex>" | "ERR"
//  P <hexinput> <hexbase|->     -> parse                                   => "OK <hex href> <10 hex api fields>" | "ERR" | "PANIC"
//  S <hexhref> <setter> <hexval>-> quirks setter                           => same as P
use std::io::{self, BufRead, Write};
use std::panic::{catch_unwind, AssertUnwindSafe};
use url::{quirks, Url};
fn unhex(s: &str) -> Vec<u8> { if s == "-" { return vec![]; } (0..s.len() / 2).map(|i| u8::from_str_radix(&s[2 * i..2 * i + 2], 16).unwrap()).collect() }
fn hex(b: &[u8]) -> String { if b.is_empty() { return "-".into(); } b.iter().map(|x| format!("{:02x}", x)).collect() }
fn api(u: &Url) -> String {
    let f = [quirks::href(u), quirks::protocol(u), quirks::username(u), quirks::password(u), quirks::host(u), quirks::hostname(u), quirks::port(u), quirks::pathname(u), quirks::search(u), quirks::hash(u)];
    format!("OK {}", f.iter().map(|s| hex(s.as_bytes())).collect::<Vec<_>>().join(" "))
}
fn main() {
    std::panic::set_hook(Box::new(|_| {}));
    let stdin = io::stdin(); let mut out = io::stdout().lock();
    for line in stdin.lock().lines() {
        let line = line.unwrap(); let p: Vec<&str> = line.split(' ').collect();
        let r = catch_unwind(AssertUnwindSafe(|| match p[0] {
            "I" => match idna::domain_to_ascii_cow(&unhex(p[1]), idna::AsciiDenyList::URL) { Ok(s) => format!("OK {}", hex(s.as_bytes())), Err(_) => "ERR".into() },
            "P" => { let input = String::from_utf8(unhex(p[1])).unwrap();
                     let base = if p[2] == "-" { None } else { match Url::parse(&String::from_utf8(unhex(p[2])).unwrap()) { Ok(b) => Some(b), Err(_) => return "BASEERR".into() } };
                     match Url::options().base_url(base.as_ref()).parse(&input) { Ok(u) => api(&u), Err(_) => "ERR".into() } }
            "S" => { let mut u = match Url::parse(&String::from_utf8(unhex(p[1])).unwrap()) { Ok(u) => u, Err(_) => return "BASEERR".into() };
                     let v = String::from_utf8(unhex(p[3])).unwrap();
                     match p[2] { "href" => { let _ = quirks::set_href(&mut u, &v); } "protocol" => { let _ = quirks::set_protocol(&mut u, &v); } "username" => { let _ = quirks::set_username(&mut u, &v); }
                        "password" => { let _ = quirks::set_password(&mut u, &v); } "host" => { let _ = quirks::set_host(&mut u, &v); } "hostname" => { let _ = quirks::set_hostname(&mut u, &v); }
                        "port" => { let _ = quirks::set_port(&mut u, &v); } "pathname" => quirks::set_pathname(&mut u, &v), "search" => quirks::set_search(&mut u, &v), "hash" => quirks::set_hash(&mut u, &v), _ => return "BADSETTER".into() }
                     api(&u) }
            _ => "BADCMD".into(),
        }));
        writeln!(out, "{}", r.unwrap_or_else(|_| "PANIC".into())).unwrap(); out.flush().unwrap();
    }
}
