import random, sys, collections
from whatwg import *
orc = Oracle("/verif/build/appendix_a_helper/release/helper")
rng = random.Random(int(sys.argv[1]) if len(sys.argv) > 1 else 1)
N = int(sys.argv[2]) if len(sys.argv) > 2 else 20000
ATOMS = ["a","b","C","1","0x","/","/","//","\\",".","..","%2e","%2E","%","%41","?","#",":","@","[","]"," ","\t","\n","|","c:","C|","é","א","xn--","-","+","&","=",";","\"","<",">","`","{","}","^","'","~","localhost","127.1","::1","\0","\x7f","//h","@h","h:80",":","80","file:","http:","x:"]
SCHEMES = ["http","https","ws","ftp","file","a","data","non-spec","web+demo","HTTP","File"]
def rs(k): return "".join(rng.choice(ATOMS) for _ in range(rng.randrange(k + 1)))
def rurl():
    o = rng.choice(SCHEMES) + ":"
    r = rng.randrange(4)
    if r <= 1:
        o += "//"
        if rng.randrange(3) == 0: o += rng.choice(["u","u:p",":p","u:"]) + "@"
        o += rng.choice(["h","example.com","[::1]","1.2.3.4","","x.y","localhost"])
        if rng.randrange(3) == 0: o += ":8"
    elif r == 2: o += "/"
    return o + rs(4)
def hexs(s): return s.encode("utf-8","surrogatepass").hex() or "-"
def unh(h): return "" if h == "-" else bytes.fromhex(h).decode()
def rust_parse(inp, base):
    r = orc.ask("P %s %s" % (hexs(inp), hexs(base) if base is not None else "-"))
    if r.startswith("OK "): return [unh(x) for x in r[3:].split(" ")]
    return r
def rust_set(href, name, v):
    r = orc.ask("S %s %s %s" % (hexs(href), name, hexs(v)))
    if r.startswith("OK "): return [unh(x) for x in r[3:].split(" ")]
    return r
buckets = collections.OrderedDict(); cnt = collections.Counter(); total = 0
def note(key, ex):
    cnt[key] += 1
    buckets.setdefault(key, ex)
for i in range(N):
    # parse
    base = rurl() if rng.randrange(3) else None
    inp = rurl() if rng.randrange(3) == 0 else rs(5)
    sb = None
    if base is not None:
        sb = basic_parse(orc, base)
        rb = rust_parse(base, None)
        if (sb == FAIL) != (rb == "ERR") or (sb != FAIL and rb not in ("ERR",) and api(sb) != rb):
            pass  # base itself diverges: counted when it is the input
        if sb == FAIL or rb == "ERR" or rb == "PANIC" or api(sb) != rb: base = None; sb = None
    total += 1
    s = basic_parse(orc, inp, sb); r = rust_parse(inp, base)
    sres = "ERR" if s == FAIL else api(s)
    if sres != r:
        filey = (s != FAIL and s.scheme == "file") or (isinstance(r, list) and r[1] == "file:") or (sb is not None and sb.scheme == "file")
        kind = "PANIC" if r == "PANIC" else "spec-fail/rust-ok" if sres == "ERR" else "spec-ok/rust-fail" if r == "ERR" else "differ:" + ",".join(k for k, a, b in zip(["href","proto","user","pw","host","hostname","port","path","search","hash"], sres, r) if a != b and k != "href")
        feat = []
        t = inp.strip("".join(map(chr, range(33)))).replace("\t","").replace("\n","")
        if "\\" in t: feat.append("backslash")
        if any(x in t for x in ("c:", "C|", "c|", "C:")): feat.append("drive")
        note("PARSE %s %s [%s]" % ("file" if filey else "nonfile", kind, " ".join(feat)), "input=%r base=%r spec=%r rust=%r" % (inp, base, sres if sres == "ERR" else sres[0], r if isinstance(r, str) else r[0]))
    # setter
    href = rurl(); su = basic_parse(orc, href); ru = rust_parse(href, None)
    if su == FAIL or not isinstance(ru, list) or api(su) != ru: continue
    name = rng.choice(["protocol","username","password","host","hostname","port","pathname","search","hash"]); v = rs(3)
    canon = api(su)[0]
    s2 = api(setter(orc, su, name, v)); r2 = rust_set(canon, name, v)
    if s2 != r2:
        kind = "PANIC" if r2 == "PANIC" else "differ:" + ",".join(k for k, a, b in zip(["href","proto","user","pw","host","hostname","port","path","search","hash"], s2, r2) if a != b and k != "href")
        sch = canon.split(":")[0]; klass = "file" if sch == "file" else "special" if sch in SPECIAL else "nonspecial"
        note("SET %s %s %s" % (name, klass, kind), "href=%r value=%r spec=%r rust=%r" % (canon, v, s2[0], r2 if isinstance(r2, str) else r2[0]))
print("total", total)
for k, ex in buckets.items(): print("%5d %s\n        %s" % (cnt[k], k, ex[:260]))
