import json, sys
from whatwg import *
orc = Oracle("/verif/build/appendix_a_helper/release/helper")
tests = [t for t in json.load(open("/repo/url/tests/urltestdata.json")) if isinstance(t, dict)]
fails = 0; n = 0
for t in tests:
    base = None
    if t.get("base") is not None:
        base = basic_parse(orc, t["base"])
        if base == FAIL: print("BASE FAIL", t); fails += 1; continue
    try:
        r = basic_parse(orc, t["input"], base)
    except Exception as e:
        print("EXC", repr(t["input"]), repr(t.get("base")), repr(e)); fails += 1; continue
    n += 1
    if t.get("failure"):
        if r != FAIL: print("EXPECTED FAIL", repr(t["input"]), repr(t.get("base")), serialize(r)); fails += 1
        continue
    if r == FAIL: print("UNEXPECTED FAIL", repr(t["input"]), repr(t.get("base")), t["href"]); fails += 1; continue
    got = api(r); keys = ["href","protocol","username","password","host","hostname","port","pathname","search","hash"]
    bad = [(k, g, t[k]) for k, g in zip(keys, got) if k in t and g != t[k]]
    if bad: print("DIFF", repr(t["input"]), repr(t.get("base")), bad[:2]); fails += 1
print("url tests", n, "fails", fails)
st = json.load(open("/repo/url/tests/setters_tests.json")); sf = 0; sn = 0
for name, cases in st.items():
    if name == "comment": continue
    for c in cases:
        u = basic_parse(orc, c["href"])
        if u == FAIL: print("SETTER BASE FAIL", c["href"]); sf += 1; continue
        try: u = setter(orc, u, name, c["new_value"])
        except Exception as e: print("SEXC", name, c, repr(e)); sf += 1; continue
        sn += 1
        got = dict(zip(["href","protocol","username","password","host","hostname","port","pathname","search","hash"], api(u)))
        bad = [(k, got[k], v) for k, v in c["expected"].items() if got[k] != v]
        if bad: print("SDIFF", name, repr(c["href"]), repr(c["new_value"]), bad[:2]); sf += 1
print("setter tests", sn, "fails", sf)
