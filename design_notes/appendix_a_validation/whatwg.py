# Throw-away transcription of DESIGN.md Appendix A (WHATWG URL Standard) to validate it
# against the vendored WPT vectors.  IDNA ToASCII is an oracle (helper binary).
import subprocess, copy

SPECIAL = {"ftp": 21, "file": None, "http": 80, "https": 443, "ws": 80, "wss": 443}
EOF = None

class Oracle:
    def __init__(self, path):
        self.p = subprocess.Popen([path], stdin=subprocess.PIPE, stdout=subprocess.PIPE, text=True, bufsize=1)
        self.cache = {}
    def ask(self, line):
        self.p.stdin.write(line + "\n"); self.p.stdin.flush()
        return self.p.stdout.readline().rstrip("\n")
    def idna(self, b: bytes):
        if b in self.cache: return self.cache[b]
        r = self.ask("I " + (b.hex() or "-"))
        v = None if r == "ERR" else bytes.fromhex(r[3:] if r[3:] != "-" else "").decode()
        self.cache[b] = v
        return v

C0 = set(range(0, 0x20)) | {0x7F}
FRAG = C0 | set(map(ord, ' "<>`'))
QUERY = C0 | set(map(ord, ' "#<>'))
SQUERY = QUERY | {ord("'")}
PATH = QUERY | set(map(ord, '?`{}'))
USERINFO = PATH | set(map(ord, '/:;=@[\\]^|'))
FORBIDDEN_HOST = set(map(ord, '\0\t\n\r #/:<>?@[\\]^|'))
FORBIDDEN_DOMAIN = FORBIDDEN_HOST | C0 | {ord('%'), 0x7F}

def pe(s: str, aset) -> str:
    out = []
    for ch in s:
        for b in ch.encode("utf-8", "surrogatepass"):
            out.append("%%%02X" % b if (b >= 0x80 or b in aset) else chr(b))
    return "".join(out)

def percent_decode(b: bytes) -> bytes:
    out = bytearray(); i = 0
    hexd = b"0123456789abcdefABCDEF"
    while i < len(b):
        if b[i] == 0x25 and i + 2 < len(b) + 0 and i + 2 <= len(b) - 1 + 0 and b[i+1] in hexd and b[i+2] in hexd:
            out.append(int(b[i+1:i+3], 16)); i += 3
        else:
            out.append(b[i]); i += 1
    return bytes(out)

class URL:
    def __init__(self):
        self.scheme = ""; self.username = ""; self.password = ""; self.host = None; self.port = None
        self.path = []; self.opaque = False; self.query = None; self.fragment = None
    def special(self): return self.scheme in SPECIAL
    def creds(self): return self.username != "" or self.password != ""
    def clone(self): return copy.deepcopy(self)

def is_wdl(s): return len(s) == 2 and s[0].isascii() and s[0].isalpha() and s[1] in ":|"
def is_nwdl(s): return is_wdl(s) and s[1] == ":"
def starts_wdl(s):
    return len(s) >= 2 and is_wdl(s[:2]) and (len(s) == 2 or s[2] in "/\\?#")
def shorten(u):
    if u.scheme == "file" and len(u.path) == 1 and is_nwdl(u.path[0]): return
    if u.path: u.path.pop()
def single_dot(s): return s.lower() in (".", "%2e")
def double_dot(s): return s.lower() in ("..", ".%2e", "%2e.", "%2e%2e")

def parse_ipv4_number(s):
    if s == "": return None
    r = 10
    if len(s) >= 2 and s[:2] in ("0x", "0X"): s = s[2:]; r = 16
    elif len(s) >= 2 and s[0] == "0": s = s[1:]; r = 8
    if s == "": return 0
    digits = {8: "01234567", 10: "0123456789", 16: "0123456789abcdefABCDEF"}[r]
    if any(c not in digits for c in s): return None
    return int(s, r)
def ends_in_number(s):
    parts = s.split(".")
    if parts[-1] == "":
        if len(parts) == 1: return False
        parts.pop()
    last = parts[-1]
    if last != "" and all(c in "0123456789" for c in last): return True
    return parse_ipv4_number(last) is not None
def parse_ipv4(s):
    parts = s.split(".")
    if parts[-1] == "" and len(parts) > 1: parts.pop()
    if len(parts) > 4: return None
    nums = []
    for p in parts:
        n = parse_ipv4_number(p)
        if n is None: return None
        nums.append(n)
    if any(n > 255 for n in nums[:-1]): return None
    if nums[-1] >= 256 ** (5 - len(nums)): return None
    v = nums[-1]
    for i, n in enumerate(nums[:-1]): v += n * 256 ** (3 - i)
    return v
def ser_ipv4(v): return ".".join(str((v >> (8 * (3 - i))) & 255) for i in range(4))
def parse_ipv6(s):
    addr = [0] * 8; pi = 0; comp = None; p = 0; n = len(s)
    def c(i=None):
        i = p if i is None else i
        return s[i] if i < n else EOF
    if c() == ":":
        if c(p + 1) != ":": return None
        p += 2; pi += 1; comp = pi
    while c() is not EOF:
        if pi == 8: return None
        if c() == ":":
            if comp is not None: return None
            p += 1; pi += 1; comp = pi; continue
        value = length = 0
        while length < 4 and c() is not EOF and c() in "0123456789abcdefABCDEF":
            value = value * 16 + int(c(), 16); p += 1; length += 1
        if c() == ".":
            if length == 0: return None
            p -= length
            if pi > 6: return None
            seen = 0
            while c() is not EOF:
                v4 = None
                if seen > 0:
                    if c() == "." and seen < 4: p += 1
                    else: return None
                if c() is EOF or c() not in "0123456789": return None
                while c() is not EOF and c() in "0123456789":
                    d = int(c())
                    if v4 is None: v4 = d
                    elif v4 == 0: return None
                    else: v4 = v4 * 10 + d
                    if v4 > 255: return None
                    p += 1
                addr[pi] = addr[pi] * 256 + v4
                seen += 1
                if seen in (2, 4): pi += 1
            if seen != 4: return None
            break
        elif c() == ":":
            p += 1
            if c() is EOF: return None
        elif c() is not EOF: return None
        addr[pi] = value; pi += 1
    if comp is not None:
        swaps = pi - comp; pi = 7
        while pi != 0 and swaps > 0:
            addr[pi], addr[comp + swaps - 1] = addr[comp + swaps - 1], addr[pi]
            pi -= 1; swaps -= 1
    elif pi != 8: return None
    return addr
def ser_ipv6(a):
    best = None; bl = 0; i = 0
    while i < 8:
        if a[i] == 0:
            j = i
            while j < 8 and a[j] == 0: j += 1
            if j - i > bl: best, bl = i, j - i
            i = j
        else: i += 1
    if bl < 2: best = None
    out = ""; ignore0 = False
    for i in range(8):
        if ignore0 and a[i] == 0: continue
        ignore0 = False
        if best == i:
            out += "::" if i == 0 else ":"; ignore0 = True; continue
        out += "%x" % a[i]
        if i != 7: out += ":"
    return out

def host_parse(orc, s, opaque):
    if s.startswith("["):
        if not s.endswith("]"): return None
        a = parse_ipv6(s[1:-1])
        return None if a is None else ("v6", a)
    if opaque:
        if any(ord(ch) in FORBIDDEN_HOST for ch in s): return None
        return ("opaque", pe(s, C0))
    dom = percent_decode(s.encode("utf-8", "surrogatepass"))
    a = orc.idna(dom)
    if a is None or a == "": return None
    if any(ord(ch) in FORBIDDEN_DOMAIN for ch in a): return None
    if ends_in_number(a):
        v = parse_ipv4(a)
        return None if v is None else ("v4", v)
    return ("domain", a)
def ser_host(h):
    if h is None: return ""
    if h == "": return ""
    k, v = h
    return ser_ipv4(v) if k == "v4" else "[" + ser_ipv6(v) + "]" if k == "v6" else v

def serialize(u, exclude_fragment=False):
    out = u.scheme + ":"
    if u.host is not None:
        out += "//"
        if u.creds():
            out += u.username
            if u.password != "": out += ":" + u.password
            out += "@"
        out += ser_host(u.host)
        if u.port is not None: out += ":" + str(u.port)
    if u.host is None and not u.opaque and len(u.path) > 1 and u.path[0] == "": out += "/."
    out += path_ser(u)
    if u.query is not None: out += "?" + u.query
    if not exclude_fragment and u.fragment is not None: out += "#" + u.fragment
    return out
def path_ser(u): return u.path if u.opaque else "".join("/" + s for s in u.path)

FAIL = "FAIL"
def basic_parse(orc, inp, base=None, url=None, ov=None):
    if url is None:
        url = URL()
        inp = inp.strip("".join(map(chr, range(0, 0x21))))
    inp = inp.replace("\t", "").replace("\n", "").replace("\r", "")
    state = ov or "scheme start"
    buf = ""; at = br = pw = False
    s = list(inp); p = 0
    while True:
        c = s[p] if p < len(s) else EOF
        rem = "".join(s[p + 1:]) if c is not EOF else ""
        if state == "scheme start":
            if c is not EOF and c.isascii() and c.isalpha(): buf += c.lower(); state = "scheme"
            elif ov is None: state = "no scheme"; p -= 1
            else: return FAIL
        elif state == "scheme":
            if c is not EOF and c.isascii() and (c.isalnum() or c in "+-."): buf += c.lower()
            elif c == ":":
                if ov:
                    if (url.scheme in SPECIAL) != (buf in SPECIAL): return url
                    if (url.creds() or url.port is not None) and buf == "file": return url
                    if url.scheme == "file" and url.host == "": return url
                url.scheme = buf
                if ov:
                    if url.port == SPECIAL.get(url.scheme): url.port = None
                    return url
                buf = ""
                if url.scheme == "file": state = "file"
                elif url.special() and base is not None and base.scheme == url.scheme: state = "special relative or authority"
                elif url.special(): state = "special authority slashes"
                elif rem.startswith("/"): state = "path or authority"; p += 1
                else: url.opaque = True; url.path = ""; state = "opaque path"
            elif ov is None: buf = ""; state = "no scheme"; p = -1
            else: return FAIL
        elif state == "no scheme":
            if base is None or (base.opaque and c != "#"): return FAIL
            elif base.opaque and c == "#":
                url.scheme = base.scheme; url.path = base.path; url.opaque = True; url.query = base.query; url.fragment = ""; state = "fragment"
            elif base.scheme != "file": state = "relative"; p -= 1
            else: state = "file"; p -= 1
        elif state == "special relative or authority":
            if c == "/" and rem.startswith("/"): state = "special authority ignore slashes"; p += 1
            else: state = "relative"; p -= 1
        elif state == "path or authority":
            if c == "/": state = "authority"
            else: state = "path"; p -= 1
        elif state == "relative":
            url.scheme = base.scheme
            if c == "/": state = "relative slash"
            elif url.special() and c == "\\": state = "relative slash"
            else:
                url.username, url.password, url.host, url.port = base.username, base.password, base.host, base.port
                url.path = list(base.path); url.query = base.query
                if c == "?": url.query = ""; state = "query"
                elif c == "#": url.fragment = ""; state = "fragment"
                elif c is not EOF: url.query = None; shorten(url); state = "path"; p -= 1
        elif state == "relative slash":
            if url.special() and c in ("/", "\\"): state = "special authority ignore slashes"
            elif c == "/": state = "authority"
            else:
                url.username, url.password, url.host, url.port = base.username, base.password, base.host, base.port
                state = "path"; p -= 1
        elif state == "special authority slashes":
            if c == "/" and rem.startswith("/"): state = "special authority ignore slashes"; p += 1
            else: state = "special authority ignore slashes"; p -= 1
        elif state == "special authority ignore slashes":
            if c not in ("/", "\\"): state = "authority"; p -= 1
        elif state == "authority":
            if c == "@":
                if at: buf = "%40" + buf
                at = True
                for cp in buf:
                    if cp == ":" and not pw: pw = True; continue
                    e = pe(cp, USERINFO)
                    if pw: url.password += e
                    else: url.username += e
                buf = ""
            elif c is EOF or c in "/?#" or (url.special() and c == "\\"):
                if at and buf == "": return FAIL
                p -= len(buf) + 1; buf = ""; state = "host"
            else: buf += c
        elif state in ("host", "hostname"):
            if ov and url.scheme == "file": p -= 1; state = "file host"
            elif c == ":" and not br:
                if buf == "": return FAIL
                if ov == "hostname": return FAIL
                h = host_parse(orc, buf, not url.special())
                if h is None: return FAIL
                url.host = h; buf = ""; state = "port"
            elif c is EOF or c in "/?#" or (url.special() and c == "\\"):
                p -= 1
                if url.special() and buf == "": return FAIL
                elif ov and buf == "" and (url.creds() or url.port is not None): return FAIL
                if buf == "" : h = ""   # empty host (opaque-host parser of "" yields empty host)
                else: h = host_parse(orc, buf, not url.special())
                if h is None: return FAIL
                url.host = h; buf = ""; state = "path start"
                if ov: return url
            else:
                if c == "[": br = True
                if c == "]": br = False
                buf += c
        elif state == "port":
            if c is not EOF and c in "0123456789": buf += c
            elif c is EOF or c in "/?#" or (url.special() and c == "\\") or ov:
                if buf != "":
                    port = int(buf)
                    if port > 65535: return FAIL
                    url.port = None if SPECIAL.get(url.scheme) == port else port
                    buf = ""
                    if ov: return url
                if ov: return FAIL
                state = "path start"; p -= 1
            else: return FAIL
        elif state == "file":
            url.scheme = "file"; url.host = ""
            if c in ("/", "\\"): state = "file slash"
            elif base is not None and base.scheme == "file":
                url.host = base.host; url.path = list(base.path); url.query = base.query
                if c == "?": url.query = ""; state = "query"
                elif c == "#": url.fragment = ""; state = "fragment"
                elif c is not EOF:
                    url.query = None
                    if not starts_wdl(c + rem): shorten(url)
                    else: url.path = []
                    state = "path"; p -= 1
            else: state = "path"; p -= 1
        elif state == "file slash":
            if c in ("/", "\\"): state = "file host"
            else:
                if base is not None and base.scheme == "file":
                    url.host = base.host
                    if not starts_wdl((c or "") + rem) and base.path and is_nwdl(base.path[0]): url.path.append(base.path[0])
                state = "path"; p -= 1
        elif state == "file host":
            if c is EOF or c in "/\\?#":
                p -= 1
                if ov is None and is_wdl(buf): state = "path"
                elif buf == "":
                    url.host = ""
                    if ov: return url
                    state = "path start"
                else:
                    h = host_parse(orc, buf, not url.special())
                    if h is None: return FAIL
                    if h == ("domain", "localhost"): h = ""
                    url.host = h
                    if ov: return url
                    buf = ""; state = "path start"
            else: buf += c
        elif state == "path start":
            if url.special():
                state = "path"
                if c not in ("/", "\\"): p -= 1
            elif ov is None and c == "?": url.query = ""; state = "query"
            elif ov is None and c == "#": url.fragment = ""; state = "fragment"
            elif c is not EOF:
                state = "path"
                if c != "/": p -= 1
            elif ov and url.host is None: url.path.append("")
        elif state == "path":
            if c is EOF or c == "/" or (url.special() and c == "\\") or (ov is None and c in ("?", "#")):
                sep = c == "/" or (url.special() and c == "\\")
                if double_dot(buf):
                    shorten(url)
                    if not sep: url.path.append("")
                elif single_dot(buf) and not sep: url.path.append("")
                elif not single_dot(buf):
                    if url.scheme == "file" and not url.path and is_wdl(buf): buf = buf[0] + ":"
                    url.path.append(buf)
                buf = ""
                if c == "?": url.query = ""; state = "query"
                if c == "#": url.fragment = ""; state = "fragment"
            else: buf += pe(c, PATH)
        elif state == "opaque path":
            if c == "?": url.query = ""; state = "query"
            elif c == "#": url.fragment = ""; state = "fragment"
            elif c is not EOF: url.path += pe(c, C0)
        elif state == "query":
            if (ov is None and c == "#") or c is EOF:
                url.query += pe(buf, SQUERY if url.special() else QUERY); buf = ""
                if c == "#": url.fragment = ""; state = "fragment"
            else: buf += c
        elif state == "fragment":
            if c is not EOF: url.fragment += pe(c, FRAG)
        else: raise Exception(state)
        if p >= len(s): break
        p += 1
    return url

def api(u):
    host = "" if u.host is None else ser_host(u.host) + ("" if u.port is None else ":" + str(u.port))
    return [serialize(u), u.scheme + ":", u.username, u.password, host, "" if u.host is None else ser_host(u.host),
            "" if u.port is None else str(u.port), path_ser(u), "" if not u.query else "?" + u.query, "" if not u.fragment else "#" + u.fragment]

def strip_opaque(u):
    if not u.opaque or u.fragment is not None or u.query is not None: return
    u.path = u.path.rstrip(" ")
def cannot_have_creds(u): return u.host is None or u.host == "" or u.scheme == "file"
def setter(orc, u, name, v):
    if name == "href":
        r = basic_parse(orc, v)
        return u if r == FAIL else r
    if name == "protocol": basic_parse(orc, v + ":", url=u, ov="scheme start")
    elif name == "username":
        if not cannot_have_creds(u): u.username = pe(v, USERINFO)
    elif name == "password":
        if not cannot_have_creds(u): u.password = pe(v, USERINFO)
    elif name in ("host", "hostname"):
        if not u.opaque: basic_parse(orc, v, url=u, ov=name)
    elif name == "port":
        if not cannot_have_creds(u):
            if v == "": u.port = None
            else: basic_parse(orc, v, url=u, ov="port")
    elif name == "pathname":
        if not u.opaque:
            u.path = []; basic_parse(orc, v, url=u, ov="path start")
    elif name == "search":
        if v == "": u.query = None; strip_opaque(u)
        else:
            if v[0] == "?": v = v[1:]
            u.query = ""; basic_parse(orc, v, url=u, ov="query")
    elif name == "hash":
        if v == "": u.fragment = None; strip_opaque(u)
        else:
            if v[0] == "#": v = v[1:]
            u.fragment = ""; basic_parse(orc, v, url=u, ov="fragment")
    return u
