import random, sys, collections
from whatwg import *
orc = Oracle("/verif/build/appendix_a_helper/release/helper")
rng = random.Random(int(sys.argv[1])); N = int(sys.argv[2])
H = ["0x7f","1","2","3","4","255","256","0","00","08","0x","0X1","4294967295","4294967296","65536","16777216",".","..","a","b","-","xn--","xn--a","%41","%2e","%2E","%00","%","ß","．","。","é","\u00ad","A","z9","[","]","::","1:","ffff",":","1.2.3.4","g","%5b","%3a","_","~","!","$","&","'","(",")","*","+",",",";","=","\"","<",">","`","{","}","|","^"," "]
def hexs(s): return s.encode("utf-8","surrogatepass").hex() or "-"
def unh(h): return "" if h == "-" else bytes.fromhex(h).decode()
buckets = collections.OrderedDict(); cnt = collections.Counter()
for i in range(N):
    host = "".join(rng.choice(H) for _ in range(1 + rng.randrange(5)))
    if rng.randrange(4) == 0: host = "[" + host + "]"
    sch = rng.choice(["http","ws","file","a","non-spec"])
    inp = "%s://%s%s" % (sch, host, rng.choice(["", "/", ":80", ":80/x", "?q", "#f"]))
    s = basic_parse(orc, inp); sres = "ERR" if s == FAIL else api(s)
    r = orc.ask("P %s -" % hexs(inp)); r = [unh(x) for x in r[3:].split(" ")] if r.startswith("OK ") else r
    if sres != r:
        key = "%s %s" % ("special" if sch in SPECIAL else "nonspecial", "PANIC" if r == "PANIC" else "spec-fail/rust-ok" if sres == "ERR" else "spec-ok/rust-fail" if r == "ERR" else "differ")
        cnt[key] += 1; buckets.setdefault(key, []).append("input=%r spec=%r rust=%r" % (inp, sres if sres == "ERR" else sres[0], r if isinstance(r, str) else r[0]))
print("N", N)
for k, ex in buckets.items():
    print(cnt[k], k)
    for e in ex[:8]: print("       ", e[:200])
