# Throw-away transcription of DESIGN.md Appendix A.4-A.6 (Infra forgiving-base64, Fetch data: URL
# processor, mimesniff MIME parsing/serialising), validated against data-url/tests/*.json.
import json, sys
from whatwg import basic_parse, serialize, percent_decode, FAIL

WS = " \t\n\r"                       # HTTP whitespace
ASCII_WS = " \t\n\x0c\r"
TOKEN = set("!#$%&'*+-.^_`|~") | set(map(chr, range(48, 58))) | set(map(chr, range(65, 91))) | set(map(chr, range(97, 123)))
def is_token(s): return s != "" and all(c in TOKEN for c in s)
def is_qs_token(s): return all(c == "\t" or " " <= c <= "~" or "\x80" <= c <= "\xff" for c in s)

def b64(data: str):
    d = "".join(c for c in data if c not in ASCII_WS)
    if len(d) % 4 == 0:
        if d.endswith("=="): d = d[:-2]
        elif d.endswith("="): d = d[:-1]
    if len(d) % 4 == 1: return None
    alpha = "ABCDEFGHIJKLMNOPQRSTUVWXYZabcdefghijklmnopqrstuvwxyz0123456789+/"
    if any(c not in alpha for c in d): return None
    out = bytearray(); buf = 0; bits = 0
    for c in d:
        buf = (buf << 6) | alpha.index(c); bits += 6
        if bits == 24: out += bytes([(buf >> 16) & 255, (buf >> 8) & 255, buf & 255]); buf = 0; bits = 0
    if bits == 12: out.append((buf >> 4) & 255)
    elif bits == 18: out += bytes([(buf >> 10) & 255, (buf >> 2) & 255])
    return bytes(out)

def mime_parse(s: str):
    s = s.strip(WS)
    i = s.find("/")
    if i < 0: return None
    typ = s[:i]
    if not is_token(typ): return None
    rest = s[i + 1:]
    j = rest.find(";")
    sub = (rest if j < 0 else rest[:j]).rstrip(WS)
    if not is_token(sub): return None
    params = []; pos = len(rest) if j < 0 else j
    while pos < len(rest):
        pos += 1                                  # skip ';'
        while pos < len(rest) and rest[pos] in WS: pos += 1
        st = pos
        while pos < len(rest) and rest[pos] not in ";=": pos += 1
        name = rest[st:pos].lower()
        if pos < len(rest):
            if rest[pos] == ";": continue
            pos += 1                              # skip '='
        if pos >= len(rest): break
        if rest[pos] == '"':
            pos += 1; val = ""
            while True:
                while pos < len(rest) and rest[pos] not in '"\\': val += rest[pos]; pos += 1
                if pos >= len(rest): break
                q = rest[pos]; pos += 1
                if q == "\\":
                    if pos >= len(rest): val += "\\"; break
                    val += rest[pos]; pos += 1
                else: break
            while pos < len(rest) and rest[pos] != ";": pos += 1
        else:
            st = pos
            while pos < len(rest) and rest[pos] != ";": pos += 1
            val = rest[st:pos].rstrip(WS)
            if val == "": continue
        if name != "" and is_token(name) and is_qs_token(val) and all(n != name for n, _ in params):
            params.append((name, val))
    return (typ.lower(), sub.lower(), params)
def mime_ser(m):
    out = m[0] + "/" + m[1]
    for n, v in m[2]:
        out += ";" + n + "="
        out += v if is_token(v) else '"' + v.replace("\\", "\\\\").replace('"', '\\"') + '"'
    return out

def data_url_process(orc, s):
    u = basic_parse(orc, s)
    if u == FAIL or u.scheme != "data": return "NOTDATA"
    inp = serialize(u, True)[5:]
    k = inp.find(",")
    if k < 0: return None
    mime = inp[:k].strip(ASCII_WS); body = percent_decode(inp[k + 1:].encode())
    low = mime.lower()
    if low.endswith("base64"):
        head = mime[:-6].rstrip(" ")
        if head.endswith(";"):
            body = b64(body.decode("latin-1"))
            if body is None: return None
            mime = head[:-1]
    if mime.startswith(";"): mime = "text/plain" + mime
    m = mime_parse(mime) or ("text", "plain", [("charset", "US-ASCII")])
    return (mime_ser(m), body)

if __name__ == "__main__":
    class O:  # hosts in the vectors are plain ASCII
        def idna(self, b): return b.decode().lower()
    T = "/repo/data-url/tests/"
    f = 0; n = 0
    for inp, exp in json.load(open(T + "base64.json")):
        n += 1; got = b64(inp)
        if (None if got is None else list(got)) != exp: print("B64", repr(inp), got, exp); f += 1
    print("base64", n, "fails", f)
    for name in ("mime-types.json", "generated-mime-types.json"):
        f = 0; n = 0
        for t in json.load(open(T + name)):
            if not isinstance(t, dict): continue
            n += 1; m = mime_parse(t["input"]); got = None if m is None else mime_ser(m)
            if got != t["output"]: print("MIME", repr(t["input"]), repr(got), repr(t["output"])); f += 1
        print(name, n, "fails", f)
    f = 0; n = 0
    for t in json.load(open(T + "data-urls.json")):
        n += 1; r = data_url_process(O(), t[0]); expm = t[1]
        if expm is None:
            if r not in (None, "NOTDATA"): print("DATA expected failure", repr(t[0]), r); f += 1
        else:
            if r in (None, "NOTDATA"): print("DATA unexpected failure", repr(t[0]), r); f += 1; continue
            if r[0] != (expm or "text/plain;charset=US-ASCII") or (len(t) > 2 and list(r[1]) != t[2]): print("DATA diff", repr(t[0]), r, t[1:]); f += 1
    print("data-urls", n, "fails", f)
