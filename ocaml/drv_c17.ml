(* drv_c17.ml - line protocol for C17 (data: URL processing = URL parsing + Fetch data: URL processor)
   process <input>         DataUrl model: process + mime_type + decode_to_vec + to_percent_encoded
                           -> "notdata" | "nocomma" | "ok T ST P <b64:0|1> <body | err:details> F" | "PANIC:site" | "FUEL"
   view <input>            the same run in the vocabulary of the property
                           -> "notdata" | "fail" | "ok T ST P SER body F" | "PANIC"
   fetch <dbg> <input>     URL parser MODEL (host functions answered by the harness: hp / ho / hd) followed by
                           Spec/Fetch.v on the serialization without fragment, and the URL's fragment
                           -> "notdata" | "fail" | "ok T ST P SER body F"
   fetchser <ser> <frag|~> Spec/Fetch.v on a given serialization-without-fragment (search mode: the real Url's)
   known17 <input>         -> 0 | 1 | 2
   mimesniff <s>           Spec/MimeSniff.v parse a MIME type -> "~" | "ok T ST P SER"
   Strings are dot-separated hex lists of code points; T ST = type, subtype; P = "_" or n=v,n=v,...;
   SER = serialize a MIME type; F = fragment ("~" = none) *)

let show_params ps =
  if ps = [] then "_"
  else String.concat "," (List.map (fun (n, v) -> show_list n ^ "=" ^ show_list v) ps)

let show_details = function
  | UnexpectedSymbol b -> "sym:" ^ show_n b
  | AlphabetSymbolAfterPadding -> "after-pad"
  | LoneAlphabetSymbol -> "lone"
  | PaddingErr -> "pad"

let show_pd = function
  | PdNotADataUrl -> "notdata"
  | PdNoComma -> "nocomma"
  | PdOk (m, b64, body, frag) ->
    String.concat " " [ "ok"; show_list m.m_type; show_list m.m_subtype; show_params m.m_params; show_bool b64;
                        (match body with Inl b -> show_list b | Inr d -> "err:" ^ show_details d);
                        show_opt show_list frag ]
  | PdPanic site -> "PANIC:" ^ show_n site
  | PdOutOfFuel -> "FUEL"

let show_record m =
  String.concat " " [ show_list m.mt_type; show_list m.mt_subtype; show_params m.mt_parameters;
                      show_list (serialize_a_mime_type m) ]

let show_fetch = function
  | FNotData -> "notdata"
  | FFail -> "fail"
  | FOk (m, body, frag) -> String.concat " " [ "ok"; show_record m; show_list body; show_opt show_list frag ]
  | FPanic -> "PANIC"

(* ---- host functions answered by the harness from the real crate (as in drv_url.ml) ---- *)
let show_host = function
  | HDomain d -> "d" ^ show_list d
  | HIpv4 a -> "4" ^ show_n a
  | HIpv6 p -> "6" ^ show_list p
let parse_host_tok s =
  let arg = String.sub s 1 (String.length s - 1) in
  match s.[0] with
  | 'd' -> HDomain (parse_list arg)
  | '4' -> HIpv4 (parse_n arg)
  | '6' -> HIpv6 (parse_list arg)
  | _ -> failwith "bad host token"
let parse_host_answer a =
  if a.[0] = 'e' then Err (match int_of_string (String.sub a 1 (String.length a - 1)) with
      | 0 -> EmptyHost | 1 -> IdnaError | 2 -> InvalidPort | 3 -> InvalidIpv4Address | 4 -> InvalidIpv6Address
      | 5 -> InvalidDomainCharacter | _ -> failwith "bad error code")
  else Ok (parse_host_tok a)
let o_host_parse l = parse_host_answer (ask_oracle "hp" (show_list l))
let o_host_parse_opaque l = parse_host_answer (ask_oracle "ho" (show_list l))
let o_host_display h = parse_list (ask_oracle "hd" (show_host h))

let handle = function
  | ["process"; input] -> show_pd (process_and_decode (parse_list input))
  | ["view"; input] -> show_fetch (fetch_view (process_and_decode (parse_list input)))
  | ["fetch"; dbg; input] ->
    show_fetch (fetch_of_string (dbg = "1") o_host_parse o_host_parse_opaque o_host_display (parse_list input))
  | ["fetchser"; ser; frag] -> show_fetch (fetch_of_serialization (parse_list ser) (parse_opt parse_list frag))
  | ["known17"; input] -> show_n (known_c17 (parse_list input))
  | ["mimesniff"; s] ->
    (match parse_a_mime_type (parse_list s) with
     | None -> "~"
     | Some m -> "ok " ^ show_record m)
  | _ -> failwith "unknown request"

let () = main_loop handle
