(* drv_c19.ml - line protocol for the MIME model (Model/Mime.v)
   parse <s> <q>            -> "~" | "ok T ST P D G GS" | "PANIC" | "FUEL"
   mime <T> <ST> <P> <q>    -> "D G"
   tables                   -> token flags, whitespace / valid_value membership below 0x120
   P = "_" or n=v,n=v,...   (hex lists) *)
let show_out f = function Ok a -> f a | Panic _ -> "PANIC" | OutOfFuel -> "FUEL"

let show_params ps =
  if ps = [] then "_"
  else String.concat "," (List.map (fun (n, v) -> show_list n ^ "=" ^ show_list v) ps)

let parse_params s =
  if s = "_" then []
  else List.map (fun nv ->
      match String.split_on_char '=' nv with
      | [n; v] -> (parse_list n, parse_list v)
      | _ -> failwith "bad parameter") (String.split_on_char ',' s)

let show_views m q =
  let ps = m.m_params in
  let gs = if ps = [] then "_"
    else String.concat "," (List.map (fun (n, _) -> show_opt show_list (get_parameter ps n)) ps) in
  String.concat " " [ show_out show_list (display m); show_opt show_list (get_parameter ps q); gs ]

let handle = function
  | ["parse"; s; q] ->
    (match parse (parse_list s) with
     | Ok None -> "~"
     | Ok (Some m) ->
       String.concat " " [ "ok"; show_list m.m_type; show_list m.m_subtype; show_params m.m_params;
                           show_views m (parse_list q) ]
     | Panic _ -> "PANIC"
     | OutOfFuel -> "FUEL")
  | ["mime"; t; st; ps; q] ->
    let m = { m_type = parse_list t; m_subtype = parse_list st; m_params = parse_params ps } in
    show_views m (parse_list q)
  | ["tables"] ->
    let n = 0x120 in
    let flags f = String.init n (fun i -> if f (n_of_int i) then '1' else '0') in
    String.concat " " [
      String.init 256 (fun i -> match only_http_token_code_points [n_of_int i] with
          | Ok true -> '1' | Ok false -> '0' | _ -> 'P');
      flags http_whitespace;
      flags (fun c -> valid_value [c]);
      show_list (List.sort (fun a b -> compare (int_of_n a) (int_of_n b)) t_MIME_ESCAPED) ]
  | _ -> failwith "unknown request"

let () = main_loop handle
