(* drv_c18.ml - line protocol for the forgiving-base64 model and the Infra specification model *)
let rec nat_of_int i = if i <= 0 then O else S (nat_of_int (i - 1))
let rec int_of_nat = function O -> 0 | S n -> 1 + int_of_nat n

let show_details = function
  | UnexpectedSymbol b -> "sym:" ^ show_n b
  | AlphabetSymbolAfterPadding -> "after-pad"
  | LoneAlphabetSymbol -> "lone"
  | PaddingErr -> "pad"

let show_derr = function
  | InvalidBase64 d -> show_details d
  | WriteError () -> "werr"

let show_calls cs = if cs = [] then "~" else String.concat "|" (List.map show_list cs)

let show_sink s = show_calls s.ks_out ^ " " ^ string_of_int (int_of_nat s.ks_calls)

let parse_k s = if s = "~" then None else Some (nat_of_int (int_of_string ("0x" ^ s)))

let run_one k chunks =
  let (s, r) = run_chunks kwrite (ksink_new k) chunks in
  show_sink s ^ " " ^ (match r with None -> "ok" | Some e -> show_derr e)

let body_one b64 k body =
  let (s, r) = data_url_decode kwrite b64 (ksink_new k) body in
  (int_of_nat s.ks_calls,
   show_sink s ^ " " ^
   (match r with
    | BodyOk f -> "ok:" ^ show_opt show_list f
    | BodyErr e -> show_derr e
    | BodyPanic -> "PANIC"))

let rec take n l = if n <= 0 then [] else match l with [] -> [] | x :: r -> x :: take (n - 1) r
let rec drop n l = if n <= 0 then l else match l with [] -> [] | _ :: r -> drop (n - 1) r

(* every way of cutting l into n (2 or 3) consecutive chunks, in the order the harness uses *)
let cuttings n l =
  let len = List.length l in
  let out = ref [] in
  if n = 2 then
    for i = 0 to len do out := [take i l; drop i l] :: !out done
  else
    for i = 0 to len do
      for j = i to len do
        out := [take i l; take (j - i) (drop i l); drop j l] :: !out
      done
    done;
  List.rev !out

let cuts_ks = [None; Some (nat_of_int 1); Some (nat_of_int 2); Some (nat_of_int 3)]

let handle = function
  | ["dec"; bs] ->
    (match decode_to_vec (parse_list bs) with
     | Inl v -> "ok:" ^ show_list v
     | Inr d -> "err:" ^ show_details d)
  | ["spec"; bs] ->
    (match forgiving_base64_decode (parse_list bs) with
     | Some v -> "ok:" ^ show_list v
     | None -> "fail")
  | ["enc"; pad; bs] -> show_list (std_encode (pad = "1") (parse_list bs))
  | "run" :: k :: chunks -> run_one (parse_k k) (List.map parse_list chunks)
  | ["cuts"; n; bs] ->
    let l = parse_list bs in
    String.concat ";" (List.concat_map (fun cs -> List.map (fun k -> run_one k cs) cuts_ks) (cuttings (int_of_string n) l))
  | ["body"; b64; k; body] -> snd (body_one (b64 = "1") (parse_k k) (parse_list body))
  | ["bodyk"; b64; body] ->
    let b = parse_list body in
    let (n, free) = body_one (b64 = "1") None b in
    let rec ks k = if k > n + 1 then [] else snd (body_one (b64 = "1") (Some (nat_of_int k)) b) :: ks (k + 1) in
    String.concat ";" (free :: ks 1)
  | _ -> failwith "unknown request"

let () = main_loop handle
