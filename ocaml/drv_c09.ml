(* drv_c09.ml - line protocol for the host model (Model/Host.v) *)
let show_err = function
  | EmptyHost -> "EmptyHost" | IdnaError -> "IdnaError" | InvalidIpv4Address -> "InvalidIpv4Address"
  | InvalidIpv6Address -> "InvalidIpv6Address" | InvalidDomainCharacter -> "InvalidDomainCharacter"
  | _ -> "OtherError"

let show_host = function
  | HDomain d -> "D:" ^ show_list d
  | HIpv4 a -> "4:" ^ show_n a
  | HIpv6 ps -> "6:" ^ show_list ps

let parse_host s =
  let tag = s.[0] and arg = String.sub s 2 (String.length s - 2) in
  match tag with
  | 'D' -> HDomain (parse_list arg)
  | '4' -> HIpv4 (parse_n arg)
  | '6' -> HIpv6 (parse_list arg)
  | _ -> failwith "bad host"

let show_xr f = function
  | XOk a -> "ok:" ^ f a
  | XErr e -> "err:" ^ show_err e
  | XPanic _ -> "PANIC"
  | XFuel -> "FUEL"

(* the exported result-typed entry points must agree with the x versions *)
let show_result f = function
  | Ok a -> "ok:" ^ f a
  | Err e -> "err:" ^ show_err e

let idna bytes =
  match ask_oracle "idna" (show_list bytes) with
  | "~" -> None
  | v -> Some (parse_list v)

(* parse, display of the result, re-parse of the display *)
let with_rt (p : n list -> host xr) input =
  let r = p input in
  match r with
  | XOk h ->
    let d = host_display h in
    String.concat " " [show_xr show_host r; show_list d; show_xr show_host (p d)]
  | _ -> String.concat " " [show_xr show_host r; "~"; "~"]

let handle = function
  | ["parse"; s] -> with_rt (host_parse_x idna) (parse_list s)
  | ["opaque"; s] -> with_rt host_parse_opaque_x (parse_list s)
  | ["parse_r"; s] -> show_result show_host (host_parse idna (parse_list s))
  | ["opaque_r"; s] -> show_result show_host (host_parse_opaque (parse_list s))
  | ["disp"; h] ->
    let d = host_display (parse_host h) in
    String.concat " " [show_list d; show_xr show_host (host_parse_x idna d); show_xr show_host (host_parse_opaque_x d)]
  (* the specification model (Spec/WhatwgHost.v), validated against the harness's transcription *)
  | ["spec6"; s] -> (match Spec.ipv6_parse (parse_list s) with Some a -> "ok:" ^ show_list a | None -> "fail")
  (* model against specification model, directly: 1 = equal *)
  | ["mvs6"; s] ->
    let l = parse_list s in
    let m = (match parse_ipv6addr (utf8_encode l) with XOk a -> "ok:" ^ show_list a | XErr _ -> "fail" | XPanic _ -> "PANIC" | XFuel -> "FUEL") in
    let sp = (match Spec.ipv6_parse l with Some a -> "ok:" ^ show_list a | None -> "fail") in
    if m = sp then "1" else "0:" ^ m ^ "/" ^ sp
  | ["mvs4"; s] ->
    let l = parse_list s in
    let m = (match parse_ipv4addr l with XOk a -> "ok:" ^ show_n a | XErr _ -> "fail" | XPanic _ -> "PANIC" | XFuel -> "FUEL") in
    let sp = (match Spec.ipv4_parse l with Some a -> "ok:" ^ show_n a | None -> "fail") in
    if m = sp && ends_in_a_number l = Spec.ends_in_a_number l then "1" else "0:" ^ m ^ "/" ^ sp
  | ["specser"; a] -> show_list (Spec.ipv6_serialize (parse_list a))
  | ["spec4"; s] ->
    let l = parse_list s in
    (match Spec.ipv4_parse l with Some a -> "ok:" ^ show_n a | None -> "fail") ^ " " ^ show_bool (Spec.ends_in_a_number l)
  | ["tables"] -> show_list t_HOST_INVALID_HOST_CHARS ^ " " ^ show_list t_HOST_IDNA_DENIED
  | _ -> failwith "unknown request"

let () = main_loop handle
