(* drv_c08.ml - line protocol for C08: Url::join (= parse with a base), Url::make_relative, the C08 classes.
   Host-oracle part and the parse/get requests are those of drv_url.ml. *)

(* ---- host values: n | d<list> | 4<hex> | 6<list> ; host_internal: n | d | 4<hex> | 6<list> ---- *)
let show_host = function
  | HDomain d -> "d" ^ show_list d
  | HIpv4 a -> "4" ^ show_n a
  | HIpv6 p -> "6" ^ show_list p
let parse_host_tok s =
  let arg = String.sub s 1 (String.length s - 1) in
  match s.[0] with
  | 'd' -> HDomain (parse_list arg)
  | '4' -> HIpv4 (parse_n arg)
  | '6' -> HIpv6 (parse_list arg)
  | _ -> failwith "bad host token"
let show_hi = function
  | HI_None -> "n" | HI_Domain -> "d" | HI_Ipv4 a -> "4" ^ show_n a | HI_Ipv6 p -> "6" ^ show_list p
let parse_hi s =
  match s.[0] with
  | 'n' -> HI_None | 'd' -> HI_Domain
  | '4' -> HI_Ipv4 (parse_n (String.sub s 1 (String.length s - 1)))
  | '6' -> HI_Ipv6 (parse_list (String.sub s 1 (String.length s - 1)))
  | _ -> failwith "bad host_internal token"

(* ---- url record: ser,se,ue,hs,he,hi,port,ps,qs,fs ---- *)
let show_url u =
  String.concat "," [ show_list u.ser; show_n u.scheme_end; show_n u.username_end; show_n u.host_start;
                      show_n u.host_end; show_hi u.hosti; show_opt show_n u.port; show_n u.path_start;
                      show_opt show_n u.query_start; show_opt show_n u.fragment_start ]
let parse_url_tok s =
  match String.split_on_char ',' s with
  | [ser; se; ue; hs; he; hi; port; ps; qs; fs] ->
    { ser = parse_list ser; scheme_end = parse_n se; username_end = parse_n ue; host_start = parse_n hs;
      host_end = parse_n he; hosti = parse_hi hi; port = parse_opt parse_n port; path_start = parse_n ps;
      query_start = parse_opt parse_n qs; fragment_start = parse_opt parse_n fs }
  | _ -> failwith "bad url token"

(* ---- host functions answered by the harness from the real crate (until Model/Host.v is linked) ---- *)
let parse_host_answer a =
  if a.[0] = 'e' then Err (match int_of_string (String.sub a 1 (String.length a - 1)) with
      | 0 -> EmptyHost | 1 -> IdnaError | 2 -> InvalidPort | 3 -> InvalidIpv4Address | 4 -> InvalidIpv6Address
      | 5 -> InvalidDomainCharacter | _ -> failwith "bad error code")
  else Ok (parse_host_tok a)
let o_host_parse l = parse_host_answer (ask_oracle "hp" (show_list l))
let o_host_parse_opaque l = parse_host_answer (ask_oracle "ho" (show_list l))
let o_host_display h = parse_list (ask_oracle "hd" (show_host h))

let ovr_of = function
  | "0" -> None
  | "1" -> Some utf8_encode
  | "2" -> Some (List.map (fun c -> if int_of_n c < 256 then c else n_of_int 63))
  | _ -> failwith "bad override"

let show_pres f = function
  | POk a -> "ok " ^ f a
  | PErr e -> "err " ^ show_n (parse_error_code e)
  | PPanic -> "panic"

let dbg_of s = s = "1"
let so f = function None -> "panic" | Some x -> f x
let soo f = function None -> "panic" | Some None -> "~" | Some (Some x) -> f x


let handle = function
  | ["parse"; dbg; ovr; base; input] ->
    let b = parse_opt parse_url_tok base in
    show_pres show_url (parse_url (dbg_of dbg) o_host_parse o_host_parse_opaque o_host_display (ovr_of ovr) b (parse_list input))
  | ["get"; dbg; u] ->
    let d = dbg_of dbg and u = parse_url_tok u in
    String.concat " " [
      so show_list (scheme u); so show_bool (has_authority d u); so show_bool (cannot_be_a_base u);
      so show_list (authority d u); so show_list (username d u); soo show_list (password d u);
      show_bool (has_host u); soo show_list (host_str u); soo show_host (host_of u); soo show_list (domain u);
      soo show_n (port_or_known_default u); so show_list (path u);
      soo (fun segs -> String.concat "|" (List.map show_list segs)) (path_segments u);
      soo show_list (query d u); soo show_list (fragment d u); so show_bool (is_special u) ]
  | ["mkrel"; dbg; b; t] ->
    soo show_list (make_relative (dbg_of dbg) (parse_url_tok b) (parse_url_tok t))
  | ["mrok"; b; t] -> string_of_int (int_of_n (known_c08 (parse_url_tok b) (parse_url_tok t)))
  | ["cpre"; b; input] -> show_bool (contain_pre (parse_url_tok b) (parse_list input))
  | ["wf"; u] -> show_bool (wf_b (parse_url_tok u))
  | _ -> failwith "unknown request"

let () = main_loop handle
