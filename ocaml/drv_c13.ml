(* drv_c13.ml - line protocol for the Punycode model.
   requests (cfg = 1: overflow checks compiled in, 0: wrapping):
     enc  <cfg> <scalars>   -> <encode> <encode_str>
     enci <cfg> <scalars>   -> <encode_internal>
     dec  <cfg> <bytes>     -> <decode> <decode_to_string>
     deci <cfg> <inst> <units> -> <decode_with inst>      inst = u8i | chi | u8e
     tab                    -> digit_u8 on 0..255, digit_char on 0..255, value_to_digit on 0..39, constants
   results: ok:<list> | err | PANIC *)
let show_res = function Ok l -> "ok:" ^ show_list l | Err -> "err" | Panic _ -> "PANIC"
let cfg_of s = (s = "1")
let inst_of = function "u8i" -> U8Internal | "chi" -> CharInternal | _ -> U8External

let handle = function
  | ["enc"; c; s] -> let s = parse_list s in show_res (encode (cfg_of c) s) ^ " " ^ show_res (encode_str (cfg_of c) s)
  | ["enci"; c; s] -> show_res (encode_internal (cfg_of c) (parse_list s))
  | ["dec"; c; b] -> let b = parse_list b in show_res (decode (cfg_of c) b) ^ " " ^ show_res (decode_to_string (cfg_of c) b)
  | ["deci"; c; i; b] -> show_res (decode_with (cfg_of c) (inst_of i) (parse_list b))
  | ["tab"] ->
    let so = function Some v -> show_n v | None -> "~" in
    let sr = function Ok v -> show_n v | _ -> "P" in
    let range n f = String.concat "." (List.init n (fun i -> f (n_of_int i))) in
    String.concat " " [ range 256 (fun b -> so (digit_u8 b)); range 256 (fun b -> so (digit_char b));
                        range 40 (fun v -> sr (value_to_digit v));
                        show_list [bASE; t_MIN; t_MAX; sKEW; dAMP; iNITIAL_BIAS; iNITIAL_N] ]
  | _ -> failwith "unknown request"

let () = main_loop handle
