(* drv_idna.ml - line protocol for the UTS #46 model (C10, C11, C12).
   The adapter functions are oracle queries answered by the harness from the real idna_adapter
   crate; answers are memoised (the adapter is a pure function of its argument).
     Q mapnorm <scalars> / Q normval <scalars> -> list      Q bc <c> / Q jt <c> -> bit field
     Q mark <c> / Q virama <c> -> 0|1
   Common fields: <cfg> 1 = debug assertions compiled in; <deny> E | S | U | C:<g>:<bytes>
   (AsciiDenyList::new(g, bytes)); <hy> a | f | c; <dns> i | r | v; <pol> 0 never, 1 always,
   2 "label length even", 3 "(label length + tld length + bidi) even".
   requests
     ta   <cfg> <deny> <hy> <dns> <bytes>          -> ok:<borrowed>:<text> | err | PANIC
     ui   <cfg> <deny> <hy> <pol> <bytes>          -> <borrowed>:<text>:<err> | PANIC
     proc <cfg> <deny> <hy> <ff> <pol> <k1> <k2> <asink> <bytes>  -> <status>:<sink>:<asink>
     vdl  <cfg> <allow> <bytes>                    -> 0 | 1 | PANIC
     wrap <cfg> <bytes>      (valid UTF-8)         -> cowE cowS cowU dta dtas dtu, space separated
     dep  <cfg> <flags s,t,v,h> <out0 bytes> <bytes>  (valid UTF-8) -> Idna::to_ascii Idna::to_unicode
     dnew <g> <bytes>                              -> ok | PANIC
     full <cfg> <bytes>                            -> every option combination (see full_results)
     known11 <cfg> <deny> <hy> <bytes> / known12 <cfg> <deny> <hy> <bytes> -> 0 | 1 *)
let memo : (string, string) Hashtbl.t = Hashtbl.create 4096
let ask name arg =
  let key = name ^ " " ^ arg in
  match Hashtbl.find_opt memo key with
  | Some v -> v
  | None -> let v = ask_oracle name arg in
            if Hashtbl.length memo > 200000 then Hashtbl.reset memo;
            Hashtbl.add memo key v; v

let the_adapter = {
  map_normalize = (fun l -> parse_list (ask "mapnorm" (show_list l)));
  normalize_validate = (fun l -> parse_list (ask "normval" (show_list l)));
  joining_type = (fun c -> parse_n (ask "jt" (show_n c)));
  bidi_class = (fun c -> parse_n (ask "bc" (show_n c)));
  is_mark = (fun c -> ask "mark" (show_n c) = "1");
  is_virama = (fun c -> ask "virama" (show_n c) = "1") }

let cfg_of s = (s = "1")
exception Deny_panic
let deny_of s =
  match s with
  | "E" -> dENY_EMPTY | "S" -> dENY_STD3 | "U" -> dENY_URL
  | _ -> (match String.split_on_char ':' s with
          | ["C"; g; l] -> (match deny_new (g = "1") (parse_list l) with Ok b -> b | _ -> raise Deny_panic)
          | _ -> failwith "bad deny")
let hy_of = function "a" -> HAllow | "f" -> HCheckFirstLast | "c" -> HCheck | _ -> failwith "bad hy"
let dns_of = function "i" -> DIgnore | "r" -> DVerifyAllowRootDot | "v" -> DVerify | _ -> failwith "bad dns"
let llen l = List.length l
let pol_of = function
  | "0" -> (fun _ _ _ -> false)
  | "1" -> (fun _ _ _ -> true)
  | "2" -> (fun label _ _ -> llen label mod 2 = 0)
  | "3" -> (fun label tld bidi -> (llen label + llen tld + (if bidi then 1 else 0)) mod 2 = 0)
  | _ -> failwith "bad policy"
let k_of s = if s = "~" then None else
  let rec nat i = if i = 0 then O else S (nat (i - 1)) in Some (nat (int_of_string s))

let show_ta = function
  | Ok (b, t) -> "ok:" ^ show_bool b ^ ":" ^ show_list t
  | Err -> "err"
  | Panic _ -> "PANIC"
let show_str = function Ok t -> "ok:" ^ show_list t | Err -> "err" | Panic _ -> "PANIC"
let show_ui = function
  | UI (b, t, e) -> show_bool b ^ ":" ^ show_list t ^ ":" ^ show_bool e
  | UIPanic _ -> "PANIC"
let show_status = function
  | PPassthrough -> "pass" | PWroteToSink -> "wrote" | PValidityError -> "invalid" | PSinkError -> "sinkerr"
  | PPanic _ -> "PANIC"
let show_proc ((st, s), a) =
  match st with PPanic _ -> "PANIC" | _ -> show_status st ^ ":" ^ show_list s ^ ":" ^ show_list a

let a = the_adapter
let ta c d h n b = try show_ta (to_ascii a c b (deny_of d) (hy_of h) (dns_of n)) with Deny_panic -> "PANIC"
let ui c d h p b = try show_ui (to_user_interface a c b (deny_of d) (hy_of h) (pol_of p)) with Deny_panic -> "PANIC"
let proc c d h ff p k1 k2 asink b =
  try show_proc (process a c (ff = "1") (pol_of p) b (deny_of d) (hy_of h) (k_of k1) (k_of k2) (asink = "1"))
  with Deny_panic -> "PANIC"

let custom = "C:1:5f"
let denies = ["E"; "S"; "U"; custom]
let hys = ["a"; "f"; "c"]
let dnss = ["i"; "r"; "v"]

let wrap_results c b =
  let s = utf8_lossy b in
  let cow d = show_ta (domain_to_ascii_cow a c b (deny_of d)) in
  [cow "E"; cow "S"; cow "U"; show_str (domain_to_ascii a c s); show_str (domain_to_ascii_strict a c s);
   (match domain_to_unicode a c s with UI (_, t, e) -> show_ui (UI (false, t, e)) | r -> show_ui r)]

let config_of f =
  let bit i = String.length f > i && f.[i] = '1' in
  { use_std3_ascii_rules = bit 0; transitional_processing = bit 1; cfg_verify_dns_length = bit 2;
    cfg_check_hyphens = bit 3 }
let show_dep_u = function Ok (t, e) -> show_list t ^ ":" ^ show_bool e | _ -> "PANIC"
let dep_results c f out0 b =
  let s = utf8_lossy b in
  let o = utf8_lossy out0 in
  [show_str (idna_to_ascii a c (config_of f) s o); show_dep_u (idna_to_unicode a c (config_of f) s o)]

let all_flags = List.concat_map (fun x -> List.concat_map (fun y -> List.concat_map (fun z ->
  List.map (fun w -> x ^ y ^ z ^ w) ["0"; "1"]) ["0"; "1"]) ["0"; "1"]) ["0"; "1"]

let full_results c b =
  let r = ref [] in
  let push x = r := x :: !r in
  List.iter (fun d -> List.iter (fun h -> List.iter (fun n -> push (ta c d h n b)) dnss) hys) denies;
  List.iter (fun d -> List.iter (fun h -> push (ui c d h "1" b)) hys) denies;
  List.iter (fun p -> List.iter (fun d -> List.iter (fun h -> push (ui c d h p b)) ["a"; "c"]) ["E"; "U"]) ["0"; "2"; "3"];
  List.iter (fun p -> push (proc c "U" "a" "0" p "~" "~" "1" b)) ["1"; "2"; "3"];
  push (proc c "U" "a" "1" "0" "~" "~" "1" b);
  push (proc c "E" "f" "1" "2" "~" "~" "0" b);
  if List.for_all (fun x -> int_of_n x < 128) b then begin
    push (match verify_dns_length_pub c b true with Ok v -> show_bool v | _ -> "PANIC");
    push (match verify_dns_length_pub c b false with Ok v -> show_bool v | _ -> "PANIC")
  end;
  if utf8_valid b then begin
    List.iter push (wrap_results c b);
    List.iter (fun f -> List.iter push (dep_results c f [] b)) all_flags
  end;
  String.concat " " (List.rev !r)

(* Known_C11 / Known_C12, computed from the mark-errors run of process_inner *)
let rec zip_ap labels aps = match labels, aps with
  | l :: ls, p :: ps -> (l, p) :: zip_ap ls ps
  | _, _ -> []
let fffd = n_of_int 0xFFFD
let dot = n_of_int 46
let rec split_dots l =
  match l with
  | [] -> [[]]
  | x :: r -> (match split_dots r with
               | h :: t -> if int_of_n x = 46 then [] :: h :: t else (x :: h) :: t
               | [] -> [[x]])
let known11 c d h b =
  match process_inner a c false (hy_of h) (deny_of d) b with
  | IRes (_, bidi, _, db, ap) ->
    bidi && List.exists (fun (l, p) -> match p with MixedCaseAscii _ -> List.exists (fun x -> int_of_n x = 0xFFFD) l | _ -> false)
              (zip_ap (split_dots db) ap)
  | IPanic _ -> false
let starts_xn l = match List.map int_of_n l with
  | 120 :: 110 :: 45 :: 45 :: _ -> true | _ -> false
let known12 c d h b =
  match process_inner a c false (hy_of h) (deny_of d) b with
  | IRes (_, _, _, db, ap) ->
    List.exists (fun (l, p) -> match p with MixedCaseAscii _ -> false | _ -> starts_xn l) (zip_ap (split_dots db) ap)
  | IPanic _ -> false

let handle = function
  | ["ta"; c; d; h; n; b] -> ta (cfg_of c) d h n (parse_list b)
  | ["ui"; c; d; h; p; b] -> ui (cfg_of c) d h p (parse_list b)
  | ["proc"; c; d; h; ff; p; k1; k2; asink; b] -> proc (cfg_of c) d h ff p k1 k2 asink (parse_list b)
  | ["vdl"; c; al; b] -> (match verify_dns_length_pub (cfg_of c) (parse_list b) (al = "1") with Ok v -> show_bool v | _ -> "PANIC")
  | ["wrap"; c; b] -> String.concat " " (wrap_results (cfg_of c) (parse_list b))
  | ["dep"; c; f; o; b] -> String.concat " " (dep_results (cfg_of c) f (parse_list o) (parse_list b))
  | ["dnew"; g; l] -> (match deny_new (g = "1") (parse_list l) with Ok _ -> "ok" | _ -> "PANIC")
  | ["full"; c; b] -> full_results (cfg_of c) (parse_list b)
  | ["known11"; c; d; h; b] -> show_bool (known11 (cfg_of c) d h (parse_list b))
  | ["known12"; c; d; h; b] -> show_bool (known12 (cfg_of c) d h (parse_list b))
  | _ -> failwith "unknown request"

let () = main_loop handle
