(* drv_c20.ml - line protocol for the file-path <-> file: URL model (Model/FilePath.v) *)

(* ---- host values / url record: same tokens as drv_url.ml ---- *)
let show_host = function
  | HDomain d -> "d" ^ show_list d
  | HIpv4 a -> "4" ^ show_n a
  | HIpv6 p -> "6" ^ show_list p
let parse_host_tok s =
  let arg = String.sub s 1 (String.length s - 1) in
  match s.[0] with
  | 'd' -> HDomain (parse_list arg)
  | '4' -> HIpv4 (parse_n arg)
  | '6' -> HIpv6 (parse_list arg)
  | _ -> failwith "bad host token"
let show_hi = function
  | HI_None -> "n" | HI_Domain -> "d" | HI_Ipv4 a -> "4" ^ show_n a | HI_Ipv6 p -> "6" ^ show_list p
let parse_hi s =
  match s.[0] with
  | 'n' -> HI_None | 'd' -> HI_Domain
  | '4' -> HI_Ipv4 (parse_n (String.sub s 1 (String.length s - 1)))
  | '6' -> HI_Ipv6 (parse_list (String.sub s 1 (String.length s - 1)))
  | _ -> failwith "bad host_internal token"

let show_url u =
  String.concat "," [ show_list u.ser; show_n u.scheme_end; show_n u.username_end; show_n u.host_start;
                      show_n u.host_end; show_hi u.hosti; show_opt show_n u.port; show_n u.path_start;
                      show_opt show_n u.query_start; show_opt show_n u.fragment_start ]
let parse_url_tok s =
  match String.split_on_char ',' s with
  | [ser; se; ue; hs; he; hi; port; ps; qs; fs] ->
    { ser = parse_list ser; scheme_end = parse_n se; username_end = parse_n ue; host_start = parse_n hs;
      host_end = parse_n he; hosti = parse_hi hi; port = parse_opt parse_n port; path_start = parse_n ps;
      query_start = parse_opt parse_n qs; fragment_start = parse_opt parse_n fs }
  | _ -> failwith "bad url token"

(* ---- host functions inside parse_url: answered by the harness from the real crate ---- *)
let parse_host_answer a =
  if a.[0] = 'e' then Err (match int_of_string (String.sub a 1 (String.length a - 1)) with
      | 0 -> EmptyHost | 1 -> IdnaError | 2 -> InvalidPort | 3 -> InvalidIpv4Address | 4 -> InvalidIpv6Address
      | 5 -> InvalidDomainCharacter | _ -> failwith "bad error code")
  else Ok (parse_host_tok a)
let o_host_parse l = parse_host_answer (ask_oracle "hp" (show_list l))
let o_host_parse_opaque l = parse_host_answer (ask_oracle "ho" (show_list l))
let o_host_display h = parse_list (ask_oracle "hd" (show_host h))

let dbg_of s = s = "1"
let show_fres f = function
  | FOk a -> "ok " ^ f a
  | FErr -> "err"
  | FPanic -> "panic"
let show_pres f = function
  | POk a -> "ok " ^ f a
  | PErr e -> "err " ^ show_n (parse_error_code e)
  | PPanic -> "panic"

let show_component = function
  | CRootDir -> "R"
  | CCurDir -> "C"
  | CParentDir -> "P"
  | CNormal b -> "N" ^ show_list b

let handle = function
  (* path <dbg> <path>: from_file_path | from_directory_path | to_file_path of each | is_absolute, components *)
  | ["path"; dbg; p] ->
    let d = dbg_of dbg and p = parse_list p in
    let rf = from_file_path p and rd = from_directory_path p in
    let tof = function FOk u -> show_fres show_list (to_file_path d u) | _ -> "-" in
    String.concat " | " [
      show_fres show_url rf; show_fres show_url rd; tof rf; tof rd;
      show_bool (path_is_absolute p) ^ " " ^
      (match path_components p with [] -> "-" | cs -> String.concat "|" (List.map show_component cs)) ]
  (* to <dbg> <url record> *)
  | ["to"; dbg; u] ->
    show_fres show_list (to_file_path (dbg_of dbg) (parse_url_tok u))
  (* pathjoin <p> <f> *)
  | ["pathjoin"; p; f] -> show_list (path_join (parse_list p) (parse_list f))
  (* patheq <p> <q> *)
  | ["patheq"; p; q] -> show_bool (path_eq (parse_list p) (parse_list q))
  (* join <dbg> <dir path> <reference code points>: from_directory_path, join, to_file_path *)
  | ["join"; dbg; p; r] ->
    let d = dbg_of dbg in
    (match from_directory_path (parse_list p) with
     | FOk base ->
       let j = url_join d o_host_parse o_host_parse_opaque o_host_display base (parse_list r) in
       show_pres show_url j ^ " | " ^
       (match j with POk u -> show_fres show_list (to_file_path d u) | _ -> "-")
     | FErr -> "direrr"
     | FPanic -> "dirpanic")
  (* name <bytes>: reference, plain_name, simple_name *)
  | ["name"; f] ->
    let f = parse_list f in
    show_list (name_reference f) ^ " " ^ show_bool (plain_name f) ^ " " ^ show_bool (simple_name f)
  | _ -> failwith "unknown request"

let () = main_loop handle
