(* drv_url.ml - line protocol for the URL model (parser, accessors, setters, ...) *)

(* ---- host values: n | d<list> | 4<hex> | 6<list> ; host_internal: n | d | 4<hex> | 6<list> ---- *)
let show_host = function
  | HDomain d -> "d" ^ show_list d
  | HIpv4 a -> "4" ^ show_n a
  | HIpv6 p -> "6" ^ show_list p
let parse_host_tok s =
  let arg = String.sub s 1 (String.length s - 1) in
  match s.[0] with
  | 'd' -> HDomain (parse_list arg)
  | '4' -> HIpv4 (parse_n arg)
  | '6' -> HIpv6 (parse_list arg)
  | _ -> failwith "bad host token"
let show_hi = function
  | HI_None -> "n" | HI_Domain -> "d" | HI_Ipv4 a -> "4" ^ show_n a | HI_Ipv6 p -> "6" ^ show_list p
let parse_hi s =
  match s.[0] with
  | 'n' -> HI_None | 'd' -> HI_Domain
  | '4' -> HI_Ipv4 (parse_n (String.sub s 1 (String.length s - 1)))
  | '6' -> HI_Ipv6 (parse_list (String.sub s 1 (String.length s - 1)))
  | _ -> failwith "bad host_internal token"

(* ---- url record: ser,se,ue,hs,he,hi,port,ps,qs,fs ---- *)
let show_url u =
  String.concat "," [ show_list u.ser; show_n u.scheme_end; show_n u.username_end; show_n u.host_start;
                      show_n u.host_end; show_hi u.hosti; show_opt show_n u.port; show_n u.path_start;
                      show_opt show_n u.query_start; show_opt show_n u.fragment_start ]
let parse_url_tok s =
  match String.split_on_char ',' s with
  | [ser; se; ue; hs; he; hi; port; ps; qs; fs] ->
    { ser = parse_list ser; scheme_end = parse_n se; username_end = parse_n ue; host_start = parse_n hs;
      host_end = parse_n he; hosti = parse_hi hi; port = parse_opt parse_n port; path_start = parse_n ps;
      query_start = parse_opt parse_n qs; fragment_start = parse_opt parse_n fs }
  | _ -> failwith "bad url token"

(* ---- host functions answered by the harness from the real crate (until Model/Host.v is linked) ---- *)
let parse_host_answer a =
  if a.[0] = 'e' then Err (match int_of_string (String.sub a 1 (String.length a - 1)) with
      | 0 -> EmptyHost | 1 -> IdnaError | 2 -> InvalidPort | 3 -> InvalidIpv4Address | 4 -> InvalidIpv6Address
      | 5 -> InvalidDomainCharacter | _ -> failwith "bad error code")
  else Ok (parse_host_tok a)
(* the host functions are the MODEL's (Model/Host.v, property C09); only IDNA ToASCII inside
   Host::parse is answered by the harness from the real idna crate (oracle "idna": percent-decoded
   bytes -> ASCII domain or ~).  Set URL_DRIVER_HOST_ORACLE=1 to fall back to the real crate's host
   functions (hp/ho/hd), e.g. to separate a host-model mismatch from a parser-model mismatch. *)
let host_via_oracle = (try Sys.getenv "URL_DRIVER_HOST_ORACLE" = "1" with Not_found -> false)
let idna_cache : (string, n list option) Hashtbl.t = Hashtbl.create 64
let o_idna bytes =
  let key = show_list bytes in
  match Hashtbl.find_opt idna_cache key with
  | Some r -> r
  | None ->
    let r = parse_opt parse_list (ask_oracle "idna" key) in
    if Hashtbl.length idna_cache > 100000 then Hashtbl.reset idna_cache;
    Hashtbl.replace idna_cache key r; r
let o_host_parse l =
  if host_via_oracle then parse_host_answer (ask_oracle "hp" (show_list l)) else host_parse o_idna l
let o_host_parse_opaque l =
  if host_via_oracle then parse_host_answer (ask_oracle "ho" (show_list l)) else host_parse_opaque l
let o_host_display h =
  if host_via_oracle then parse_list (ask_oracle "hd" (show_host h)) else host_display h

let ovr_of = function
  | "0" -> None
  | "1" -> Some utf8_encode
  | "2" -> Some (List.map (fun c -> if int_of_n c < 256 then c else n_of_int 63))
  | _ -> failwith "bad override"

let show_pres f = function
  | POk a -> "ok " ^ f a
  | PErr e -> "err " ^ show_n (parse_error_code e)
  | PPanic -> "panic"

let dbg_of s = s = "1"
let so f = function None -> "panic" | Some x -> f x
let soo f = function None -> "panic" | Some None -> "~" | Some (Some x) -> f x

let all_positions = [BeforeScheme; AfterScheme; BeforeUsername; AfterUsername; BeforePassword; AfterPassword;
                     BeforeHost; AfterHost; BeforePort; AfterPort; BeforePath; AfterPath;
                     BeforeQuery; AfterQuery; BeforeFragment; AfterFragment]

let handle = function
  | ["parse"; dbg; ovr; base; input] ->
    let b = parse_opt parse_url_tok base in
    show_pres show_url (parse_url (dbg_of dbg) o_host_parse o_host_parse_opaque o_host_display (ovr_of ovr) b (parse_list input))
  | ["get"; dbg; u] ->
    let d = dbg_of dbg and u = parse_url_tok u in
    String.concat " " [
      so show_list (scheme u); so show_bool (has_authority d u); so show_bool (cannot_be_a_base u);
      so show_list (authority d u); so show_list (username d u); soo show_list (password d u);
      show_bool (has_host u); soo show_list (host_str u); soo show_host (host_of u); soo show_list (domain u);
      soo show_n (port_or_known_default u); so show_list (path u);
      soo (fun segs -> String.concat "|" (List.map show_list segs)) (path_segments u);
      soo show_list (query d u); soo show_list (fragment d u); so show_bool (is_special u) ]
  | "op" :: dbg :: u :: name :: args ->
    let d = dbg_of dbg and u = parse_url_tok u in
    let hp = o_host_parse and ho = o_host_parse_opaque and hd = o_host_display in
    let st = function SOk -> "ok" | SErrUnit -> "errunit" | SErr e -> "err" ^ show_n (parse_error_code e) in
    let r1 = function None -> "panic" | Some u' -> show_url u' ^ " ok" in
    let r2 = function None -> "panic" | Some (u', s) -> show_url u' ^ " " ^ st s in
    let l i = parse_list (List.nth args i) in
    let lo i = parse_opt parse_list (List.nth args i) in
    (match name with
     | "set_fragment" -> r1 (set_fragment d u (lo 0))
     | "set_query" -> r1 (set_query d u (lo 0))
     | "set_path" -> r1 (set_path d u (l 0))
     | "set_port" -> r2 (set_port d u (parse_opt parse_n (List.nth args 0)))
     | "set_host" -> r2 (set_host d hp ho hd u (lo 0))
     | "set_ip_host" -> r2 (set_ip_host d hd u (parse_host_tok (List.nth args 0)))
     | "set_password" -> r2 (set_password d u (lo 0))
     | "set_username" -> r2 (set_username d u (l 0))
     | "set_scheme" -> r2 (set_scheme d u (l 0))
     | "psm" ->
       let op s = match s.[0] with
         | 'c' -> PClear | 'e' -> PPopIfEmpty | 'p' -> PPop
         | 'u' -> PPush (parse_list (String.sub s 1 (String.length s - 1)))
         | 'x' -> let a = String.sub s 1 (String.length s - 1) in
           PExtend (if a = "" then [] else List.map parse_list (String.split_on_char ';' a))
         | _ -> failwith "bad psm op" in
       r2 (path_segments_session d u (List.map op args))
     | "join" ->
       (match parse_url d hp ho hd None (Some u) (l 0) with
        | POk u' -> show_url u' ^ " ok"
        | PErr e -> show_url u ^ " err" ^ show_n (parse_error_code e)
        | PPanic -> "panic")
     | "qpm" ->
       (* qpm <finish flag> <op>*   op = a<k>=<v> | k<k> | x<k>=<v>;<k>=<v>... | c *)
       let pair s = match String.split_on_char '=' s with
         | [k; v] -> (parse_list k, parse_list v) | _ -> failwith "bad pair" in
       let op s = let a = String.sub s 1 (String.length s - 1) in
         match s.[0] with
         | 'a' -> let (k, v) = pair a in OpAppendPair (k, v)
         | 'k' -> OpAppendKeyOnly (parse_list a)
         | 'x' -> OpExtendPairs (if a = "" then [] else List.map pair (String.split_on_char ';' a))
         | 'c' -> OpClear
         | _ -> failwith "bad qpm op" in
       r1 (query_pairs_session d u (List.map op (List.tl args)))
     | "q_set_protocol" -> r2 (q_set_protocol d u (l 0))
     | "q_set_username" -> r2 (q_set_username d u (l 0))
     | "q_set_password" -> r2 (q_set_password d u (l 0))
     | "q_set_host" -> r2 (q_set_host d hp ho hd u (l 0))
     | "q_set_hostname" -> r2 (q_set_hostname d hp ho hd u (l 0))
     | "q_set_port" -> r2 (q_set_port d u (l 0))
     | "q_set_pathname" -> r1 (q_set_pathname d u (l 0))
     | "q_set_search" -> r1 (q_set_search d u (l 0))
     | "q_set_hash" -> r1 (q_set_hash d u (l 0))
     | _ -> failwith "unknown op")
  | ["known01"; base; input] -> show_n (known_c01 (parse_opt parse_url_tok base) (parse_list input))
  | ["wf"; u] -> show_bool (wf_b (parse_url_tok u))
  | ["pos"; dbg; u] ->
    let d = dbg_of dbg and u = parse_url_tok u in
    String.concat " " (List.map (fun p -> so show_n (position_index d u p)) all_positions)
  | ["ranges"; dbg; u] ->
    let d = dbg_of dbg and u = parse_url_tok u in
    String.concat " " (List.concat_map (fun a ->
        so show_list (index_from d u a) :: so show_list (index_to d u a)
        :: List.map (fun b -> so show_list (index_range d u a b)) all_positions) all_positions)
  | ["qpairs"; dbg; u] ->
    (match query_pairs (dbg_of dbg) (parse_url_tok u) with
     | None -> "panic"
     | Some None -> "fuel"
     | Some (Some l) -> if l = [] then "-" else String.concat "&" (List.map (fun (k, v) -> show_list k ^ "=" ^ show_list v) l))
  | ["qget"; dbg; u] ->
    let d = dbg_of dbg and u = parse_url_tok u in
    String.concat " " [ show_list (q_href u); so show_list (q_protocol u); so show_list (q_username d u);
                        so show_list (q_password d u); so show_list (q_host d u); so show_list (q_hostname u);
                        so show_list (q_port d u); so show_list (q_pathname u); so show_list (q_search d u);
                        so show_list (q_hash d u) ]
  | _ -> failwith "unknown request"

let () = main_loop handle
