(* drv_c16.ml - line protocol for the origin model (Model/Origin.v)
   orig <dbg> <url>+        -> one item per URL, then "|", then the equality matrix (row-major, i <= j)
                               item = T:<scheme>:<host>:<port>:<ascii>:<unicode>:1
                                    | O<rank>:<ascii>:<unicode>:0 | panic | FUEL
                               (rank = order of first appearance of the opaque identity in this request;
                                the counter starts at 0)
   oval <scheme> <host> <port>                 -> <ascii> <unicode> <is_tuple>     (an Origin::Tuple value)
   oeq <s1> <h1> <p1> <s2> <h2> <p2>           -> 0|1                              (derived PartialEq)
   conc <c0> <schedule>                        -> <ids in the order handed out> <final counter>
   op                                          -> FetchAdd | LoadThenStore
   url token = ser,se,ue,hs,he,hi,port,ps,qs,fs ; host token = d<list> | 4<hex> | 6<list>
   Oracles: hp / ho / hd (Host::parse, Host::parse_opaque, Display for Host), tu (idna::domain_to_unicode). *)

let show_host = function
  | HDomain d -> "d" ^ show_list d
  | HIpv4 a -> "4" ^ show_n a
  | HIpv6 p -> "6" ^ show_list p
let parse_host_tok s =
  let arg = String.sub s 1 (String.length s - 1) in
  match s.[0] with
  | 'd' -> HDomain (parse_list arg)
  | '4' -> HIpv4 (parse_n arg)
  | '6' -> HIpv6 (parse_list arg)
  | _ -> failwith "bad host token"
let parse_hi s =
  match s.[0] with
  | 'n' -> HI_None | 'd' -> HI_Domain
  | '4' -> HI_Ipv4 (parse_n (String.sub s 1 (String.length s - 1)))
  | '6' -> HI_Ipv6 (parse_list (String.sub s 1 (String.length s - 1)))
  | _ -> failwith "bad host_internal token"
let parse_url_tok s =
  match String.split_on_char ',' s with
  | [ser; se; ue; hs; he; hi; port; ps; qs; fs] ->
    { ser = parse_list ser; scheme_end = parse_n se; username_end = parse_n ue; host_start = parse_n hs;
      host_end = parse_n he; hosti = parse_hi hi; port = parse_opt parse_n port; path_start = parse_n ps;
      query_start = parse_opt parse_n qs; fragment_start = parse_opt parse_n fs }
  | _ -> failwith "bad url token"

let parse_host_answer a =
  if a.[0] = 'e' then Err (match int_of_string (String.sub a 1 (String.length a - 1)) with
      | 0 -> EmptyHost | 1 -> IdnaError | 2 -> InvalidPort | 3 -> InvalidIpv4Address | 4 -> InvalidIpv6Address
      | 5 -> InvalidDomainCharacter | _ -> failwith "bad error code")
  else Ok (parse_host_tok a)
let o_host_parse l = parse_host_answer (ask_oracle "hp" (show_list l))
let o_host_parse_opaque l = parse_host_answer (ask_oracle "ho" (show_list l))
let o_host_display h = parse_list (ask_oracle "hd" (show_host h))
let o_to_unicode d = parse_list (ask_oracle "tu" (show_list d))

let show_origin_item ranks o =
  let a = show_list (ascii_serialization o_host_display o)
  and u = show_list (unicode_serialization o_host_display o_to_unicode o)
  and t = show_bool (is_tuple o) in
  match o with
  | Tuple (s, h, p) -> String.concat ":" ["T"; show_list s; show_host h; show_n p; a; u; t]
  | Opaque id ->
    let k = int_of_n id in
    let r = match List.assoc_opt k !ranks with
      | Some r -> r
      | None -> let r = List.length !ranks in ranks := (k, r) :: !ranks; r in
    String.concat ":" ["O" ^ string_of_int r; a; u; t]

let handle = function
  | "orig" :: dbg :: us ->
    let us = List.map parse_url_tok us in
    let rs = origins_of (dbg = "1") o_host_parse o_host_parse_opaque o_host_display N0 us in
    let ranks = ref [] in
    let items = List.map (function
        | OOk (o, _) -> show_origin_item ranks o
        | OPanic -> "panic"
        | OFuel -> "FUEL") rs in
    let arr = Array.of_list rs in
    let n = Array.length arr in
    let b = Buffer.create 16 in
    for i = 0 to n - 1 do
      for j = i to n - 1 do
        Buffer.add_char b (match arr.(i), arr.(j) with
            | OOk (x, _), OOk (y, _) -> if origin_eqb x y then '1' else '0'
            | _ -> 'x')
      done
    done;
    String.concat " " items ^ " | " ^ Buffer.contents b
  | ["oval"; s; h; p] ->
    let o = Tuple (parse_list s, parse_host_tok h, parse_n p) in
    String.concat " " [ show_list (ascii_serialization o_host_display o);
                        show_list (unicode_serialization o_host_display o_to_unicode o);
                        show_bool (is_tuple o) ]
  | ["oeq"; s1; h1; p1; s2; h2; p2] ->
    show_bool (origin_eqb (Tuple (parse_list s1, parse_host_tok h1, parse_n p1))
                 (Tuple (parse_list s2, parse_host_tok h2, parse_n p2)))
  | ["conc"; c0; sched] ->
    let (cfg, ids) = run the_counter_op (parse_list sched) { counter = parse_n c0; pending = [] } in
    show_list (List.map snd ids) ^ " " ^ show_n cfg.counter
  | ["op"] -> (match the_counter_op with FetchAdd -> "FetchAdd" | LoadThenStore -> "LoadThenStore")
  | _ -> failwith "unknown request"

let () = main_loop handle
