(* drv_spec.ml - line protocol for the specification model Spec/Whatwg.v
   requests:
     parse <base|~> <input>                      -> fail | basefail | fuel | ok <10 api strings>
     set <href> <setter> <value>                 -> hreffail | fuel | ok <10 api strings>
     setseq <href> <setter>=<value>,...          -> the same after the whole history
   strings are dot-separated hex code point lists ("-" = empty).
   The host parser and host serializer of the Standard are answered by the harness:
     Q shp <0|1 isOpaque>,<list>  ->  A f | e | d<list> | o<list> | 4<hex> | 6<list>
     Q shs <host token>           ->  A <list> *)

let show_shost = function
  | SDomain d -> "d" ^ show_list d
  | SOpaque s -> "o" ^ show_list s
  | SIpv4 a -> "4" ^ show_n a
  | SIpv6 p -> "6" ^ show_list p
  | SEmpty -> "e"

(* the host parser / serializer of the Standard are Spec/WhatwgHostParse.v (assembled from the
   independent Spec/WhatwgHost.v); only "domain to ASCII" is answered by the harness (oracle "idna":
   percent-decoded bytes -> ASCII domain or ~).  SPEC_DRIVER_HOST_ORACLE=1 falls back to asking the
   real crate for whole hosts (shp/shs). *)
let host_via_oracle = (try Sys.getenv "SPEC_DRIVER_HOST_ORACLE" = "1" with Not_found -> false)
let idna_cache : (string, n list option) Hashtbl.t = Hashtbl.create 64
let o_idna bytes =
  let key = show_list bytes in
  match Hashtbl.find_opt idna_cache key with
  | Some r -> r
  | None ->
    let r = parse_opt parse_list (ask_oracle "idna" key) in
    if Hashtbl.length idna_cache > 100000 then Hashtbl.reset idna_cache;
    Hashtbl.replace idna_cache key r; r

let host_cache : (string, spec_host option) Hashtbl.t = Hashtbl.create 64
let o_host_parse is_opaque l =
  if not host_via_oracle then spec_host_parser o_idna is_opaque l else
  let key = show_bool is_opaque ^ "," ^ show_list l in
  match Hashtbl.find_opt host_cache key with
  | Some r -> r
  | None ->
    let a = ask_oracle "shp" key in
    let arg = String.sub a 1 (String.length a - 1) in
    let r = match a.[0] with
      | 'f' -> None
      | 'e' -> Some SEmpty
      | 'd' -> Some (SDomain (parse_list arg))
      | 'o' -> Some (SOpaque (parse_list arg))
      | '4' -> Some (SIpv4 (parse_n arg))
      | '6' -> Some (SIpv6 (parse_list arg))
      | _ -> failwith "bad shp answer" in
    if Hashtbl.length host_cache > 100000 then Hashtbl.reset host_cache;
    Hashtbl.replace host_cache key r; r

let o_host_serialize h =
  if not host_via_oracle then spec_host_serializer h else
  match h with
  | SDomain d -> d
  | SOpaque s -> s
  | SEmpty -> []
  | _ -> parse_list (ask_oracle "shs" (show_shost h))

let show_api u = "ok " ^ String.concat " " (List.map show_list (spec_api_list o_host_serialize u))

let setter_of = function
  | "href" -> SetHref | "protocol" -> SetProtocol | "username" -> SetUsername | "password" -> SetPassword
  | "host" -> SetHost | "hostname" -> SetHostname | "port" -> SetPort | "pathname" -> SetPathname
  | "search" -> SetSearch | "hash" -> SetHash
  | _ -> failwith "bad setter"

let handle = function
  | ["parse"; base; input] ->
    (match parse_opt parse_list base with
     | None ->
       (match spec_url_parse o_host_parse (parse_list input) None with
        | UOk u -> show_api u | UFailure -> "fail" | UOutOfFuel -> "fuel")
     | Some b ->
       (match spec_basic_url_parse o_host_parse b None with
        | BFailure _ -> "basefail"
        | BOutOfFuel -> "fuel"
        | BDone bu ->
          (match spec_basic_url_parse o_host_parse (parse_list input) (Some bu) with
           | BDone u -> show_api u | BFailure _ -> "fail" | BOutOfFuel -> "fuel")))
  | ["set"; href; name; value] ->
    (match spec_basic_url_parse o_host_parse (parse_list href) None with
     | BFailure _ -> "hreffail"
     | BOutOfFuel -> "fuel"
     | BDone u ->
       (match spec_set o_host_parse (setter_of name) u (parse_list value) with
        | SetTo u' -> show_api u'
        | SetOutOfFuel -> "fuel"))
  | ["setseq"; href; ops] ->
    (match spec_basic_url_parse o_host_parse (parse_list href) None with
     | BFailure _ -> "hreffail"
     | BOutOfFuel -> "fuel"
     | BDone u ->
       let ops = List.map (fun o -> match String.split_on_char '=' o with
           | [n; v] -> (setter_of n, parse_list v)
           | _ -> failwith "bad op") (String.split_on_char ',' ops) in
       (match spec_set_seq o_host_parse u ops with
        | SetTo u' -> show_api u'
        | SetOutOfFuel -> "fuel"))
  | _ -> failwith "unknown request"

let () = main_loop handle
