(* drv_c07.ml - line protocol for the C07 check: the URL model's parser and quirks setters (the requests
   `parse`, `op ... q_set_*`, `qget` of drv_url.ml, same formats) and the request
     known07 <url record> <setter> <value>   ->  class of Known_C07 (0 = not known), hex *)

(* ---- host values: n | d<list> | 4<hex> | 6<list> ; host_internal: n | d | 4<hex> | 6<list> ---- *)
let show_host = function
  | HDomain d -> "d" ^ show_list d
  | HIpv4 a -> "4" ^ show_n a
  | HIpv6 p -> "6" ^ show_list p
let parse_host_tok s =
  let arg = String.sub s 1 (String.length s - 1) in
  match s.[0] with
  | 'd' -> HDomain (parse_list arg)
  | '4' -> HIpv4 (parse_n arg)
  | '6' -> HIpv6 (parse_list arg)
  | _ -> failwith "bad host token"
let show_hi = function
  | HI_None -> "n" | HI_Domain -> "d" | HI_Ipv4 a -> "4" ^ show_n a | HI_Ipv6 p -> "6" ^ show_list p
let parse_hi s =
  match s.[0] with
  | 'n' -> HI_None | 'd' -> HI_Domain
  | '4' -> HI_Ipv4 (parse_n (String.sub s 1 (String.length s - 1)))
  | '6' -> HI_Ipv6 (parse_list (String.sub s 1 (String.length s - 1)))
  | _ -> failwith "bad host_internal token"

(* ---- url record: ser,se,ue,hs,he,hi,port,ps,qs,fs ---- *)
let show_url u =
  String.concat "," [ show_list u.ser; show_n u.scheme_end; show_n u.username_end; show_n u.host_start;
                      show_n u.host_end; show_hi u.hosti; show_opt show_n u.port; show_n u.path_start;
                      show_opt show_n u.query_start; show_opt show_n u.fragment_start ]
let parse_url_tok s =
  match String.split_on_char ',' s with
  | [ser; se; ue; hs; he; hi; port; ps; qs; fs] ->
    { ser = parse_list ser; scheme_end = parse_n se; username_end = parse_n ue; host_start = parse_n hs;
      host_end = parse_n he; hosti = parse_hi hi; port = parse_opt parse_n port; path_start = parse_n ps;
      query_start = parse_opt parse_n qs; fragment_start = parse_opt parse_n fs }
  | _ -> failwith "bad url token"

(* ---- host functions answered by the harness from the real crate (until Model/Host.v is linked) ---- *)
let parse_host_answer a =
  if a.[0] = 'e' then Err (match int_of_string (String.sub a 1 (String.length a - 1)) with
      | 0 -> EmptyHost | 1 -> IdnaError | 2 -> InvalidPort | 3 -> InvalidIpv4Address | 4 -> InvalidIpv6Address
      | 5 -> InvalidDomainCharacter | _ -> failwith "bad error code")
  else Ok (parse_host_tok a)
let o_host_parse l = parse_host_answer (ask_oracle "hp" (show_list l))
let o_host_parse_opaque l = parse_host_answer (ask_oracle "ho" (show_list l))
let o_host_display h = parse_list (ask_oracle "hd" (show_host h))

let ovr_of = function
  | "0" -> None
  | "1" -> Some utf8_encode
  | "2" -> Some (List.map (fun c -> if int_of_n c < 256 then c else n_of_int 63))
  | _ -> failwith "bad override"

let show_pres f = function
  | POk a -> "ok " ^ f a
  | PErr e -> "err " ^ show_n (parse_error_code e)
  | PPanic -> "panic"

let dbg_of s = s = "1"
let so f = function None -> "panic" | Some x -> f x
let soo f = function None -> "panic" | Some None -> "~" | Some (Some x) -> f x

let qsetter_of = function
  | "href" -> QHref | "protocol" -> QProtocol | "username" -> QUsername | "password" -> QPassword
  | "host" -> QHost | "hostname" -> QHostname | "port" -> QPort | "pathname" -> QPathname
  | "search" -> QSearch | "hash" -> QHash
  | _ -> failwith "bad setter"

let handle = function
  | ["parse"; dbg; ovr; base; input] ->
    let b = parse_opt parse_url_tok base in
    show_pres show_url (parse_url (dbg_of dbg) o_host_parse o_host_parse_opaque o_host_display (ovr_of ovr) b (parse_list input))
  | "op" :: dbg :: u :: name :: args ->
    let d = dbg_of dbg and u = parse_url_tok u in
    let hp = o_host_parse and ho = o_host_parse_opaque and hd = o_host_display in
    let st = function SOk -> "ok" | SErrUnit -> "errunit" | SErr e -> "err" ^ show_n (parse_error_code e) in
    let r1 = function None -> "panic" | Some u' -> show_url u' ^ " ok" in
    let r2 = function None -> "panic" | Some (u', s) -> show_url u' ^ " " ^ st s in
    let l i = parse_list (List.nth args i) in
    (match name with
     | "q_set_protocol" -> r2 (q_set_protocol d u (l 0))
     | "q_set_username" -> r2 (q_set_username d u (l 0))
     | "q_set_password" -> r2 (q_set_password d u (l 0))
     | "q_set_host" -> r2 (q_set_host d hp ho hd u (l 0))
     | "q_set_hostname" -> r2 (q_set_hostname d hp ho hd u (l 0))
     | "q_set_port" -> r2 (q_set_port d u (l 0))
     | "q_set_pathname" -> r1 (q_set_pathname d u (l 0))
     | "q_set_search" -> r1 (q_set_search d u (l 0))
     | "q_set_hash" -> r1 (q_set_hash d u (l 0))
     | _ -> failwith "unknown op")
  | ["known07"; u; name; value] -> show_n (known_c07 (parse_url_tok u) (qsetter_of name) (parse_list value))
  | ["qget"; dbg; u] ->
    let d = dbg_of dbg and u = parse_url_tok u in
    String.concat " " [ show_list (q_href u); so show_list (q_protocol u); so show_list (q_username d u);
                        so show_list (q_password d u); so show_list (q_host d u); so show_list (q_hostname u);
                        so show_list (q_port d u); so show_list (q_pathname u); so show_list (q_search d u);
                        so show_list (q_hash d u) ]
  | _ -> failwith "unknown request"

let () = main_loop handle
