(* proto.ml - helpers shared by every driver; concatenated after the extracted model, so the
   constructors XI/XO/XH, N0/Npos, O/S refer to that model's own extracted types. *)
let rec pos_of_int i =
  if i = 1 then XH else if i land 1 = 0 then XO (pos_of_int (i lsr 1)) else XI (pos_of_int (i lsr 1))
let n_of_int i = if i = 0 then N0 else Npos (pos_of_int i)
let rec int_of_pos = function XH -> 1 | XO p -> 2 * int_of_pos p | XI p -> 2 * int_of_pos p + 1
let int_of_n = function N0 -> 0 | Npos p -> int_of_pos p

(* list of N <-> dot-separated lower-case hex, "-" for the empty list *)
let parse_list s =
  if s = "-" then [] else List.map (fun h -> n_of_int (int_of_string ("0x" ^ h))) (String.split_on_char '.' s)
let show_list l =
  if l = [] then "-"
  else begin
    let b = Buffer.create 64 in
    List.iteri (fun i x -> if i > 0 then Buffer.add_char b '.'; Buffer.add_string b (Printf.sprintf "%x" (int_of_n x))) l;
    Buffer.contents b
  end
let show_n x = Printf.sprintf "%x" (int_of_n x)
let parse_n s = n_of_int (int_of_string ("0x" ^ s))
let show_bool b = if b then "1" else "0"
let show_opt f = function None -> "~" | Some x -> f x
let parse_opt f s = if s = "~" then None else Some (f s)

let words line = List.filter (fun w -> w <> "") (String.split_on_char ' ' line)

(* oracle query: print "Q <name> <arg>", read "A <value>" *)
let ask_oracle name arg =
  print_string ("Q " ^ name ^ " " ^ arg ^ "\n"); flush stdout;
  let l = input_line stdin in
  match words l with
  | ["A"; v] -> v
  | _ -> failwith ("bad oracle answer: " ^ l)

let reply s = print_string ("R " ^ s ^ "\n"); flush stdout

let main_loop (handle : string list -> string) =
  try
    while true do
      let line = input_line stdin in
      let r = try handle (words line) with
        | Stack_overflow -> "!stack_overflow"
        | Failure m -> "!failure:" ^ (String.map (fun c -> if c = ' ' then '_' else c) m)
        | Not_found -> "!not_found"
        | Invalid_argument m -> "!invalid:" ^ (String.map (fun c -> if c = ' ' then '_' else c) m) in
      reply r
    done
  with End_of_file -> ()
