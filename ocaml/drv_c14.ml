(* drv_c14.ml - line protocol for the percent-encoding model *)
let show_kind = function BorrowedInput -> "BI" | BorrowedStatic -> "BS" | Owned -> "OW"
let show_hint (lo, hi) = show_n lo ^ " " ^ show_opt show_n hi
let show_strict = function
  | Inl cps -> "ok:" ^ show_list cps
  | Inr (upto, elen) -> "err:" ^ show_n upto ^ ":" ^ show_opt show_n elen

(* apply set-building operations; None = panic *)
let rec run_ops s = function
  | [] -> Some s
  | op :: rest ->
    let tag = op.[0] and arg = String.sub op 1 (String.length op - 1) in
    (match tag with
     | 'a' -> (match aset_add_o s (parse_n arg) with Some s' -> run_ops s' rest | None -> None)
     | 'r' -> (match aset_remove_o s (parse_n arg) with Some s' -> run_ops s' rest | None -> None)
     | 'u' -> run_ops (aset_union s (aset_of_list (parse_list arg))) rest
     | 'c' -> run_ops (aset_complement s) rest
     | _ -> failwith "bad set op")

let membership s =
  String.init 128 (fun i -> match aset_contains_o s (n_of_int i) with Some true -> '1' | Some false -> '0' | None -> 'P')

let handle = function
  | ["enc"; set; bs] ->
    let s = aset_of_list (parse_list set) and b = parse_list bs in
    let chunks = pe_chunks s b in
    let (k, v) = pe_cow s b in
    String.concat " " [ (if chunks = [] then "-" else String.concat "|" (List.map show_list chunks));
                        show_list (pe_display s b); show_hint (pe_size_hint b); show_kind k; show_list v;
                        show_list (encode s b) ]
  | ["next"; set; bs] ->
    let s = aset_of_list (parse_list set) and b = parse_list bs in
    (match pe_next s b with None -> "~" | Some (c, rest) -> show_list c ^ " " ^ show_list rest)
  | ["dec"; bs] ->
    let b = parse_list bs in
    let d = decode b in
    let (k, v) = pd_cow b in
    String.concat " " [ show_list d; show_hint (pd_size_hint b); show_kind k; show_list v;
                        show_strict (utf8_strict d); show_list (utf8_lossy d) ]
  | "set" :: ops ->
    (match run_ops (aset_of_list []) ops with None -> "P" | Some s -> membership s)
  | ["encbyte"; b] -> show_list (enc_byte (parse_n b))
  | ["named"] -> String.concat " " (List.map membership t_all_sets)
  | ["utf8"; bs] -> let b = parse_list bs in show_strict (utf8_strict b) ^ " " ^ show_list (utf8_lossy b)
  | _ -> failwith "unknown request"

let () = main_loop handle
