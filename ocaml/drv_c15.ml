(* drv_c15.ml - line protocol for the form_urlencoded model.
   Requests (fields are dot-separated hex lists, "-" = empty):
     parse <bytes>                       pairs with Cow kinds, then the into_owned pairs
     byteser <bytes>                     chunks | concatenation | size_hint | per-byte map
     bsnext <bytes>                      one ByteSerialize::next step
     unch                                membership of byte_serialized_unchanged for 0..255
     serpairs <n>:<v> ...                Serializer::new(String::new()).extend_pairs(..).finish()
     ser <tk> <init> <start> <op> ...    history on a target (tk 0 String, 1 &mut String, 2 custom)
        op = ap:<n>:<v> | ak:<n> | ep[:<n>:<v>]* | ek[:<k>]* | cl | eo:<id> | fi
   Several requests may be sent on one line separated by the word ";;"; the answers are joined the
   same way. *)
let show_kind = function BorrowedInput -> "B" | BorrowedStatic -> "S" | Owned -> "O"
let show_cow (k, v) = show_kind k ^ ":" ^ show_list v
let show_pairs_cow = function
  | None -> "FUEL"
  | Some [] -> "none"
  | Some l -> String.concat "|" (List.map (fun (n, v) -> show_cow n ^ "=" ^ show_cow v) l)
let show_pairs = function
  | None -> "FUEL"
  | Some [] -> "none"
  | Some l -> String.concat "|" (List.map (fun (n, v) -> show_list n ^ "=" ^ show_list v) l)
let show_hint (lo, hi) = show_n lo ^ " " ^ show_opt show_n hi

let site_name s =
  if s = t_FORM_SITE_FOR_SUFFIX then "forsuffix"
  else if s = t_FORM_SITE_STRING then "finished"
  else if s = t_FORM_SITE_FINISH then "doublefinish"
  else if s = t_FORM_SITE_CLEAR_TRUNCATE then "truncate"
  else "site" ^ show_n s

(* the encoding overrides the harness also implements *)
let ov_latin s = List.map (fun c -> n_of_int (int_of_n c mod 256)) s
let ov_const _ = List.map n_of_int [32; 38; 255; 61; 43; 37; 97]
let override_of = function
  | "0" -> None
  | "1" -> Some ov_latin
  | "2" -> Some ov_const
  | _ -> failwith "bad override id"

let rec pairs_of = function
  | [] -> []
  | n :: v :: r -> (parse_list n, parse_list v) :: pairs_of r
  | _ -> failwith "odd pair list"

let parse_op tok =
  match String.split_on_char ':' tok with
  | ["ap"; n; v] -> OpAppendPair (parse_list n, parse_list v)
  | ["ak"; n] -> OpAppendKeyOnly (parse_list n)
  | "ep" :: r -> OpExtendPairs (pairs_of r)
  | "ek" :: r -> OpExtendKeysOnly (List.map parse_list r)
  | ["cl"] -> OpClear
  | ["eo"; id] -> OpEncodingOverride (override_of id)
  | _ -> failwith "bad op"

let run_hist get set fin target start ops =
  let buf = Buffer.create 64 in
  let add s = (if Buffer.length buf > 0 then Buffer.add_char buf ' '); Buffer.add_string buf s in
  (match ser_for_suffix get target start with
   | Panic x -> add ("PANIC:" ^ site_name x)
   | OutOfFuel -> add "FUEL"
   | Ok s0 ->
     add "ok";
     let rec go s = function
       | [] -> ()
       | "fi" :: rest ->
         (match ser_finish fin s with
          | Ok (f, s') -> add ("f:" ^ show_list f); go s' rest
          | Panic x -> add ("PANIC:" ^ site_name x)
          | OutOfFuel -> add "FUEL")
       | op :: rest ->
         (match ser_step get set s (parse_op op) with
          | Ok s' ->
            add ("s:" ^ (match s'.ser_target with Some t -> show_list (fin t) | None -> "~"));
            go s' rest
          | Panic x -> add ("PANIC:" ^ site_name x)
          | OutOfFuel -> add "FUEL")
     in
     go s0 ops);
  Buffer.contents buf

let custom_tail = List.map n_of_int [102; 114; 38; 61]      (* "fr&=" *)

let handle1 = function
  | ["parse"; bs] ->
    let b = parse_list bs in
    show_pairs_cow (parse_cow b) ^ " " ^ show_pairs (parse b)
  | ["byteser"; bs] ->
    let b = parse_list bs in
    (match bser_chunks b with
     | Ok chunks ->
       String.concat " " [ (if chunks = [] then "-" else String.concat "|" (List.map show_list chunks));
                           show_list (extend_chunks [] chunks); show_hint (bser_size_hint b);
                           show_list (bser b) ]
     | Panic x -> "PANIC:" ^ site_name x
     | OutOfFuel -> "FUEL")
  | ["bsnext"; bs] ->
    (match bser_next (parse_list bs) with None -> "~" | Some (c, rest) -> show_list c ^ " " ^ show_list rest)
  | ["unch"] ->
    String.init 256 (fun i -> if byte_serialized_unchanged (n_of_int i) then '1' else '0')
  | "serpairs" :: ps ->
    let pairs = List.map (fun p -> match String.split_on_char ':' p with
        | [n; v] -> (parse_list n, parse_list v) | _ -> failwith "bad pair") ps in
    (match serialize_pairs pairs with
     | Ok s -> "f:" ^ show_list s ^ " " ^ show_pairs (parse s)
     | Panic x -> "PANIC:" ^ site_name x
     | OutOfFuel -> "FUEL")
  | "ser" :: tk :: init :: start :: ops ->
    let init = parse_list init and start = parse_n start in
    (match tk with
     | "0" | "1" -> run_hist str_get str_set str_fin init start ops
     | "2" -> run_hist ct_get ct_set ct_fin (init, custom_tail) start ops
     | _ -> failwith "bad target kind")
  | _ -> failwith "unknown request"

let rec split_batches acc cur = function
  | [] -> List.rev (List.rev cur :: acc)
  | ";;" :: r -> split_batches (List.rev cur :: acc) [] r
  | w :: r -> split_batches acc (w :: cur) r

let handle ws =
  String.concat " ;; " (List.map (fun r ->
      try handle1 r with
      | Failure m -> "!failure:" ^ (String.map (fun c -> if c = ' ' then '_' else c) m)
      | Stack_overflow -> "!stack_overflow") (split_batches [] [] ws))

let () = main_loop handle
