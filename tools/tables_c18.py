"""Table reader for C18 (forgiving base64): data-url/src/forgiving_base64.rs and the byte class of
decode_without_base64 in data-url/src/lib.rs.

Emits (appended to coq/Gen/Tables.v):
  T_B64_TABLE    : list Z  - BASE64_DECODE_TABLE, 256 entries
  T_B64_WS       : list N  - the bytes of `matches!(byte, b' ' | ...)` in Decoder::feed (skipped)
  T_B64_PAD      : N       - the byte compared in `if byte == b'='`
  T_BODY_SPECIAL : list N  - the bytes of `matches!(byte, b'%' | ...)` in decode_without_base64

Fails closed (TranslateError) on any other shape.
"""
from rustlex import TranslateError, tokenize, parse_int, parse_bchar, find_seq, match_close, until_semicolon, fn_body
from tablib import read, split_commas, coq_list, coq_list_wrapped

SRC = "data-url/src/forgiving_base64.rs"
LIB = "data-url/src/lib.rs"


def read_decode_table(toks):
    i = find_seq(toks, ["const", "BASE64_DECODE_TABLE", ":"])
    if i < 0:
        raise TranslateError("BASE64_DECODE_TABLE not found")
    item, _ = until_semicolon(toks, i)
    texts = [t.text for t in item]
    # const BASE64_DECODE_TABLE : [ i8 ; 256 ] = [ ... ]
    if texts[3:6] != ["[", "i8", ";"] or texts[7:9] != ["]", "="] or texts[9] != "[" or texts[-1] != "]":
        raise TranslateError("BASE64_DECODE_TABLE: unrecognised declaration shape")
    declared = parse_int(texts[6])
    vals = []
    for entry in split_commas(item[10:-1]):
        if len(entry) == 1 and entry[0].kind == "num":
            v = parse_int(entry[0].text)
        elif len(entry) == 2 and entry[0].text == "-" and entry[1].kind == "num":
            v = -parse_int(entry[1].text)
        else:
            raise TranslateError("BASE64_DECODE_TABLE: unrecognised entry at line %d" % entry[0].line)
        if not -128 <= v <= 127:
            raise TranslateError("BASE64_DECODE_TABLE: entry %d does not fit i8" % v)
        vals.append(v)
    if declared != 256 or len(vals) != declared:
        raise TranslateError("BASE64_DECODE_TABLE: declared %d entries, literal has %d, expected 256" % (declared, len(vals)))
    return vals


def read_matches_bytes(body, scrutinee, what):
    """the unique `matches!(<scrutinee>, b'x' | b'y' | ...)` in a token list -> list of byte values"""
    found = []
    i = 0
    while True:
        i = find_seq(body, ["matches!", "(", scrutinee, ","], i)
        if i < 0:
            break
        j = match_close(body, i + 1)
        found.append(body[i + 4:j])
        i = j
    if len(found) != 1:
        raise TranslateError("%s: expected exactly one matches!(%s, ...), found %d" % (what, scrutinee, len(found)))
    alts = found[0]
    out = []
    for k, t in enumerate(alts):
        if k % 2 == 0:
            if t.kind != "bchar" or not t.text.startswith("b"):
                raise TranslateError("%s: non-literal alternative %r at line %d" % (what, t.text, t.line))
            out.append(parse_bchar(t.text))
        elif t.text != "|":
            raise TranslateError("%s: unexpected %r at line %d" % (what, t.text, t.line))
    if len(alts) % 2 == 0 or not out:
        raise TranslateError("%s: malformed alternative list" % what)
    return out


def read_pad_byte(body):
    hits = []
    i = 0
    while True:
        i = find_seq(body, ["byte", "=="], i)
        if i < 0:
            break
        hits.append(body[i + 2])
        i += 2
    if len(hits) != 1 or hits[0].kind != "bchar":
        raise TranslateError("Decoder::feed: expected exactly one `byte == b'..'` comparison")
    return parse_bchar(hits[0].text)


def extend(repo, V, J):
    toks = tokenize(read(repo, SRC))
    table = read_decode_table(toks)
    feed, _, _ = fn_body(toks, "feed")
    ws = read_matches_bytes(feed, "byte", "Decoder::feed")
    pad = read_pad_byte(feed)
    lib = tokenize(read(repo, LIB))
    dwo, _, _ = fn_body(lib, "decode_without_base64")
    special = read_matches_bytes(dwo, "byte", "decode_without_base64")

    V.append("(* ---- forgiving base64 (data-url/src/forgiving_base64.rs, data-url/src/lib.rs) ---- *)")
    V.append("Definition T_B64_TABLE : list Z := (%s)%%Z." % coq_list_wrapped(["(%d)" % v if v < 0 else str(v) for v in table], 16))
    V.append("Definition T_B64_WS : list N := %s." % coq_list(ws))
    V.append("Definition T_B64_PAD : N := %d." % pad)
    V.append("Definition T_BODY_SPECIAL : list N := %s." % coq_list(special))
    V.append("")
    J["b64_table"] = table
    J["b64_ws"] = ws
    J["b64_pad"] = pad
    J["body_special"] = special
