#!/usr/bin/env python3
"""tools/specval.py [corr|diff] [--tier quick|thorough] [--seed N]
Builds Spec/Whatwg.v, its extraction, the spec driver and the specval harness bin, then runs the
validation of the specification model (corr: all WPT vectors, no exception list; diff: rust-url vs
the Standard, divergences expected).  Not a registered check; exit 0 iff corr has 0 mismatches."""
import json, os, sys
sys.path.insert(0, os.path.dirname(os.path.abspath(__file__)))
import orchestrate as o

CFG = {"coq_targets": ["Spec/Whatwg.vo", "Spec/WhatwgFacts.vo", "Extract/ExSpec.vo"],
       "driver": {"model": "spec_model.ml", "src": "drv_spec.ml", "exe": "spec_driver"},
       "bin": "specval", "profiles": ["dev"]}


def main():
    a = sys.argv[1:]
    mode = a[0] if a and not a[0].startswith("--") else "corr"
    tier = a[a.index("--tier") + 1] if "--tier" in a else "quick"
    seed = int(a[a.index("--seed") + 1]) if "--seed" in a else 1
    with o.Lock():
        info = o.step_coq(CFG["coq_targets"], 1800)
        if not info["ok"]:
            print("coq build failed:", info.get("file"), info.get("line"), info.get("message"))
            return 2
        ok, msg = o.step_driver(CFG)
        if not ok:
            print("driver build failed:", msg)
            return 2
        res = o.step_cargo(CFG, ["dev"])
        if not res["dev"][0]:
            print("cargo build failed:", res["dev"][1])
            return 2
    rep, err = o.run_harness(CFG, "dev", mode, tier, seed, None, 7200)
    if rep is None:
        print(err)
        return 2
    print("mode %s: evaluations %d, mismatches %d" % (mode, rep["evaluations"], rep["mismatch_count"]))
    for n in rep["notes"]:
        print("  " + n)
    if mode == "corr":
        for m in rep["mismatches"]:
            print("MISMATCH %s\n   spec     %s\n   expected %s" % (m["request"], m["model"], m["impl"]))
        return 0 if rep["mismatch_count"] == 0 else 1
    return 0


if __name__ == "__main__":
    sys.exit(main())
