"""A small Rust tokenizer and item finder used by gen_tables.py.

Fails closed: anything it cannot tokenize raises TranslateError.
"""
import re


class TranslateError(Exception):
    pass


TOKEN_RE = re.compile(r"""
    (?P<ws>\s+)
  | (?P<lcomment>//[^\n]*)
  | (?P<bstr>b"(?:[^"\\]|\\.|\\\n)*")
  | (?P<str>"(?:[^"\\]|\\.|\\\n)*")
  | (?P<bchar>b'(?:[^'\\]|\\x[0-9a-fA-F]{2}|\\.)')
  | (?P<char>'(?:[^'\\]|\\x[0-9a-fA-F]{2}|\\u\{[0-9a-fA-F_]+\}|\\.)')
  | (?P<lifetime>'[A-Za-z_][A-Za-z0-9_]*)
  | (?P<num>0x[0-9a-fA-F_]+(?:[iu](?:8|16|32|64|128|size))?|0b[01_]+(?:[iu](?:8|16|32|64|128|size))?|0o[0-7_]+(?:[iu](?:8|16|32|64|128|size))?|[0-9][0-9_]*(?:[iu](?:8|16|32|64|128|size))?)
  | (?P<ident>[A-Za-z_][A-Za-z0-9_]*!?)
  | (?P<punct>\.\.=|\.\.\.|\.\.|::|->|=>|==|!=|<=|>=|&&|\|\||<<=|>>=|<<|>>|\+=|-=|\*=|/=|%=|\^=|&=|\|=|[-+*/%^!&|=<>@.,;:#$?~(){}\[\]])
""", re.X)


class Tok:
    __slots__ = ("kind", "text", "line")

    def __init__(self, kind, text, line):
        self.kind, self.text, self.line = kind, text, line

    def __repr__(self):
        return "%s:%r@%d" % (self.kind, self.text, self.line)


def strip_block_comments(src):
    out = []
    i = 0
    depth = 0
    n = len(src)
    in_str = False
    while i < n:
        if depth == 0 and not in_str and src.startswith("//", i):
            j = src.find("\n", i)
            if j < 0:
                j = n
            out.append(src[i:j])
            i = j
            continue
        if not in_str and src.startswith("/*", i):
            depth += 1
            i += 2
            continue
        if depth > 0 and src.startswith("*/", i):
            depth -= 1
            i += 2
            continue
        if depth > 0:
            out.append("\n" if src[i] == "\n" else " ")
            i += 1
            continue
        c = src[i]
        if c == '"' and not in_str:
            in_str = True
        elif c == '"' and in_str:
            in_str = False
        elif c == "\\" and in_str:
            out.append(src[i:i + 2])
            i += 2
            continue
        out.append(c)
        i += 1
    return "".join(out)


def tokenize(src):
    src = strip_block_comments(src)
    toks = []
    pos = 0
    line = 1
    n = len(src)
    while pos < n:
        m = TOKEN_RE.match(src, pos)
        if not m:
            raise TranslateError("cannot tokenize at line %d: %r" % (line, src[pos:pos + 30]))
        kind = m.lastgroup
        text = m.group()
        if kind not in ("ws", "lcomment"):
            toks.append(Tok(kind, text, line))
        line += text.count("\n")
        pos = m.end()
    return toks


def parse_int(text):
    t = re.sub(r"[iu](8|16|32|64|128|size)$", "", text).replace("_", "")
    if t.startswith("0x"):
        return int(t[2:], 16)
    if t.startswith("0b"):
        return int(t[2:], 2)
    if t.startswith("0o"):
        return int(t[2:], 8)
    return int(t)


_ESC = {"n": 10, "r": 13, "t": 9, "\\": 92, "0": 0, "'": 39, '"': 34}


def parse_bchar(text):
    """b'x' or 'x' (ASCII only) -> int"""
    body = text[2:-1] if text.startswith("b") else text[1:-1]
    if body.startswith("\\x"):
        return int(body[2:], 16)
    if body.startswith("\\u{"):
        return int(body[3:-1].replace("_", ""), 16)
    if body.startswith("\\"):
        if body[1] not in _ESC:
            raise TranslateError("unknown escape " + text)
        return _ESC[body[1]]
    if len(body) != 1:
        raise TranslateError("bad char literal " + text)
    return ord(body)


def parse_bstr(text):
    """b"..." or "..." -> list of ints (bytes of UTF-8)"""
    body = text[2:-1] if text.startswith("b") else text[1:-1]
    out = []
    i = 0
    while i < len(body):
        c = body[i]
        if c == "\\":
            d = body[i + 1]
            if d == "x":
                out.append(int(body[i + 2:i + 4], 16))
                i += 4
            elif d == "\n":
                # line continuation: skip newline and following whitespace
                i += 2
                while i < len(body) and body[i] in " \t\n\r":
                    i += 1
            elif d == "u":
                j = body.index("}", i)
                out.extend(chr(int(body[i + 3:j].replace("_", ""), 16)).encode("utf-8"))
                i = j + 1
            elif d in _ESC:
                out.append(_ESC[d])
                i += 2
            else:
                raise TranslateError("unknown escape in string")
        else:
            out.extend(c.encode("utf-8"))
            i += 1
    return out


def find_seq(toks, texts, start=0):
    """index of first occurrence of the token text sequence, or -1"""
    n = len(texts)
    for i in range(start, len(toks) - n + 1):
        if all(toks[i + k].text == texts[k] for k in range(n)):
            return i
    return -1


def match_close(toks, i):
    """toks[i] is an opening bracket; return index of its matching close"""
    pairs = {"(": ")", "[": "]", "{": "}"}
    op = toks[i].text
    cl = pairs[op]
    depth = 0
    for j in range(i, len(toks)):
        if toks[j].text == op:
            depth += 1
        elif toks[j].text == cl:
            depth -= 1
            if depth == 0:
                return j
    raise TranslateError("unbalanced %s at line %d" % (op, toks[i].line))


def until_semicolon(toks, i):
    """tokens from i up to (not including) the next ';' at depth 0"""
    depth = 0
    j = i
    while j < len(toks):
        t = toks[j].text
        if t in "([{":
            depth += 1
        elif t in ")]}":
            depth -= 1
        elif t == ";" and depth == 0:
            return toks[i:j], j
        j += 1
    raise TranslateError("no terminating ';'")


def fn_body(toks, name, start=0):
    """tokens of the body (between braces) of the first `fn name` after start; also returns (lo, hi) lines"""
    i = find_seq(toks, ["fn", name], start)
    if i < 0:
        raise TranslateError("fn %s not found" % name)
    j = i
    while toks[j].text != "{":
        if toks[j].text == ";":
            raise TranslateError("fn %s has no body" % name)
        j += 1
    k = match_close(toks, j)
    return toks[j + 1:k], (toks[i].line, toks[k].line), k
