"""Table reader for C16 (url/src/origin.rs).

1. The operation `Origin::new_opaque` performs on the shared `COUNTER`:
     T_COUNTER_OP = 0  (FetchAdd)       body is `Origin::Opaque(OpaqueOrigin(COUNTER.fetch_add(1, Ordering::<any>)))`
                                        (directly, or through one `let id = COUNTER.fetch_add(1, ..);`)
     T_COUNTER_OP = 1  (LoadThenStore)  `let id = COUNTER.load(..); COUNTER.store(id + 1, ..);` then the value built from id
   on a `static COUNTER: AtomicUsize = AtomicUsize::new(0);` declared inside the function.
   Anything else is a TranslateError (fail closed).
2. The scheme dispatch of `url_origin`: the string patterns of the arm that builds `Origin::Tuple(..)`,
   of the arm that recurses on `Url::parse(url.path())`, and that every other arm is `Origin::new_opaque()`.
     T_ORIGIN_TUPLE_SCHEMES : list (list N),  T_ORIGIN_BLOB_SCHEMES : list (list N)
"""
from rustlex import TranslateError, tokenize, parse_int, parse_bstr, find_seq, match_close, until_semicolon, fn_body
from tablib import read, split_commas, coq_list


def _texts(toks):
    return [t.text for t in toks]


def _ordering(ts, i, what):
    """ts[i:] starts with `Ordering :: <Ident>`; returns index after it"""
    if ts[i:i + 2] != ["Ordering", "::"] or not ts[i + 2].isidentifier():
        raise TranslateError("%s: expected Ordering::<name>, found %r" % (what, ts[i:i + 3]))
    return i + 3


def read_counter_op(toks):
    i = find_seq(toks, ["impl", "Origin", "{"])
    if i < 0:
        raise TranslateError("impl Origin not found")
    body, _, _ = fn_body(toks, "new_opaque", i)
    ts = _texts(body)
    decl = ["static", "COUNTER", ":", "AtomicUsize", "=", "AtomicUsize", "::", "new", "(", "0", ")", ";"]
    if ts[:len(decl)] != decl:
        raise TranslateError("new_opaque: expected `static COUNTER: AtomicUsize = AtomicUsize::new(0);`, found %r" % ts[:len(decl)])
    ts = ts[len(decl):]
    if ts.count("COUNTER") == 0:
        raise TranslateError("new_opaque: COUNTER is never used")

    def value_of(expr):
        want = ["Origin", "::", "Opaque", "(", "OpaqueOrigin", "("] + expr + [")", ")"]
        return want

    # shape A: Origin::Opaque(OpaqueOrigin(COUNTER.fetch_add(1, Ordering::X)))
    fa = ["COUNTER", ".", "fetch_add", "(", "1", ","]
    if ts[:6] == ["Origin", "::", "Opaque", "(", "OpaqueOrigin", "("] and ts[6:12] == fa:
        j = _ordering(ts, 12, "new_opaque")
        if ts[j:] == [")", ")", ")"]:
            return 0
        raise TranslateError("new_opaque: unrecognised tail after fetch_add: %r" % ts[j:])
    # shape A': let id = COUNTER.fetch_add(1, Ordering::X); Origin::Opaque(OpaqueOrigin(id))
    if ts[:1] == ["let"] and ts[2:3] == ["="] and ts[3:9] == fa and ts[1].isidentifier():
        v = ts[1]
        j = _ordering(ts, 9, "new_opaque")
        if ts[j:j + 2] == [")", ";"] and ts[j + 2:] == value_of([v]):
            return 0
        raise TranslateError("new_opaque: unrecognised statements after `let %s = COUNTER.fetch_add`" % v)
    # shape B: let id = COUNTER.load(Ordering::X); COUNTER.store(id + 1, Ordering::Y); Origin::Opaque(OpaqueOrigin(id))
    ld = ["COUNTER", ".", "load", "("]
    if ts[:1] == ["let"] and ts[2:3] == ["="] and ts[3:7] == ld and ts[1].isidentifier():
        v = ts[1]
        j = _ordering(ts, 7, "new_opaque")
        if ts[j:j + 2] != [")", ";"]:
            raise TranslateError("new_opaque: unrecognised load statement")
        j += 2
        st_plain = ["COUNTER", ".", "store", "(", v, "+", "1", ","]
        st_wrap = ["COUNTER", ".", "store", "(", v, ".", "wrapping_add", "(", "1", ")", ","]
        if ts[j:j + len(st_plain)] == st_plain:
            j += len(st_plain)
        elif ts[j:j + len(st_wrap)] == st_wrap:
            j += len(st_wrap)
        else:
            raise TranslateError("new_opaque: a load of COUNTER must be followed by `COUNTER.store(%s + 1, ..)`; found %r" % (v, ts[j:j + 11]))
        j = _ordering(ts, j, "new_opaque")
        if ts[j:j + 2] == [")", ";"] and ts[j + 2:] == value_of([v]):
            return 1
        raise TranslateError("new_opaque: unrecognised statements after load/store")
    raise TranslateError("new_opaque: unrecognised access pattern on COUNTER: %r" % ts[:16])


def _split_arms(body):
    """body = tokens between the braces of a match; returns [(pattern tokens, arm body tokens)]"""
    arms = []
    i = 0
    n = len(body)
    while i < n:
        j = i
        while j < n and body[j].text != "=>":
            if body[j].text in "([{":
                j = match_close(body, j)
            j += 1
        if j >= n:
            raise TranslateError("url_origin: match arm without =>")
        pat = body[i:j]
        k = j + 1
        if body[k].text == "{":
            e = match_close(body, k)
            arm = body[k + 1:e]
            k = e + 1
            if k < n and body[k].text == ",":
                k += 1
        else:
            depth = 0
            e = k
            while e < n:
                t = body[e].text
                if t in "([{":
                    depth += 1
                elif t in ")]}":
                    depth -= 1
                elif t == "," and depth == 0:
                    break
                e += 1
            arm = body[k:e]
            k = e + 1
        arms.append((pat, arm))
        i = k
    return arms


def _str_alternatives(pat, what):
    out = []
    expect_str = True
    for t in pat:
        if expect_str:
            if t.kind != "str":
                raise TranslateError("%s: pattern %r is not a string literal" % (what, t.text))
            out.append(parse_bstr(t.text))
            expect_str = False
        else:
            if t.text != "|":
                raise TranslateError("%s: unexpected %r in pattern" % (what, t.text))
            expect_str = True
    if expect_str:
        raise TranslateError("%s: dangling | in pattern" % what)
    return out


def read_dispatch(toks):
    body, _, _ = fn_body(toks, "url_origin")
    ts = _texts(body)
    head = ["let", "scheme", "=", "url", ".", "scheme", "(", ")", ";", "match", "scheme", "{"]
    if ts[:len(head)] != head:
        raise TranslateError("url_origin: expected `let scheme = url.scheme(); match scheme {`, found %r" % ts[:len(head)])
    close = match_close(body, len(head) - 1)
    if close != len(body) - 1:
        raise TranslateError("url_origin: tokens after the match")
    arms = _split_arms(body[len(head):close])
    tuple_s, blob_s, opaque_s = [], [], []
    saw_default = False
    blob_body = ["let", "result", "=", "Url", "::", "parse", "(", "url", ".", "path", "(", ")", ")", ";",
                 "match", "result", "{",
                 "Ok", "(", "ref", "url", ")", "=>", "url_origin", "(", "url", ")", ",",
                 "Err", "(", "_", ")", "=>", "Origin", "::", "new_opaque", "(", ")", ",", "}"]
    tuple_body = ["Origin", "::", "Tuple", "(",
                  "scheme", ".", "to_owned", "(", ")", ",",
                  "url", ".", "host", "(", ")", ".", "unwrap", "(", ")", ".", "to_owned", "(", ")", ",",
                  "url", ".", "port_or_known_default", "(", ")", ".", "unwrap", "(", ")", ",", ")"]
    opaque_body = ["Origin", "::", "new_opaque", "(", ")"]
    for pat, arm in arms:
        at = _texts(arm)
        if saw_default:
            raise TranslateError("url_origin: arm after the `_` arm")
        if len(pat) == 1 and pat[0].text == "_":
            if at != opaque_body:
                raise TranslateError("url_origin: the `_` arm is not Origin::new_opaque()")
            saw_default = True
            continue
        alts = _str_alternatives(pat, "url_origin")
        if at == blob_body:
            blob_s += alts
        elif at == tuple_body or at == tuple_body[:-2] + [")"]:
            tuple_s += alts
        elif at == opaque_body:
            opaque_s += alts
        else:
            raise TranslateError("url_origin: unrecognised arm body for %r: %r" % ([bytes(a).decode() for a in alts], at[:12]))
    if not saw_default:
        raise TranslateError("url_origin: no `_` arm")
    # first-match semantics: a literal listed twice would make the lists ambiguous
    seen = set()
    for a in blob_s + tuple_s + opaque_s:
        if tuple(a) in seen:
            raise TranslateError("url_origin: scheme literal %r appears in two arms" % bytes(a).decode())
        seen.add(tuple(a))
    return tuple_s, blob_s


def check_derived_eq(toks):
    """Origin, OpaqueOrigin (origin.rs) must take == from #[derive(PartialEq)] - the model's origin_eqb is the
    structural equality - and nobody may write `impl PartialEq for` them by hand"""
    ts = _texts(toks)
    for name, kw in (("Origin", "enum"), ("OpaqueOrigin", "struct")):
        i = find_seq(toks, ["pub", kw, name])
        if i < 0:
            raise TranslateError("pub %s %s not found" % (kw, name))
        # the attribute list directly before: # [ derive ( ... ) ]
        j = i - 1
        if ts[j] != "]":
            raise TranslateError("%s: no attribute before the declaration" % name)
        k = j
        while k >= 0 and ts[k] != "#":
            k -= 1
        attr = ts[k:j + 1]
        if attr[:4] != ["#", "[", "derive", "("] or "PartialEq" not in attr or "Eq" not in attr:
            raise TranslateError("%s: expected #[derive(.. PartialEq, Eq ..)], found %r" % (name, attr))
        for tr in ("PartialEq", "Eq"):
            if find_seq(toks, ["impl", tr, "for", name]) >= 0:
                raise TranslateError("%s: hand-written impl %s" % (name, tr))
    hi = find_seq(toks, ["pub", "enum", "Origin", "{"])
    body = ts[hi + 4:match_close(toks, hi + 3)]
    want = ["Opaque", "(", "OpaqueOrigin", ")", ",", "Tuple", "(", "String", ",", "Host", "<", "String", ">", ",", "u16", ")", ","]
    if body != want:
        raise TranslateError("enum Origin: unrecognised variants %r" % body)
    si = find_seq(toks, ["pub", "struct", "OpaqueOrigin"])
    if ts[si + 3:si + 7] != ["(", "usize", ")", ";"]:
        raise TranslateError("struct OpaqueOrigin: expected (usize)")


def extend(repo, V, J):
    toks = tokenize(read(repo, "url/src/origin.rs"))
    check_derived_eq(toks)
    op = read_counter_op(toks)
    tuple_s, blob_s = read_dispatch(toks)
    V.append("(* ---- origins (url/src/origin.rs) ---- *)")
    V.append("Definition T_COUNTER_OP : N := %d. (* %s *)" % (op, ["FetchAdd", "LoadThenStore"][op]))
    ll = lambda xs: "[" + "; ".join(coq_list(x) for x in xs) + "]"
    V.append("Definition T_ORIGIN_TUPLE_SCHEMES : list (list N) := %s." % ll(tuple_s))
    V.append("Definition T_ORIGIN_BLOB_SCHEMES : list (list N) := %s." % ll(blob_s))
    V.append("")
    J["counter_op"] = ["FetchAdd", "LoadThenStore"][op]
    J["origin_tuple_schemes"] = [bytes(a).decode() for a in tuple_s]
    J["origin_blob_schemes"] = [bytes(a).decode() for a in blob_s]
