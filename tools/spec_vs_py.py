#!/usr/bin/env python3
"""tools/spec_vs_py.py [--tier quick|thorough] [--seed N]
Cross-check of the extracted Spec/Whatwg.v against the Python transcription of DESIGN.md Appendix A
(design_notes/appendix_a_validation/whatwg.py) on generated parse requests and setter histories.
Both sides use the same host-parser answers (recorded from the spec driver's oracle queries), so the
comparison is about the state machine, the serializer and the setters.  Development aid."""
import os, sys
ROOT = os.path.dirname(os.path.dirname(os.path.abspath(__file__)))
sys.path.insert(0, os.path.join(ROOT, "tools"))
sys.path.insert(0, os.path.join(ROOT, "design_notes", "appendix_a_validation"))
import orchestrate as o
import specval
import whatwg as W


def unh(h):
    return "" if h == "-" else "".join(chr(int(x, 16)) for x in h.split("."))


def main():
    a = sys.argv[1:]
    tier = a[a.index("--tier") + 1] if "--tier" in a else "quick"
    seed = int(a[a.index("--seed") + 1]) if "--seed" in a else 1
    dump = os.path.join(o.BUILD, "tmp", "spec_dump_%d.txt" % os.getpid())
    os.makedirs(os.path.dirname(dump), exist_ok=True)
    rep, err = o.run_harness(specval.CFG, "dev", "dump", tier, seed, dump, 7200)
    if rep is None:
        print(err)
        return 2
    print("answers:", rep["histogram"])
    table = {}

    def host_parse(orc, s, opaque):
        key = ("1" if opaque else "0", s)
        if key not in table:
            raise KeyError("host oracle never asked: %r" % (key,))
        t = table[key]
        k, arg = t[0], t[1:]
        if k == "f": return None
        if k == "e": return ""
        if k == "d": return ("domain", unh(arg))
        if k == "o": return ("opaque", unh(arg))
        if k == "4": return ("v4", int(arg, 16))
        if k == "6": return ("v6", [int(x, 16) for x in arg.split(".")])
        raise ValueError(t)
    W.host_parse = host_parse

    def show(u):
        return "ok " + " ".join(".".join("%x" % ord(c) for c in s) or "-" for s in W.api(u))
    n = bad = 0
    for line in open(dump, encoding="utf-8"):
        f = line.rstrip("\n").split("\t")
        if f[0] == "H":
            op, s = f[1].split(",")
            table[(op, unh(s))] = f[2]
            continue
        n += 1
        try:
            if f[0] == "P":
                base = None
                got = None
                if f[1] != "~":
                    base = W.basic_parse(None, unh(f[1]))
                    if base == W.FAIL:
                        got = "basefail"
                if got is None:
                    r = W.basic_parse(None, unh(f[2]), base)
                    got = "fail" if r == W.FAIL else show(r)
                want = f[3]
            else:
                u = W.basic_parse(None, unh(f[1]))
                if u == W.FAIL:
                    got = "hreffail"
                else:
                    for op in f[2].split(","):
                        name, v = op.split("=")
                        u = W.setter(None, u, name, unh(v))
                    got = show(u)
                want = f[3]
        except Exception as e:
            got = "EXC %r" % (e,)
        if got != want:
            bad += 1
            if bad <= 25:
                print("DIFF", f[0], [unh(x) if i == 1 and x != "~" and f[0] in "PQ" else x for i, x in enumerate(f[1:3])])
                print("   coq", want)
                print("   py ", got)
    os.unlink(dump)
    print("spec_vs_py: %d requests, %d differences" % (n, bad))
    return 0 if bad == 0 else 1


if __name__ == "__main__":
    sys.exit(main())
