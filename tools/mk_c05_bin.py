#!/usr/bin/env python3
"""Regenerate PART 1 of harness/src/bin/c05.rs from harness/src/bin/urlhist.rs (see the header of c05.rs).
   tools/mk_c05_bin.py          rewrite c05.rs
   tools/mk_c05_bin.py --check  exit 1 if PART 1 is not the current urlhist.rs"""
import os
import sys

ROOT = os.path.dirname(os.path.dirname(os.path.abspath(__file__)))
BIN = os.path.join(ROOT, "harness", "src", "bin")
M1 = "// ===== PART 1: urlhist.rs =====\n"
M2 = "\n// ===== PART 2: C05 directed search =====\n"


def part1():
    base = open(os.path.join(BIN, "urlhist.rs")).read()
    return base.replace("//!", "//", 3).replace("fn main() {", "#[allow(dead_code)]\nfn urlhist_main() {")


def main():
    cur = open(os.path.join(BIN, "c05.rs")).read()
    head, rest = cur.split(M1, 1)
    old1, part2 = rest.split(M2, 1)
    new = head + M1 + part1() + M2 + part2
    if "--check" in sys.argv:
        if new != cur:
            print("harness/src/bin/c05.rs PART 1 differs from urlhist.rs: run tools/mk_c05_bin.py")
            return 1
        return 0
    open(os.path.join(BIN, "c05.rs"), "w").write(new)
    return 0


if __name__ == "__main__":
    sys.exit(main())
