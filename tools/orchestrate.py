#!/usr/bin/env python3
"""Entry point behind ./check.

  ./check Cxx [--tier quick|thorough] [--replay FILE]
  ./check --setup

Per property: regenerate tables from /repo, build the Coq theorems (full .vo), gate on
Print Assumptions and on the hygiene scan, build the extracted-model driver and the Rust harness
against /repo's working tree, run the correspondence, replay known findings, and - only when a
proof obligation or the correspondence broke - search the implementation for a failing input.
"""
import fcntl
import hashlib
import json
import os
import re
import subprocess
import sys
import time

ROOT = os.path.dirname(os.path.dirname(os.path.abspath(__file__)))
REPO = os.environ.get("VERIF_REPO", "/repo")
COQ = os.path.join(ROOT, "coq")
BUILD = os.path.join(ROOT, "build")
OCAML_OUT = os.path.join(BUILD, "ocaml")
TARGET = os.path.join(BUILD, "target" if REPO == "/repo" else "target-" + hashlib.sha256(REPO.encode()).hexdigest()[:8])
HX = os.path.join(BUILD, "harness" if REPO == "/repo" else "harness-" + hashlib.sha256(REPO.encode()).hexdigest()[:8])
sys.path.insert(0, os.path.join(ROOT, "tools"))
from props import PROPS, COMMON_TRUSTED_BASE  # noqa: E402

FORBIDDEN = re.compile(r"\b(Admitted|admit|Axiom|Axioms|Parameter|Parameters|Conjecture|Conjectures|"
                       r"Admit Obligations|bypass_check|Unset Guard Checking|Unset Positivity Checking|"
                       r"Unset Universe Checking|type-in-type|impredicative-set)\b")
ALLOW_AXIOMS = set()
_allow = os.path.join(ROOT, "tools", "allow_axioms.txt")
if os.path.exists(_allow):
    ALLOW_AXIOMS = {l.strip() for l in open(_allow) if l.strip() and not l.startswith("#")}

ENV = dict(os.environ)
ENV.update({"CARGO_NET_OFFLINE": "true", "CARGO_TARGET_DIR": TARGET, "RUSTFLAGS": os.environ.get("RUSTFLAGS", "")})


def sh(cmd, cwd=None, timeout=1800, env=None):
    """run, return (rc, combined output)"""
    try:
        p = subprocess.run(cmd, cwd=cwd, env=env or ENV, stdout=subprocess.PIPE, stderr=subprocess.STDOUT,
                           timeout=timeout, shell=isinstance(cmd, str))
        return p.returncode, p.stdout.decode("utf-8", "replace")
    except subprocess.TimeoutExpired as e:
        return 124, (e.stdout or b"").decode("utf-8", "replace") + "\nTIMEOUT after %ds" % timeout


class Lock:
    """One check at a time per /verif tree, for its WHOLE duration: coq/Gen/Tables.v, the .vo files and the
    extracted drivers under build/ocaml are shared, also with development runs against a scratch copy
    (VERIF_REPO), so a second run must not regenerate them while the first one's correspondence is running.
    Re-entrant within the process."""
    depth = 0
    f = None

    def __enter__(self):
        if Lock.depth == 0:
            os.makedirs(BUILD, exist_ok=True)
            Lock.f = open(os.path.join(BUILD, ".lock"), "w")
            fcntl.flock(Lock.f, fcntl.LOCK_EX)
        Lock.depth += 1

    def __exit__(self, *a):
        Lock.depth -= 1
        if Lock.depth == 0:
            fcntl.flock(Lock.f, fcntl.LOCK_UN)
            Lock.f.close()


# ------------------------------------------------------------------------------------------ steps

def step_tables():
    rc, out = sh([sys.executable, os.path.join(ROOT, "tools", "gen_tables.py"), REPO, os.path.join(COQ, "Gen")])
    return rc == 0, out.strip()


def write_coqproject():
    """_CoqProject lists every .v file under coq/ (sorted); rewritten only when the list changes"""
    files = []
    for d, _, fs in os.walk(COQ):
        for f in fs:
            if f.endswith(".v") and not f.startswith("."):
                files.append(os.path.relpath(os.path.join(d, f), COQ))
    if "Gen/Tables.v" not in files:
        files.append("Gen/Tables.v")
    body = "-Q . RU\n-arg -w -arg -notation-overridden,-deprecated-hint-without-locality,-deprecated-instance-without-locality\n" + \
        "\n".join(sorted(files)) + "\n"
    cp = os.path.join(COQ, "_CoqProject")
    if not os.path.exists(cp) or open(cp).read() != body:
        open(cp, "w").write(body)


def ensure_makefile():
    write_coqproject()
    mk = os.path.join(COQ, "Makefile")
    cp = os.path.join(COQ, "_CoqProject")
    if not os.path.exists(mk) or os.path.getmtime(mk) < os.path.getmtime(cp):
        rc, out = sh(["coq_makefile", "-f", "_CoqProject", "-o", "Makefile"], cwd=COQ)
        if rc != 0:
            raise RuntimeError("coq_makefile failed: " + out)


def step_coq(targets, timeout):
    os.makedirs(OCAML_OUT, exist_ok=True)
    ensure_makefile()
    cmd = ["make", "-j16"] + targets
    rc, out = sh(cmd, cwd=COQ, timeout=timeout)
    info = {"cmd": "cd coq && coq_makefile -f _CoqProject -o Makefile && " + " ".join(cmd), "ok": rc == 0}
    if rc != 0:
        m = re.search(r'File "\./([^"]+)", line (\d+), characters [^\n]*\n((?:.|\n)*?)(?:\nmake|\Z)', out)
        if m:
            info["file"], info["line"], info["message"] = m.group(1), int(m.group(2)), m.group(3).strip()[:2000]
            info["lemma"] = enclosing_lemma(os.path.join(COQ, m.group(1)), int(m.group(2)))
        else:
            info["message"] = out[-2000:]
    return info


def enclosing_lemma(path, line):
    try:
        lines = open(path, encoding="utf-8").read().split("\n")
    except OSError:
        return None
    for i in range(min(line, len(lines)) - 1, -1, -1):
        m = re.match(r"\s*(?:Theorem|Lemma|Example|Corollary|Definition|Fixpoint)\s+(\w+)", lines[i])
        if m:
            return m.group(1)
    return None


def step_assumptions(prop):
    """re-run coqc on the Properties file to capture Print Assumptions and the Check pins"""
    vfile = "Properties/%s.v" % prop
    src = open(os.path.join(COQ, vfile), encoding="utf-8").read()
    theorems = re.findall(r"^Theorem\s+(\w+)", src, re.M)
    printed = re.findall(r"^Print Assumptions\s+(\w+)\s*\.", src, re.M)
    tmp = os.path.join(BUILD, "tmp")
    os.makedirs(os.path.join(tmp, "pa"), exist_ok=True)
    cmd = ["coqc", "-Q", ".", "RU", "-w", "-notation-overridden", "-o", os.path.join(tmp, "pa", prop + ".vo"), vfile]
    rc, out = sh(cmd, cwd=COQ, timeout=900)
    res = {"cmd": "cd coq && " + " ".join(cmd), "theorems": [], "ok": rc == 0, "raw": out[-6000:]}
    if rc != 0:
        return res
    # split the output into one block per Print Assumptions, in order
    blocks = []
    cur = None
    for l in out.split("\n"):
        if l.startswith("Closed under the global context"):
            blocks.append(("closed", []))
            cur = None
        elif l.startswith("Axioms:"):
            cur = []
            blocks.append(("axioms", cur))
        elif cur is not None:
            m = re.match(r"^([A-Za-z_][\w.']*)\s*(?::|$)", l)
            if m and not l.startswith(" "):
                cur.append(m.group(1))
            elif not l.startswith(" ") and l.strip():
                cur = None
    status = {}
    for name, blk in zip(printed, blocks):
        kind, ax = blk
        bad = [a for a in ax if a not in ALLOW_AXIOMS]
        status[name] = {"assumptions": "closed" if kind == "closed" else ax, "ok": not bad}
    for t in theorems:
        st = status.get(t, {"assumptions": "not printed", "ok": False})
        res["theorems"].append({"name": t, **st})
    if len(blocks) != len(printed):
        res["ok"] = False
        res["raw"] += "\n[gate] %d Print Assumptions commands but %d result blocks" % (len(printed), len(blocks))
    return res


def step_hygiene():
    """no Admitted/admit/Axiom/... anywhere; Variable/Hypothesis/Context only inside a Section"""
    bad = []
    for d, _, fs in os.walk(COQ):
        for f in fs:
            if not f.endswith(".v"):
                continue
            p = os.path.join(d, f)
            txt = open(p, encoding="utf-8").read()
            code = strip_coq_comments(txt)
            for i, l in enumerate(code.split("\n"), 1):
                if FORBIDDEN.search(l):
                    bad.append("%s:%d: %s" % (os.path.relpath(p, COQ), i, l.strip()[:120]))
            depth = 0
            for i, l in enumerate(code.split("\n"), 1):
                if re.match(r"\s*Section\s+\w+", l):
                    depth += 1
                elif re.match(r"\s*End\s+\w+", l) and depth > 0:
                    depth -= 1
                elif re.match(r"\s*(Variable|Variables|Hypothesis|Hypotheses|Context)\b", l) and depth == 0:
                    bad.append("%s:%d: %s outside a Section" % (os.path.relpath(p, COQ), i, l.strip()[:80]))
    return bad


def strip_coq_comments(txt):
    out = []
    depth = 0
    i = 0
    in_str = False
    while i < len(txt):
        if not in_str and txt.startswith("(*", i):
            depth += 1
            i += 2
            continue
        if not in_str and depth > 0 and txt.startswith("*)", i):
            depth -= 1
            i += 2
            continue
        c = txt[i]
        if depth == 0:
            if c == '"':
                in_str = not in_str
            out.append(c)
        elif c == "\n":
            out.append(c)
        i += 1
    return "".join(out)


def file_hash(paths):
    h = hashlib.sha256()
    for p in paths:
        with open(p, "rb") as f:
            h.update(f.read())
    return h.hexdigest()


def step_driver(cfg):
    ok, msg = step_one_driver(cfg["driver"])
    if ok and cfg.get("driver2"):
        ok2, msg2 = step_one_driver(cfg["driver2"])
        return ok2, msg + "; driver2 " + msg2
    return ok, msg


def step_one_driver(d):
    model = os.path.join(OCAML_OUT, d["model"])
    parts = [model, os.path.join(ROOT, "ocaml", "proto.ml"), os.path.join(ROOT, "ocaml", d["src"])]
    for p in parts:
        if not os.path.exists(p):
            return False, "missing " + p
    exe = os.path.join(OCAML_OUT, d["exe"])
    stamp = exe + ".sha"
    hsh = file_hash(parts)
    if os.path.exists(exe) and os.path.exists(stamp) and open(stamp).read() == hsh:
        return True, "cached"
    main = os.path.join(OCAML_OUT, d["exe"] + "_main.ml")
    with open(main, "w") as out:
        for p in parts:
            out.write(open(p).read())
            out.write("\n")
    rc, o = sh(["ocamlfind", "ocamlopt", "-O3", "-w", "-a", "-package", "str", "-linkpkg",
                os.path.basename(main), "-o", d["exe"]], cwd=OCAML_OUT, timeout=900)
    if rc != 0:
        return False, o[-3000:]
    open(stamp, "w").write(hsh)
    return True, "built"


def prepare_harness():
    """build/harness/: Cargo.toml generated from harness/Cargo.toml.in with the repository path
    substituted (so VERIF_REPO can point a development run at a scratch copy), src -> harness/src"""
    os.makedirs(os.path.join(HX, ".cargo"), exist_ok=True)
    toml = open(os.path.join(ROOT, "harness", "Cargo.toml.in")).read().replace("@REPO@", REPO)
    for name, content in (("Cargo.toml", toml),
                          (os.path.join(".cargo", "config.toml"), "[net]\noffline = true\n"),
                          ("Cargo.lock", open(os.path.join(ROOT, "harness", "Cargo.lock")).read())):
        p = os.path.join(HX, name)
        if name == "Cargo.lock" and os.path.exists(p):
            continue
        if not os.path.exists(p) or open(p).read() != content:
            open(p, "w").write(content)
    link = os.path.join(HX, "src")
    if not os.path.islink(link):
        os.symlink(os.path.join(ROOT, "harness", "src"), link)


def step_cargo(cfg, profiles):
    prepare_harness()
    outs = {}
    for prof in profiles:
        cmd = ["cargo", "build", "--offline", "--bin", cfg["bin"]] + (["--release"] if prof == "release" else [])
        rc, o = sh(cmd, cwd=HX, timeout=1800)
        outs[prof] = (rc == 0, o[-3000:])
    return outs


def harness_exe(cfg, prof):
    return os.path.join(TARGET, "release" if prof == "release" else "debug", cfg["bin"])


def run_harness(cfg, prof, mode, tier, seed, file_arg, timeout):
    tmp = os.path.join(BUILD, "tmp")
    os.makedirs(tmp, exist_ok=True)
    out = os.path.join(tmp, "%s_%s_%s_%d.json" % (cfg["bin"], mode, prof, os.getpid()))
    cmd = [harness_exe(cfg, prof), "--mode", mode, "--tier", tier, "--seed", str(seed),
           "--driver", os.path.join(OCAML_OUT, cfg["driver"]["exe"]), "--out", out]
    if file_arg:
        cmd += ["--file", file_arg]
    if cfg.get("driver2"):
        cmd += ["--driver2", os.path.join(OCAML_OUT, cfg["driver2"]["exe"])]
    cmd += cfg.get("harness_args", [])
    rc, o = sh(cmd, cwd=ROOT, timeout=timeout)
    if rc != 0 or not os.path.exists(out):
        return None, "harness %s exited %d: %s" % (mode, rc, o[-2000:])
    try:
        rep = json.load(open(out))
    finally:
        os.unlink(out)
    return rep, ""


# ------------------------------------------------------------------------------------------ known findings

def load_known(prop):
    p = os.path.join(ROOT, "known_findings.json")
    if not os.path.exists(p):
        return []
    return [k for k in json.load(open(p))["findings"] if prop in k.get("properties", [k.get("property")])]


# ------------------------------------------------------------------------------------------ main flow

def write_replay(prop, body):
    os.makedirs(os.path.join(ROOT, "replays"), exist_ok=True)
    h = hashlib.sha256(json.dumps(body, sort_keys=True).encode()).hexdigest()[:12]
    path = os.path.join(ROOT, "replays", "%s-%s.json" % (prop, h))
    body = dict(body)
    body["replay_cmd"] = "./check %s --replay %s" % (prop, os.path.relpath(path, ROOT))
    # the harness bins locate the replayed case by the first occurrence of "request": in the file:
    # write that field first and keep the literal out of the free-text details
    ordered = {}
    for k in ("request", "what", "kind", "property"):
        if k in body:
            ordered[k] = body[k]
    for k in sorted(body):
        if k not in ordered:
            ordered[k] = body[k]
    txt = json.dumps(ordered, indent=1)
    head, sep, tail = txt.partition('"request":')
    txt = head + sep + tail.replace('\\"request\\":', "'request':")
    with open(path, "w") as f:
        f.write(txt)
    return os.path.relpath(path, ROOT)


def write_evidence(prop, ev):
    # development runs against a scratch copy (VERIF_REPO, used by tools/seed_eval.py and tools/drill.sh)
    # must not overwrite the evidence of /repo
    evdir = os.path.join(ROOT, "evidence") if REPO == "/repo" else os.path.join(HX, "evidence")
    os.makedirs(evdir, exist_ok=True)
    with open(os.path.join(evdir, prop + ".json"), "w") as f:
        json.dump(ev, f, indent=1, sort_keys=True)


def check(prop, tier, seed, replay):
    t0 = time.time()
    cfg = PROPS[prop]
    profiles = cfg.get("profiles", ["dev"])
    broken = []          # (kind, detail)
    mismatches = []      # request lines for the search
    checker_cmds = []
    notes = []

    with Lock():
        ok, out = step_tables()
        if not ok:
            broken.append(("translator", out))
        coq = step_coq(cfg["coq_targets"], timeout=cfg.get("coq_timeout", 2400))
        checker_cmds.append(coq["cmd"])
        if not coq["ok"]:
            broken.append(("proof", "%s:%s in %s: %s" % (coq.get("file"), coq.get("line"), coq.get("lemma"),
                                                         coq.get("message", ""))))
        pa = step_assumptions(prop) if coq["ok"] else {"theorems": [], "ok": False, "cmd": "", "raw": "(not run: build failed)"}
        checker_cmds.append(pa["cmd"])
        if coq["ok"] and (not pa["ok"] or any(not t["ok"] for t in pa["theorems"])):
            broken.append(("assumptions", pa["raw"][-1500:]))
        hyg = step_hygiene()
        if hyg:
            broken.append(("hygiene", "; ".join(hyg[:10])))
        coqchk = None
        if tier == "thorough" and coq["ok"]:
            cmd = ["coqchk", "-o", "-silent", "-Q", ".", "RU", "RU.Properties." + prop]
            rc, o = sh(cmd, cwd=COQ, timeout=3600)
            checker_cmds.append("cd coq && " + " ".join(cmd))
            coqchk = {"rc": rc, "output": o[-3000:]}
            if rc == 124:
                # the independent re-check did not finish in its hour: recorded, not a broken obligation (coqc's
                # kernel accepted every proof of this run; coqchk is the second opinion of the thorough tier)
                coqchk["timed_out"] = True
                notes.append("coqchk did not finish within 3600 s on this closure; coqc accepted every proof (not counted as a broken obligation)")
            elif rc != 0:
                broken.append(("coqchk", o[-1500:]))
        dok, dmsg = step_driver(cfg) if coq["ok"] or os.path.exists(os.path.join(OCAML_OUT, cfg["driver"]["exe"])) else (False, "model did not build")
        if not dok and coq["ok"]:
            broken.append(("driver", dmsg))
        cargo = step_cargo(cfg, profiles)
        for prof, (cok, cmsg) in cargo.items():
            if not cok:
                broken.append(("cargo-" + prof, cmsg))
        # additional correspondence runs that belong to this property (other bin / driver)
        also = cfg.get("also", [])
        for sub in also:
            if coq["ok"] or os.path.exists(os.path.join(OCAML_OUT, sub["driver"]["exe"])):
                sok, smsg = step_driver(sub)
                if not sok and coq["ok"]:
                    broken.append(("driver-" + sub["bin"], smsg))
            for prof, (cok, cmsg) in step_cargo(sub, ["dev"]).items():
                if not cok:
                    broken.append(("cargo-%s-%s" % (sub["bin"], prof), cmsg))

    have_driver = os.path.exists(os.path.join(OCAML_OUT, cfg["driver"]["exe"]))
    have_bin = all(cargo[p][0] for p in profiles)

    if replay:
        return do_replay(prop, cfg, profiles, replay, have_driver)

    # second route (thorough tier): the driver's requests evaluated inside Coq by vm_compute (tools/vmroute.py)
    if tier == "thorough" and have_driver and prop in ("C13", "C14", "C15", "C18", "C19", "C20") and not replay:
        rc, o = sh([sys.executable, os.path.join(ROOT, "tools", "vmroute.py"), prop], timeout=2400)
        checker_cmds.append("python3 tools/vmroute.py %s" % prop)
        notes.append(o.strip().split("\n")[-1][:400])
        if rc != 0:
            broken.append(("vmroute", o[-1500:]))

    # correspondence
    reports = {}
    if have_bin and have_driver:
        for prof in profiles:
            rep, err = run_harness(cfg, prof, "corr", tier, seed, os.path.join(ROOT, "corpus"),
                                   timeout=cfg.get("corr_timeout", 3000 if tier == "thorough" else 900))
            if rep is None:
                broken.append(("harness-" + prof, err))
                continue
            reports[prof] = rep
            if rep["mismatch_count"] > 0:
                broken.append(("correspondence-" + prof, "%d of %d cases differ, first: %s" % (
                    rep["mismatch_count"], rep["evaluations"], json.dumps(rep["mismatches"][0])[:600])))
                mismatches += [m["request"] for m in rep["mismatches"]]

    for sub in cfg.get("also", []):
        if os.path.exists(harness_exe(sub, "dev")) and os.path.exists(os.path.join(OCAML_OUT, sub["driver"]["exe"])):
            rep, err = run_harness(sub, "dev", "corr", tier, seed, os.path.join(ROOT, "corpus"),
                                   timeout=sub.get("corr_timeout", 3000 if tier == "thorough" else 900))
            key = "also-" + sub["bin"]
            if rep is None:
                broken.append(("harness-" + key, err))
                continue
            reports[key] = rep
            if rep["mismatch_count"] > 0:
                broken.append(("correspondence-" + key, "%d of %d cases differ, first: %s" % (
                    rep["mismatch_count"], rep["evaluations"], json.dumps(rep["mismatches"][0])[:600])))
                also_broken = True

    # known findings
    known_lines = []
    known_replayed = []
    regress = []
    known = load_known(prop)
    if have_bin and known:
        rep, err = run_harness(cfg, profiles[0], "known", tier, seed, None, timeout=600)
        if rep is None:
            broken.append(("harness-known", err))
        else:
            by_id = {k["id"]: k for k in rep["known"]}
            for k in known:
                r = by_id.get(k["id"])
                if r is None:
                    continue
                known_replayed.append({"id": k["id"], "status": k["status"], "reproduces": r["reproduces"], "observed": r["observed"]})
                if k["status"] == "open" and r["reproduces"]:
                    known_lines.append("KNOWN-FINDING: property=%s %s: %s" % (prop, k["id"], k["what_fails"]))
                elif k["status"] == "fixed" and r["reproduces"]:
                    regress.append((k, r))
                elif k["status"] == "open" and not r["reproduces"]:
                    notes.append("open finding %s no longer reproduces (%s)" % (k["id"], r["observed"]))

    violations = 0
    out_lines = list(known_lines)
    replay_paths = []
    for k, r in regress:
        path = write_replay(prop, {"property": prop, "kind": "regression-of-fixed-finding", "finding": k, "observed": r["observed"]})
        out_lines.append("VIOLATION property=%s replay=%s" % (prop, path))
        replay_paths.append(path)
        violations += 1

    search_rep = None
    if broken:
        # property-directed search on the implementation
        failing = None
        if have_bin:
            mm_file = os.path.join(BUILD, "tmp", "%s_mismatches_%d.txt" % (prop, os.getpid()))
            os.makedirs(os.path.dirname(mm_file), exist_ok=True)
            with open(mm_file, "w") as f:
                f.write("\n".join(mismatches) + "\n")
            for prof in profiles:
                search_rep, err = run_harness(cfg, prof, "search", tier, seed, mm_file, timeout=1500)
                if search_rep and search_rep["failures"]:
                    failing = (prof, search_rep["failures"][0])
                    break
            os.unlink(mm_file)
            if not failing:
                for sub in cfg.get("also", []):
                    if os.path.exists(harness_exe(sub, "dev")):
                        srep, err = run_harness(sub, "dev", "search", tier, seed, None, timeout=1500)
                        if srep and srep["failures"]:
                            search_rep = srep
                            failing = ("dev", srep["failures"][0])
                            break
        body = {"property": prop, "seed": seed, "tier": tier,
                "broken": [{"kind": k, "detail": d[:3000]} for k, d in broken]}
        if failing:
            prof, fl = failing
            body.update({"kind": "failing-input", "profile": prof, "request": fl["case"], "what": fl["what"],
                         "other_failures": search_rep["failures"][1:6]})
            path = write_replay(prop, body)
            out_lines.append("VIOLATION property=%s replay=%s" % (prop, path))
        else:
            body.update({"kind": "no-failing-input-found",
                         "no_longer_checks": [("%s: %s" % (k, d[:400])) for k, d in broken],
                         "differing_cases": mismatches[:20],
                         "search_evaluations": search_rep["evaluations"] if search_rep else 0})
            path = write_replay(prop, body)
            out_lines.append("VIOLATION property=%s replay=%s no-failing-input-found" % (prop, path))
        replay_paths.append(path)
        violations += 1

    # evidence
    main_rep = reports.get(profiles[0]) or {}
    theorems = pa["theorems"]
    ev = {
        "property_id": prop,
        "tier": tier,
        "seed": seed,
        "level": "proof",
        "coverage": {
            "obligations": max(len(theorems), 1) if coq["ok"] else max(len(re.findall(r"^Theorem\s+\w+", open(os.path.join(COQ, "Properties/%s.v" % prop)).read(), re.M)), 1),
            "discharged": sum(1 for t in theorems if t["ok"]),
            "checker_cmd": " ; ".join(c for c in checker_cmds if c),
            "trusted_base": COMMON_TRUSTED_BASE + cfg.get("trusted_base", []),
            "theorems": theorems,
            "theorem_notes": cfg.get("theorem_notes", {}),
            "print_assumptions": "all closed under the global context" if theorems and all(t.get("assumptions") == "closed" for t in theorems) else [t for t in theorems if t.get("assumptions") != "closed"],
            "coqchk": coqchk,
            "evaluations": sum(r.get("evaluations", 0) for r in reports.values()),
            "distinct_nontrivial": main_rep.get("distinct_nontrivial", 0),
            "outcome_signatures": main_rep.get("signatures", 0),
            "rule": cfg.get("rule", ""),
            "samples": main_rep.get("samples", []),
            "streams": {p: r.get("streams") for p, r in reports.items()},
            "histogram": main_rep.get("histogram", {}),
            "exhaustive_scopes": main_rep.get("exhaustive", []),
            "known_classes_excluded": cfg.get("known_classes", []),
            "known_findings_replayed": known_replayed,
            "broken": [{"kind": k, "detail": d[:800]} for k, d in broken],
            "replays": replay_paths,
            "notes": notes + main_rep.get("notes", []),
            "search": {"evaluations": search_rep["evaluations"], "failures": search_rep["failures"][:5]} if search_rep else None,
        },
        "assumptions": cfg.get("assumptions", []),
        "wall_s": round(time.time() - t0, 2),
        "violations": violations,
    }
    write_evidence(prop, ev)
    for l in out_lines:
        print(l)
    print("%s %s tier=%s seed=%d theorems=%d/%d evaluations=%d mismatches=%d wall=%.1fs" % (
        prop, "OK" if violations == 0 else "VIOLATED", tier, seed, ev["coverage"]["discharged"],
        ev["coverage"]["obligations"], ev["coverage"]["evaluations"],
        sum(r.get("mismatch_count", 0) for r in reports.values()), ev["wall_s"]))
    return 0 if violations == 0 else 1


def do_replay(prop, cfg, profiles, replay, have_driver):
    path = replay if os.path.isabs(replay) else os.path.join(ROOT, replay)
    body = json.load(open(path))
    prof = body.get("profile", profiles[0])
    rep, err = run_harness(cfg, prof, "replay", "quick", body.get("seed", 1), path, timeout=600)
    if rep is None:
        print("replay failed to run: " + err)
        return 2
    for n in rep["notes"]:
        print(n)
    if body.get("kind") == "no-failing-input-found":
        print("this replay names what no longer checks:")
        for l in body.get("no_longer_checks", []):
            print("  " + l)
        return 1
    if rep["failures"]:
        print("property verdict: VIOLATED - " + rep["failures"][0]["what"])
        print("VIOLATION property=%s replay=%s" % (prop, os.path.relpath(path, ROOT)))
        return 1
    print("property verdict: holds on this input (violation does not reproduce)")
    return 0


def setup():
    t0 = time.time()
    with Lock():
        ok, out = step_tables()
        print(out)
        if not ok:
            return 1
        os.makedirs(OCAML_OUT, exist_ok=True)
        ensure_makefile()
        rc, o = sh(["make", "-j16"], cwd=COQ, timeout=7000)
        print(o[-3000:])
        if rc != 0:
            return 1
        for prop, cfg in PROPS.items():
            dok, dmsg = step_driver(cfg)
            print("driver %s: %s" % (prop, dmsg if dok else "FAILED " + dmsg))
            if not dok:
                return 1
        prepare_harness()
        rc, o = sh(["cargo", "build", "--offline", "--bins"], cwd=HX, timeout=3000)
        print(o[-1500:])
        if rc != 0:
            return 1
        if any("release" in c.get("profiles", []) for c in PROPS.values()):
            rc, o = sh(["cargo", "build", "--offline", "--bins", "--release"], cwd=HX, timeout=3000)
            print(o[-1500:])
            if rc != 0:
                return 1
    print("setup done in %.0fs" % (time.time() - t0))
    return 0


def main():
    a = sys.argv[1:]
    if a and a[0] == "--setup":
        sys.exit(setup())
    if not a or a[0] not in PROPS:
        print("usage: ./check <%s> [--tier quick|thorough] [--replay FILE] | ./check --setup" % "|".join(sorted(PROPS)))
        sys.exit(2)
    prop = a[0]
    tier = os.environ.get("VERIF_TIER", "quick")
    replay = None
    i = 1
    while i < len(a):
        if a[i] == "--tier":
            tier = a[i + 1]
            i += 1
        elif a[i] == "--replay":
            replay = a[i + 1]
            i += 1
        i += 1
    if tier not in ("quick", "thorough"):
        tier = "quick"
    try:
        seed = int(os.environ.get("VERIF_SEED", "1"))
    except ValueError:
        seed = 1
    with Lock():
        rc = check(prop, tier, seed, replay)
    sys.exit(rc)


if __name__ == "__main__":
    main()
