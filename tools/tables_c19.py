"""Table reader for C19 (data-url/src/mime.rs): IS_HTTP_TOKEN, the http_whitespace and valid_value
character classes, the set of characters Display escapes, and the shape of
only_http_token_code_points (a byte-indexed table lookup).  Fails closed on any other shape."""
from rustlex import TranslateError, tokenize, parse_int, parse_bchar, find_seq, match_close, until_semicolon, fn_body
from tablib import read, split_commas


def _char_alternatives(toks, what):
    """`'a' | 'b'..='c' | ...` -> [(lo, hi)]"""
    out = []
    alt = []
    groups = []
    for t in toks:
        if t.text == "|":
            groups.append(alt)
            alt = []
        else:
            alt.append(t)
    groups.append(alt)
    for g in groups:
        if len(g) == 1 and g[0].kind == "char":
            v = parse_bchar(g[0].text)
            out.append((v, v))
        elif len(g) == 3 and g[0].kind == "char" and g[1].text == "..=" and g[2].kind == "char":
            lo, hi = parse_bchar(g[0].text), parse_bchar(g[2].text)
            if lo > hi:
                raise TranslateError("%s: empty range" % what)
            out.append((lo, hi))
        else:
            raise TranslateError("%s: unsupported pattern alternative %r" % (what, [t.text for t in g]))
    return out


def _matches_on(body, var, what):
    """body contains exactly one `matches!(var, alternatives)`; return the alternatives' tokens"""
    i = find_seq(body, ["matches!", "(", var, ","])
    if i < 0:
        raise TranslateError("%s: no matches!(%s, ...)" % (what, var))
    if find_seq(body, ["matches!"], i + 1) >= 0:
        raise TranslateError("%s: more than one matches!" % what)
    close = match_close(body, i + 1)
    return body[i + 4:close], i, close


def read_is_http_token(toks):
    i = find_seq(toks, ["static", "IS_HTTP_TOKEN"])
    if i < 0:
        raise TranslateError("IS_HTTP_TOKEN not found")
    body, _ = until_semicolon(toks, i)
    texts = [t.text for t in body]
    if texts[2:8] != [":", "[", "bool", ";", "256", "]"] or texts[8:10] != ["=", "byte_map!"] or texts[10] != "[":
        raise TranslateError("IS_HTTP_TOKEN: unrecognised declaration %r" % texts[:11])
    close = match_close(body, 10)
    if close != len(body) - 1:
        raise TranslateError("IS_HTTP_TOKEN: trailing tokens")
    elems = split_commas(body[11:close])
    flags = []
    for e in elems:
        if len(e) != 1 or e[0].kind != "num":
            raise TranslateError("IS_HTTP_TOKEN: non-literal element at line %d" % e[0].line)
        flags.append(parse_int(e[0].text))
    if len(flags) != 256:
        raise TranslateError("IS_HTTP_TOKEN: %d elements" % len(flags))
    # the macro: ($($flag:expr,)*) => ([ $($flag != 0,)* ])
    m = find_seq(toks, ["macro_rules!", "byte_map", "{"])
    if m < 0:
        raise TranslateError("byte_map! not found")
    mclose = match_close(toks, m + 2)
    mt = [t.text for t in toks[m + 3:mclose]]
    want = ["(", "$", "(", "$", "flag", ":", "expr", ",", ")", "*", ")", "=>",
            "(", "[", "$", "(", "$", "flag", "!=", "0", ",", ")", "*", "]", ")"]
    if mt != want:
        raise TranslateError("byte_map!: unrecognised macro body")
    return [f != 0 for f in flags]


def read_only_http_token(toks):
    body, _, _ = fn_body(toks, "only_http_token_code_points")
    texts = [t.text for t in body]
    want = ["s", ".", "bytes", "(", ")", ".", "all", "(", "|", "byte", "|",
            "IS_HTTP_TOKEN", "[", "byte", "as", "usize", "]", ")"]
    if texts != want:
        raise TranslateError("only_http_token_code_points: unrecognised body %r" % texts)


def read_http_whitespace(toks):
    body, _, _ = fn_body(toks, "http_whitespace")
    alts, i, close = _matches_on(body, "c", "http_whitespace")
    if i != 0 or close != len(body) - 1:
        raise TranslateError("http_whitespace: body is not a single matches!")
    return _char_alternatives(alts, "http_whitespace")


def read_valid_value(toks):
    body, _, _ = fn_body(toks, "valid_value")
    texts = [t.text for t in body]
    if texts[:11] != ["s", ".", "chars", "(", ")", ".", "all", "(", "|", "c", "|"]:
        raise TranslateError("valid_value: unrecognised body")
    alts, i, close = _matches_on(body, "c", "valid_value")
    rest = [t.text for t in body[11:i]] + [t.text for t in body[close + 1:]]
    if rest not in (["{", "}", ")"], [")"]):
        raise TranslateError("valid_value: unrecognised closure %r" % rest)
    return _char_alternatives(alts, "valid_value")


def read_display_escaped(toks):
    i = find_seq(toks, ["impl", "fmt", "::", "Display", "for", "Mime"])
    if i < 0:
        raise TranslateError("Display for Mime not found")
    body, _, _ = fn_body(toks, "fmt", i)
    k = find_seq(body, ["for", "c", "in", "value", ".", "chars", "(", ")", "{", "if"])
    if k < 0:
        raise TranslateError("Display for Mime: escaping loop not found")
    j = k + 10
    out = []
    while True:
        if body[j].text != "c" or body[j + 1].text != "==" or body[j + 2].kind != "char":
            raise TranslateError("Display for Mime: unrecognised escape condition")
        out.append(parse_bchar(body[j + 2].text))
        j += 3
        if body[j].text == "||":
            j += 1
            continue
        if body[j].text == "{":
            break
        raise TranslateError("Display for Mime: unrecognised escape condition")
    blk_close = match_close(body, j)
    blk = [t.text for t in body[j + 1:blk_close]]
    if blk != ["f", ".", "write_str", "(", '"\\\\"', ")", "?"]:
        raise TranslateError("Display for Mime: unrecognised escape action %r" % blk)
    return out


def _pairs(rs):
    return "[" + "; ".join("(%d, %d)" % r for r in rs) + "]"


def extend(repo, V, J):
    toks = tokenize(read(repo, "data-url/src/mime.rs"))
    flags = read_is_http_token(toks)
    read_only_http_token(toks)
    ws = read_http_whitespace(toks)
    vv = read_valid_value(toks)
    esc = read_display_escaped(toks)
    V.append("(* ---- MIME tables (data-url/src/mime.rs) ---- *)")
    lines = []
    for i in range(0, 256, 16):
        lines.append("   " + "; ".join("true" if f else "false" for f in flags[i:i + 16]))
    V.append("Definition T_IS_HTTP_TOKEN : list bool := [\n" + ";\n".join(lines) + "].")
    V.append("Definition T_HTTP_WHITESPACE : list (N * N) := %s." % _pairs(ws))
    V.append("Definition T_VALID_VALUE : list (N * N) := %s." % _pairs(vv))
    V.append("Definition T_MIME_ESCAPED : list N := [%s]." % "; ".join(str(x) for x in esc))
    V.append("")
    J["is_http_token"] = [i for i, f in enumerate(flags) if f]
    J["http_whitespace"] = [list(r) for r in ws]
    J["valid_value"] = [list(r) for r in vv]
    J["mime_escaped"] = esc
