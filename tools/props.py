"""Per-property configuration of the checks (read by tools/orchestrate.py)."""

COMMON_TRUSTED_BASE = [
    "Coq 8.16.1 kernel and its vm_compute virtual machine (finite sweeps, witnesses); native_compute is not used",
    "no axioms declared; standard library only; Print Assumptions output of every property theorem is recorded in this file",
    "tools/gen_tables.py + tools/rustlex.py + tools/tablib.py (translator: Rust constants/tables -> coq/Gen/Tables.v, fails closed on unknown shapes)",
    "for C13, C14, C18 the thorough tier re-evaluates the driver's requests inside Coq (vm_compute, tools/vmroute.py) and compares with the extracted driver, so extraction is cross-checked there; elsewhere it is trusted",
    "Coq extraction with ExtrOcamlBasic only (no Extract Constant / Extract Inductive beyond bool, option, list, prod, unit, sumbool), OCaml 4.13.1, ocaml/proto.ml and the per-property driver",
    "the correspondence check (harness/): differential testing of the extracted model against the crates built from /repo's working tree; its strength is that of the generators whose distribution is recorded here",
    "rustc / cargo code generation for the harness and the crates",
]

import glob
import importlib.util
import os

PROPS = {}
TEXT = {}
_d = os.path.join(os.path.dirname(os.path.abspath(__file__)), "props_d")
for _f in sorted(glob.glob(os.path.join(_d, "C*.py"))):
    _spec = importlib.util.spec_from_file_location("props_d_" + os.path.basename(_f)[:-3], _f)
    _m = importlib.util.module_from_spec(_spec)
    _spec.loader.exec_module(_m)
    PROPS[_m.ID] = _m.PROP
    TEXT[_m.ID] = _m.TEXT
