"""Per-property configuration of the checks (read by tools/orchestrate.py)."""

COMMON_TRUSTED_BASE = [
    "Coq 8.16.1 kernel and its vm_compute virtual machine (finite sweeps, witnesses); native_compute is not used",
    "no axioms declared; standard library only; Print Assumptions output of every property theorem is recorded in this file",
    "tools/gen_tables.py + tools/rustlex.py + tools/tablib.py (translator: Rust constants/tables -> coq/Gen/Tables.v, fails closed on unknown shapes)",
    "Coq extraction with ExtrOcamlBasic only (no Extract Constant / Extract Inductive beyond bool, option, list, prod, unit, sumbool), OCaml 4.13.1, ocaml/proto.ml and the per-property driver",
    "the correspondence check (harness/): differential testing of the extracted model against the crates built from /repo's working tree; its strength is that of the generators whose distribution is recorded here",
    "rustc / cargo code generation for the harness and the crates",
]

PROPS = {
    "C14": {
        "coq_targets": ["Properties/C14.vo", "Extract/ExC14.vo"],
        "driver": {"model": "c14_model.ml", "src": "drv_c14.ml", "exe": "c14_driver"},
        "bin": "c14",
        "profiles": ["dev"],
        "rule": "streams: corpus; exhaustive (all 256 bytes x 8 sets; all strings <= 4 (quick) / 5 (thorough) over an 8-class byte alphabet x 3 sets for encode, <= 5 / 6 for decode; UTF-8 validation over 12 lead/continuation classes; all single add/remove 0..255); random (sets as add chains x byte strings <= 24; decode of encoder output; set-algebra op sequences incl. non-ASCII arguments). A case is non-trivial when its input string / op list is non-empty; distinct = distinct request lines among those.",
        "trusted_base": [
            "modelled, not verified: Rust's core::str::from_utf8 / String::from_utf8_lossy are identified with Base/Utf8.v (utf8_scan); the identification is cross-checked by the 'utf8' stream",
            "Cow::Borrowed-of-input vs Cow::Borrowed-of-static is decided in the harness by pointer range",
        ],
        "assumptions": [
            "byte strings are lists of N below 256; AsciiSet values are built by add/remove/union/complement from EMPTY (all values the public API can construct)",
        ],
        "known_classes": ["F-C14-1 (= F-C04-4): AsciiSet::add/remove of a byte >= 0x80 panics; the set algebra is stated for the 128 ASCII values as the property says, and C14_add_panics_iff characterises the panic exactly"],
        "theorem_notes": {
            "C14_split": "sufficient condition 'no % among the last two bytes of x' (implies that no escape is cut); exact characterisation of cut escapes not stated",
        },
    },
}
