"""Table reader for C17 (data: URL header processing): data-url/src/lib.rs.

Emits (appended to coq/Gen/Tables.v):
  T_DU_TRIM_MAX      : N            - `ch <= ' '` of the two trims in pretend_parse_data_url (C0 control or space)
  T_DU_SKIP          : list N       - the bytes of the tab/newline filter `!matches!(byte, b'\\t' | ...)` (pretend_parse_data_url,
                                      remove_base64_suffix; the same list must appear in the `continue` arms of parse_header and
                                      to_percent_encoded)
  T_DU_SCHEME        : list N       - the bytes compared with eq_ignore_ascii_case in pretend_parse_data_url ("data")
  T_DU_COLON         : N            - the byte compared with `==` after them
  T_DU_COMMA, T_DU_HASH : N         - the two bytes find_comma_before_fragment compares with
  T_DU_HDR_TRIM      : list N       - the chars of `trim_matches(|c| matches!(c, ' ' | ...))` in parse_header
  T_DU_HDR_PREFIX_IF : N            - the char of `mime_type.starts_with(';')`
  T_DU_HDR_PREFIX    : list N       - the string pushed in that case ("text/plain")
  T_DU_HDR_ENC       : list (N*N)   - byte ranges always percent-encoded in parse_header (C0 control percent-encode set)
  T_DU_HDR_QENC      : list N       - bytes percent-encoded `if in_query`
  T_DU_HDR_QMARK     : N            - the byte that sets in_query
  T_DU_FALLBACK      : (type, subtype, [(name, value)]) of the unwrap_or_else Mime literal
  T_DU_B64_EXACT     : list N       - remove_base64_suffix: bytes compared with `==`, in the order read from the END ("46")
  T_DU_B64_NOCASE    : list N       - then the bytes compared with eq_ignore_ascii_case ("esab")
  T_DU_B64_SKIP      : N            - the byte of the skip_while
  T_DU_B64_SEP       : N            - the byte required after it (';')
  T_DU_HEX_UPPER     : list N       - HEX_UPPER of percent_encode
  T_DU_FRAG_ENC      : list (N*N)   - byte ranges percent-encoded by FragmentIdentifier::to_percent_encoded
Fails closed (TranslateError) on any other shape.
"""
from rustlex import TranslateError, tokenize, parse_int, parse_bchar, parse_bstr, find_seq, match_close, fn_body
from tablib import read, coq_list

LIB = "data-url/src/lib.rs"


def _texts(toks):
    return [t.text for t in toks]


def _alts(toks, kind, what):
    """`x | y..=z | ...` of literals of the given token kind -> [(lo, hi)]"""
    groups, cur = [], []
    for t in toks:
        if t.text == "|":
            groups.append(cur)
            cur = []
        else:
            cur.append(t)
    groups.append(cur)
    out = []
    for g in groups:
        if len(g) == 1 and g[0].kind == kind:
            v = parse_bchar(g[0].text)
            out.append((v, v))
        elif len(g) == 3 and g[0].kind == kind and g[1].text == "..=" and g[2].kind == kind:
            lo, hi = parse_bchar(g[0].text), parse_bchar(g[2].text)
            if lo > hi:
                raise TranslateError("%s: empty range" % what)
            out.append((lo, hi))
        else:
            raise TranslateError("%s: unsupported pattern alternative %r" % (what, _texts(g)))
    return out


def _singles(rs, what):
    if any(lo != hi for lo, hi in rs):
        raise TranslateError("%s: a range where single literals are expected" % what)
    return [lo for lo, _ in rs]


def _all_matches(body, scrutinee):
    """token lists of the alternatives of every matches!(<scrutinee>, ...) in body"""
    out = []
    i = 0
    while True:
        i = find_seq(body, ["matches!", "(", scrutinee, ","], i)
        if i < 0:
            return out
        j = match_close(body, i + 1)
        out.append(body[i + 4:j])
        i = j


def _match_arms(body, what):
    """the arms of the unique `match byte { ... }` in body: [(pattern tokens, guard tokens, expr tokens)]"""
    i = find_seq(body, ["match", "byte", "{"])
    if i < 0 or find_seq(body, ["match", "byte", "{"], i + 1) >= 0:
        raise TranslateError("%s: expected exactly one `match byte`" % what)
    close = match_close(body, i + 2)
    toks = body[i + 3:close]
    arms = []
    k = 0
    while k < len(toks):
        a = k
        while toks[k].text != "=>":
            k += 1
        head = toks[a:k]
        k += 1
        if toks[k].text == "{":
            e = match_close(toks, k)
            expr = toks[k + 1:e]
            k = e + 1
            if k < len(toks) and toks[k].text == ",":
                k += 1
        else:
            b = k
            depth = 0
            while k < len(toks) and not (toks[k].text == "," and depth == 0):
                if toks[k].text in "([{":
                    depth += 1
                elif toks[k].text in ")]}":
                    depth -= 1
                k += 1
            expr = toks[b:k]
            k += 1
        g = [x for x, t in enumerate(head) if t.text == "if"]
        if g:
            pat, guard = head[:g[0]], head[g[0] + 1:]
        else:
            pat, guard = head, []
        arms.append((pat, guard, expr))
    return arms, i, close


def read_pretend_parse(toks):
    body, _, _ = fn_body(toks, "pretend_parse_data_url")
    tx = _texts(body)
    what = "pretend_parse_data_url"
    want_head = ["let", "left_trimmed", "=", "input", ".", "trim_start_matches", "(", "|", "ch", "|", "ch", "<="]
    if tx[:len(want_head)] != want_head or body[len(want_head)].kind != "char" or tx[len(want_head) + 1:len(want_head) + 3] != [")", ";"]:
        raise TranslateError("%s: unrecognised leading trim" % what)
    lim = parse_bchar(body[len(want_head)].text)
    tail = ["Some", "(", "after_colon", ".", "trim_end_matches", "(", "|", "ch", "|", "ch", "<="]
    k = find_seq(body, tail)
    if k < 0 or body[k + len(tail)].kind != "char" or tx[k + len(tail) + 1:] != [")", ")"]:
        raise TranslateError("%s: unrecognised trailing trim" % what)
    if parse_bchar(body[k + len(tail)].text) != lim:
        raise TranslateError("%s: the two trims use different limits" % what)
    ms = _all_matches(body, "byte")
    if len(ms) != 1:
        raise TranslateError("%s: expected one tab/newline filter" % what)
    f = find_seq(body, [".", "filter", "(", "|", "&", "byte", "|", "!", "matches!"])
    if f < 0:
        raise TranslateError("%s: the filter is not a negated matches!" % what)
    skip = _singles(_alts(ms[0], "bchar", what), what)
    # the require! sequence
    scheme = []
    colon = None
    i = 0
    n_req = 0
    while True:
        i = find_seq(body, ["require!", "("], i)
        if i < 0:
            break
        j = match_close(body, i + 1)
        inner = _texts(body[i + 2:j])
        n_req += 1
        if inner[:7] == ["iter", ".", "next", "(", ")", "?", "."] and inner[7:10] == ["eq_ignore_ascii_case", "(", "&"] and len(inner) == 12 and inner[11] == ")":
            if colon is not None:
                raise TranslateError("%s: case-insensitive comparison after the exact one" % what)
            scheme.append(parse_bchar(inner[10]))
        elif inner[:6] == ["iter", ".", "next", "(", ")", "?"] and inner[6] == "==" and len(inner) == 8:
            if colon is not None:
                raise TranslateError("%s: two exact comparisons" % what)
            colon = parse_bchar(inner[7])
        else:
            raise TranslateError("%s: unrecognised require! %r" % (what, inner))
        i = j
    if colon is None or not scheme:
        raise TranslateError("%s: scheme comparisons not found" % what)
    want_slice = ["let", "bytes_consumed", "=", "left_trimmed", ".", "len", "(", ")", "-", "bytes", ".", "len", "(", ")", ";",
                  "let", "after_colon", "=", "&", "left_trimmed", "[", "bytes_consumed", "..", "]", ";"]
    if find_seq(body, want_slice) < 0:
        raise TranslateError("%s: unrecognised slice computation" % what)
    return lim, skip, scheme, colon


def read_find_comma(toks):
    body, _, _ = fn_body(toks, "find_comma_before_fragment")
    tx = _texts(body)
    want = ["for", "(", "i", ",", "byte", ")", "in", "after_colon", ".", "bytes", "(", ")", ".", "enumerate", "(", ")", "{",
            "if", "byte", "==", None, "{", "return", "Some", "(", "(", "&", "after_colon", "[", "..", "i", "]", ",",
            "&", "after_colon", "[", "i", "+", "1", "..", "]", ")", ")", ";", "}",
            "if", "byte", "==", None, "{", "break", ";", "}", "}", "None"]
    if len(tx) != len(want) or any(w is not None and w != t for w, t in zip(want, tx)):
        raise TranslateError("find_comma_before_fragment: unrecognised body")
    lits = [body[k] for k, w in enumerate(want) if w is None]
    if any(t.kind != "bchar" for t in lits):
        raise TranslateError("find_comma_before_fragment: non-literal comparison")
    return parse_bchar(lits[0].text), parse_bchar(lits[1].text)


def _is_pct(expr):
    return _texts(expr) == ["percent_encode", "(", "byte", ",", "&", "mut", "string", ")"]


def _is_push(expr):
    return _texts(expr) == ["string", ".", "push", "(", "byte", "as", "char", ")"]


def read_parse_header(toks):
    body, _, _ = fn_body(toks, "parse_header")
    what = "parse_header"
    tx = _texts(body)
    head = ["let", "trimmed", "=", "from_colon_to_comma", ".", "trim_matches", "(", "|", "c", "|", "matches!", "(", "c", ","]
    if tx[:len(head)] != head:
        raise TranslateError("%s: unrecognised trim" % what)
    close = match_close(body, 11)
    trim = _singles(_alts(body[14:close], "char", what), what)
    if tx[close + 1:close + 3] != [")", ";"]:
        raise TranslateError("%s: unrecognised trim (tail)" % what)
    seq = ["let", "without_base64_suffix", "=", "remove_base64_suffix", "(", "trimmed", ")", ";",
           "let", "base64", "=", "without_base64_suffix", ".", "is_some", "(", ")", ";",
           "let", "mime_type", "=", "without_base64_suffix", ".", "unwrap_or", "(", "trimmed", ")", ";",
           "let", "mut", "string", "=", "String", "::", "new", "(", ")", ";",
           "if", "mime_type", ".", "starts_with", "("]
    k = find_seq(body, seq)
    if k != close + 3:
        raise TranslateError("%s: unrecognised base64 / prefix logic" % what)
    k += len(seq)
    if body[k].kind != "char" or tx[k + 1:k + 7] != [")", "{", "string", ".", "push_str", "("] or body[k + 7].kind != "str" or tx[k + 8:k + 10] != [")", "}"]:
        raise TranslateError("%s: unrecognised text/plain prefix" % what)
    prefix_if = parse_bchar(body[k].text)
    prefix = parse_bstr(body[k + 7].text)
    k += 10
    loop = ["let", "mut", "in_query", "=", "false", ";", "for", "byte", "in", "mime_type", ".", "bytes", "(", ")", "{"]
    if tx[k:k + len(loop)] != loop:
        raise TranslateError("%s: unrecognised loop header" % what)
    arms, mi, mclose = _match_arms(body, what)
    if mi != k + len(loop) or tx[mclose + 1] != "}":
        raise TranslateError("%s: the loop body is not a single match" % what)
    if len(arms) != 5:
        raise TranslateError("%s: expected 5 match arms, found %d" % (what, len(arms)))
    (p0, g0, e0), (p1, g1, e1), (p2, g2, e2), (p3, g3, e3), (p4, g4, e4) = arms
    if g0 or _texts(e0) != ["continue"]:
        raise TranslateError("%s: arm 1 is not the tab/newline `continue`" % what)
    skip = _singles(_alts(p0, "bchar", what), what)
    if g1 or not _is_pct(e1):
        raise TranslateError("%s: arm 2 is not an unconditional percent_encode" % what)
    enc = _alts(p1, "bchar", what)
    if _texts(g2) != ["in_query"] or not _is_pct(e2):
        raise TranslateError("%s: arm 3 is not `if in_query => percent_encode`" % what)
    qenc = _singles(_alts(p2, "bchar", what), what)
    if g3 or len(p3) != 1 or p3[0].kind != "bchar":
        raise TranslateError("%s: arm 4 is not a single byte" % what)
    qmark = parse_bchar(p3[0].text)
    if _texts(e3) != ["in_query", "=", "true", ";", "string", ".", "push", "(", "'%s'" % chr(qmark), ")"]:
        raise TranslateError("%s: arm 4 does not set in_query and push the byte" % what)
    if g4 or _texts(p4) != ["_"] or not _is_push(e4):
        raise TranslateError("%s: arm 5 is not `_ => string.push(byte as char)`" % what)
    # the fallback Mime literal
    fb = ["let", "mime_type", "=", "string", ".", "parse", "(", ")", ".", "unwrap_or_else", "(", "|", "_", "|", "mime", "::", "Mime", "{"]
    f = find_seq(body, fb)
    if f != mclose + 2:
        raise TranslateError("%s: unrecognised parse / fallback" % what)
    fo = f + len(fb) - 1
    fc = match_close(body, fo)
    lit = body[fo + 1:fc]
    lt = _texts(lit)
    shape = ["type_", ":", "String", "::", "from", "(", None, ")", ",",
             "subtype", ":", "String", "::", "from", "(", None, ")", ",",
             "parameters", ":", "vec!", "["]
    if len(lt) < len(shape) or any(w is not None and w != t for w, t in zip(shape, lt)):
        raise TranslateError("%s: unrecognised fallback literal" % what)
    ty, st = lit[6], lit[15]
    pc = match_close(lit, len(shape) - 1)
    if _texts(lit[pc + 1:]) not in ([","], []):
        raise TranslateError("%s: trailing tokens in the fallback literal" % what)
    ptoks = lit[len(shape):pc]
    params = []
    j = 0
    while j < len(ptoks):
        pt = _texts(ptoks[j:j + 15])
        pshape = ["(", "String", "::", "from", "(", None, ")", ",", "String", "::", "from", "(", None, ")", ")"]
        if len(pt) != 15 or any(w is not None and w != t for w, t in zip(pshape, pt)):
            raise TranslateError("%s: unrecognised fallback parameter" % what)
        if ptoks[j + 5].kind != "str" or ptoks[j + 12].kind != "str":
            raise TranslateError("%s: non-literal fallback parameter" % what)
        params.append((parse_bstr(ptoks[j + 5].text), parse_bstr(ptoks[j + 12].text)))
        j += 15
        if j < len(ptoks) and ptoks[j].text == ",":
            j += 1
    if ty.kind != "str" or st.kind != "str":
        raise TranslateError("%s: non-literal fallback type" % what)
    if _texts(body[fc + 1:]) != [")", ";", "(", "mime_type", ",", "base64", ")"]:
        raise TranslateError("%s: unrecognised tail" % what)
    return trim, prefix_if, prefix, skip, enc, qenc, qmark, (parse_bstr(ty.text), parse_bstr(st.text), params)


def read_remove_base64_suffix(toks):
    body, _, _ = fn_body(toks, "remove_base64_suffix")
    what = "remove_base64_suffix"
    ms = _all_matches(body, "byte")
    if len(ms) != 1 or find_seq(body, [".", "filter", "(", "|", "&", "byte", "|", "!", "matches!"]) < 0:
        raise TranslateError("%s: expected one negated tab/newline filter" % what)
    skip = _singles(_alts(ms[0], "bchar", what), what)
    if find_seq(body, ["let", "mut", "iter", "=", "iter", ".", "rev", "(", ")", ";"]) < 0:
        raise TranslateError("%s: the iterator is not reversed" % what)
    exact, nocase = [], []
    skipb = sep = None
    i = 0
    while True:
        i = find_seq(body, ["require!", "("], i)
        if i < 0:
            break
        j = match_close(body, i + 1)
        inner = _texts(body[i + 2:j])
        if sep is not None:
            raise TranslateError("%s: require! after the separator test" % what)
        if inner[:6] == ["iter", ".", "next", "(", ")", "?"] and len(inner) == 8 and inner[6] == "==":
            if nocase:
                raise TranslateError("%s: exact comparison after a case-insensitive one" % what)
            exact.append(parse_bchar(inner[7]))
        elif inner[:10] == ["iter", ".", "next", "(", ")", "?", ".", "eq_ignore_ascii_case", "(", "&"] and len(inner) == 12:
            nocase.append(parse_bchar(inner[10]))
        elif inner[:11] == ["iter", ".", "skip_while", "(", "|", "&", "byte", "|", "byte", "==", inner[10]] and \
                inner[11:] == [")", ".", "next", "(", ")", "?", "==", inner[-1]] and len(inner) == 19:
            skipb = parse_bchar(inner[10])
            sep = parse_bchar(inner[-1])
        else:
            raise TranslateError("%s: unrecognised require! %r" % (what, inner))
        i = j
    if sep is None or not exact and not nocase:
        raise TranslateError("%s: comparisons not found" % what)
    if _texts(body[-11:]) != ["Some", "(", "&", "s", "[", "..", "bytes", ".", "len", "(", ")"] and \
            _texts(body[-13:]) != ["Some", "(", "&", "s", "[", "..", "bytes", ".", "len", "(", ")", "]", ")"]:
        raise TranslateError("%s: unrecognised result slice" % what)
    return skip, exact, nocase, skipb, sep


def read_percent_encode(toks):
    body, _, _ = fn_body(toks, "percent_encode")
    tx = _texts(body)
    want = ["const", "HEX_UPPER", ":", "[", "u8", ";", "16", "]", "=", "*", None, ";",
            "string", ".", "push", "(", "'%'", ")", ";",
            "string", ".", "push", "(", "HEX_UPPER", "[", "(", "byte", ">>", "4", ")", "as", "usize", "]", "as", "char", ")", ";",
            "string", ".", "push", "(", "HEX_UPPER", "[", "(", "byte", "&", "0x0f", ")", "as", "usize", "]", "as", "char", ")", ";"]
    if len(tx) != len(want) or any(w is not None and w != t for w, t in zip(want, tx)) or body[10].kind != "bstr":
        raise TranslateError("percent_encode: unrecognised body")
    hexu = parse_bstr(body[10].text)
    if len(hexu) != 16:
        raise TranslateError("percent_encode: HEX_UPPER has %d bytes" % len(hexu))
    return hexu


def read_to_percent_encoded(toks):
    body, _, _ = fn_body(toks, "to_percent_encoded")
    what = "to_percent_encoded"
    tx = _texts(body)
    head = ["let", "mut", "string", "=", "String", "::", "new", "(", ")", ";", "for", "byte", "in", "self", ".", "0", ".", "bytes", "(", ")", "{"]
    if tx[:len(head)] != head:
        raise TranslateError("%s: unrecognised loop header" % what)
    arms, mi, mclose = _match_arms(body, what)
    if mi != len(head) or tx[mclose + 1:] != ["}", "string"]:
        raise TranslateError("%s: the loop body is not a single match" % what)
    if len(arms) != 3:
        raise TranslateError("%s: expected 3 match arms" % what)
    (p0, g0, e0), (p1, g1, e1), (p2, g2, e2) = arms
    if g0 or _texts(e0) != ["continue"]:
        raise TranslateError("%s: arm 1 is not the tab/newline `continue`" % what)
    skip = _singles(_alts(p0, "bchar", what), what)
    if g1 or not _is_pct(e1):
        raise TranslateError("%s: arm 2 is not percent_encode" % what)
    enc = _alts(p1, "bchar", what)
    if g2 or _texts(p2) != ["_"] or not _is_push(e2):
        raise TranslateError("%s: arm 3 is not `_ => string.push(byte as char)`" % what)
    return skip, enc


def read_process(toks):
    body, _, _ = fn_body(toks, "process")
    want = ["use", "crate", "::", "DataUrlError", "::", "*", ";",
            "let", "after_colon", "=", "pretend_parse_data_url", "(", "input", ")", ".", "ok_or", "(", "NotADataUrl", ")", "?", ";",
            "let", "(", "from_colon_to_comma", ",", "encoded_body_plus_fragment", ")", "=",
            "find_comma_before_fragment", "(", "after_colon", ")", ".", "ok_or", "(", "NoComma", ")", "?", ";",
            "let", "(", "mime_type", ",", "base64", ")", "=", "parse_header", "(", "from_colon_to_comma", ")", ";",
            "Ok", "(", "DataUrl", "{", "mime_type", ",", "base64", ",", "encoded_body_plus_fragment", ",", "}", ")"]
    if _texts(body) != want:
        raise TranslateError("DataUrl::process: unrecognised body")


def _pairs(rs):
    return "[" + "; ".join("(%d, %d)" % r for r in rs) + "]"


def extend(repo, V, J):
    toks = tokenize(read(repo, LIB))
    read_process(toks)
    lim, skip_a, scheme, colon = read_pretend_parse(toks)
    comma, hash_ = read_find_comma(toks)
    trim, prefix_if, prefix, skip_b, enc, qenc, qmark, fallback = read_parse_header(toks)
    skip_c, exact, nocase, skipb, sep = read_remove_base64_suffix(toks)
    hexu = read_percent_encode(toks)
    skip_d, fenc = read_to_percent_encoded(toks)
    if not (sorted(skip_a) == sorted(skip_b) == sorted(skip_c) == sorted(skip_d)):
        raise TranslateError("data-url: the four tab/newline lists differ: %r %r %r %r" % (skip_a, skip_b, skip_c, skip_d))
    fty, fst, fparams = fallback
    V.append("(* ---- data: URL header processing (data-url/src/lib.rs) ---- *)")
    V.append("Definition T_DU_TRIM_MAX : N := %d." % lim)
    V.append("Definition T_DU_SKIP : list N := %s." % coq_list(skip_a))
    V.append("Definition T_DU_SCHEME : list N := %s." % coq_list(scheme))
    V.append("Definition T_DU_COLON : N := %d." % colon)
    V.append("Definition T_DU_COMMA : N := %d." % comma)
    V.append("Definition T_DU_HASH : N := %d." % hash_)
    V.append("Definition T_DU_HDR_TRIM : list N := %s." % coq_list(trim))
    V.append("Definition T_DU_HDR_PREFIX_IF : N := %d." % prefix_if)
    V.append("Definition T_DU_HDR_PREFIX : list N := %s." % coq_list(prefix))
    V.append("Definition T_DU_HDR_ENC : list (N * N) := %s." % _pairs(enc))
    V.append("Definition T_DU_HDR_QENC : list N := %s." % coq_list(qenc))
    V.append("Definition T_DU_HDR_QMARK : N := %d." % qmark)
    V.append("Definition T_DU_FALLBACK_TYPE : list N := %s." % coq_list(fty))
    V.append("Definition T_DU_FALLBACK_SUBTYPE : list N := %s." % coq_list(fst))
    V.append("Definition T_DU_FALLBACK_PARAMS : list (list N * list N) := [%s]." %
             "; ".join("(%s, %s)" % (coq_list(n), coq_list(v)) for n, v in fparams))
    V.append("Definition T_DU_B64_EXACT : list N := %s." % coq_list(exact))
    V.append("Definition T_DU_B64_NOCASE : list N := %s." % coq_list(nocase))
    V.append("Definition T_DU_B64_SKIP : N := %d." % skipb)
    V.append("Definition T_DU_B64_SEP : N := %d." % sep)
    V.append("Definition T_DU_HEX_UPPER : list N := %s." % coq_list(hexu))
    V.append("Definition T_DU_FRAG_ENC : list (N * N) := %s." % _pairs(fenc))
    V.append("")
    J["du_trim_max"] = lim
    J["du_skip"] = skip_a
    J["du_scheme"] = scheme
    J["du_colon"] = colon
    J["du_comma"] = comma
    J["du_hash"] = hash_
    J["du_hdr_trim"] = trim
    J["du_hdr_prefix"] = prefix
    J["du_hdr_enc"] = [list(r) for r in enc]
    J["du_hdr_qenc"] = qenc
    J["du_hdr_qmark"] = qmark
    J["du_fallback"] = [fty, fst, [[n, v] for n, v in fparams]]
    J["du_b64_exact"] = exact
    J["du_b64_nocase"] = nocase
    J["du_b64_skip"] = skipb
    J["du_b64_sep"] = sep
    J["du_hex_upper"] = hexu
    J["du_frag_enc"] = [list(r) for r in fenc]
