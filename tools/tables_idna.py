"""Table reader for C10-C12: the constants of idna/src/uts46.rs (and the characters handled by
map_transitional in idna/src/deprecated.rs).

Emits (all `N` unless said otherwise)
  T_IDNA_DECODE_MAX  T_IDNA_ENCODE_MAX                 <- PUNYCODE_{DECODE,ENCODE}_MAX_INPUT_LENGTH
  T_IDNA_UPPER_MASK  T_IDNA_GLYPHLESS_MASK  T_IDNA_LDH_MASK  T_IDNA_DOT_MASK
        <- the `if` conditions of upper_case_mask / glyphless_mask / ldh_mask evaluated for b in 0..128,
           `const DOT_MASK`
  T_IDNA_PREFIX  T_IDNA_PREFIX_MASK                    <- PUNYCODE_PREFIX, PUNYCODE_PREFIX_MASK
  T_IDNA_EMPTY_GLYPHLESS T_IDNA_URL_GLYPHLESS : bool, T_IDNA_EMPTY_LIST T_IDNA_URL_LIST : list N
        <- the arguments of AsciiDenyList::new in `const EMPTY` / `const URL`
  T_IDNA_STD3_IS_LDH : bool                            <- `const STD3 = AsciiDenyList { bits: ldh_mask() }`
  T_IDNA_NEW_FORBIDDEN : list N   <- the bytes AsciiDenyList::new asserts against, from its assert! conditions
                                      evaluated for b in 0..256
  T_IDNA_DNS_TOTAL T_IDNA_DNS_LABEL                    <- the two `.len() > K` of verify_dns_length
  T_IDNA_BIDI_BELOW, T_IDNA_BIDI_SKIP : list (N * N)   <- fn is_bidi
  T_IDNA_JOINER_LO T_IDNA_JOINER_HI                    <- check_label's in_inclusive_range_char(c, ZWNJ, ZWJ)
  T_IDNA_TRANS : list (N * list N)                     <- the inner match of map_transitional
Fails closed on any other shape.
"""
from rustlex import TranslateError, tokenize, parse_int, parse_bchar, parse_bstr, find_seq, match_close, until_semicolon, fn_body
from tablib import read, eval_u32, split_commas, coq_list

SRC = "idna/src/uts46.rs"
DEP = "idna/src/deprecated.rs"


def lit(tok):
    if tok.kind == "num":
        return parse_int(tok.text)
    if tok.kind in ("bchar", "char"):
        return parse_bchar(tok.text)
    raise TranslateError("idna: expected a literal, got %r (line %d)" % (tok.text, tok.line))


def eval_cond(toks, b):
    """boolean expression over the variable b: literals, comparisons, && || ! ( )"""
    pos = [0]

    def peek():
        return toks[pos[0]].text if pos[0] < len(toks) else None

    def take():
        t = toks[pos[0]]
        pos[0] += 1
        return t

    def term():
        t = take()
        if t.text == "b":
            return b
        return lit(t)

    def atom():
        if peek() == "!":
            take()
            return not atom()
        if peek() == "(":
            save = pos[0]
            take()
            v = disj()
            if peek() == ")":
                take()
                # a parenthesised comparison operand is not supported: conditions only
                return v
            pos[0] = save
            raise TranslateError("idna: unsupported condition near line %d" % toks[save].line)
        l = term()
        op = take().text
        r = term()
        if op == ">=":
            return l >= r
        if op == "<=":
            return l <= r
        if op == "==":
            return l == r
        if op == "!=":
            return l != r
        if op == "<":
            return l < r
        if op == ">":
            return l > r
        raise TranslateError("idna: unsupported comparison %r" % op)

    def conj():
        v = atom()
        while peek() == "&&":
            take()
            r = atom()
            v = v and r
        return v

    def disj():
        v = conj()
        while peek() == "||":
            take()
            r = conj()
            v = v or r
        return v

    v = disj()
    if pos[0] != len(toks):
        raise TranslateError("idna: trailing tokens in condition at line %d" % toks[pos[0]].line)
    return bool(v)


def mask_fn(toks, name):
    """const fn NAME() -> u128 { accu=0; b=0; while b < 128 { if COND { accu |= 1u128 << b; } b += 1; } accu }"""
    body, _, _ = fn_body(toks, name)
    texts = [t.text for t in body]
    i = find_seq(body, ["while", "b", "<", "128"])
    if i < 0 or texts[:10] != ["let", "mut", "accu", "=", "0u128", ";", "let", "mut", "b", "="]:
        raise TranslateError("idna %s: unexpected shape" % name)
    j = find_seq(body, ["if"], i)
    k = j + 1
    depth = 0
    while not (body[k].text == "{" and depth == 0):
        if body[k].text == "(":
            depth += 1
        elif body[k].text == ")":
            depth -= 1
        k += 1
    cond = body[j + 1:k]
    close = match_close(body, k)
    if [t.text for t in body[k + 1:close]] != ["accu", "|=", "1u128", "<<", "b", ";"]:
        raise TranslateError("idna %s: unexpected loop body" % name)
    if [t.text for t in body[close + 1:]] != ["b", "+=", "1", ";", "}", "accu"]:
        raise TranslateError("idna %s: unexpected tail" % name)
    members = [b for b in range(128) if eval_cond(cond, b)]
    return sum(1 << b for b in members), members


def const_u32(toks, name):
    i = find_seq(toks, ["const", name, ":", "u32", "="])
    if i < 0:
        raise TranslateError("idna: const %s not found" % name)
    e, _ = until_semicolon(toks, i + 5)
    # drop `as u32` casts and turn `b'x' as u32` into the literal
    out = []
    k = 0
    while k < len(e):
        if e[k].text == "as" and k + 1 < len(e) and e[k + 1].text == "u32":
            k += 2
            continue
        out.append(e[k])
        k += 1
    return eval_u32(out)


def const_usize(toks, name):
    i = find_seq(toks, ["const", name, ":", "usize", "="])
    if i < 0:
        raise TranslateError("idna: const %s not found" % name)
    e, _ = until_semicolon(toks, i + 5)
    if len(e) != 1 or e[0].kind != "num":
        raise TranslateError("idna: const %s is not a literal" % name)
    return parse_int(e[0].text)


def deny_new_args(toks, name):
    i = find_seq(toks, ["pub", "const", name, ":", "AsciiDenyList", "=", "AsciiDenyList", "::", "new", "("])
    if i < 0:
        raise TranslateError("idna: const %s = AsciiDenyList::new(..) not found" % name)
    j = i + 9
    k = match_close(toks, j)
    args = split_commas(toks[j + 1:k])
    if len(args) != 2 or len(args[0]) != 1 or args[0][0].text not in ("true", "false") or len(args[1]) != 1 or args[1][0].kind != "str":
        raise TranslateError("idna: const %s: unexpected arguments" % name)
    return args[0][0].text == "true", parse_bstr(args[1][0].text)


def new_forbidden(toks):
    """the assert! conditions inside AsciiDenyList::new, evaluated for every byte"""
    i = find_seq(toks, ["pub", "const", "fn", "new", "(", "deny_glyphless"])
    if i < 0:
        raise TranslateError("idna: AsciiDenyList::new not found")
    body, _, _ = fn_body(toks, "new", i)
    texts = [t.text for t in body]
    if texts[:6] != ["let", "mut", "bits", "=", "UPPER_CASE_MASK", ";"]:
        raise TranslateError("idna new: does not start from UPPER_CASE_MASK")
    g = find_seq(body, ["if", "deny_glyphless", "{", "bits", "|=", "GLYPHLESS_MASK", ";", "}"])
    if g < 0:
        raise TranslateError("idna new: glyphless step not found")
    if find_seq(body, ["bits", "|=", "1u128", "<<", "b", ";"]) < 0:
        raise TranslateError("idna new: bit-setting step not found")
    conds = []
    k = 0
    while True:
        a = find_seq(body, ["assert!", "("], k)
        if a < 0:
            break
        c = match_close(body, a + 1)
        parts = split_commas(body[a + 2:c])
        conds.append(parts[0])
        k = c
    if len(conds) != 6:
        raise TranslateError("idna new: expected 6 assert! conditions, found %d" % len(conds))
    return [b for b in range(256) if not all(eval_cond(c, b) for c in conds)]


def dns_limits(toks):
    body, _, _ = fn_body(toks, "verify_dns_length")
    out = []
    k = 0
    while True:
        a = find_seq(body, ["len", "(", ")", ">"], k)
        if a < 0:
            break
        out.append(lit(body[a + 4]))
        k = a + 4
    if len(out) != 2:
        raise TranslateError("idna verify_dns_length: expected two `.len() > K` tests")
    if find_seq(body, ["strip_suffix", "(", 'b"."', ")"]) < 0 or find_seq(body, ["split", "(", "|", "b", "|", "*", "b", "==", "b'.'", ")"]) < 0:
        raise TranslateError("idna verify_dns_length: unexpected shape")
    return out[0], out[1]


def bidi_ranges(toks):
    body, _, _ = fn_body(toks, "is_bidi")
    a = find_seq(body, ["if", "c", "<"])
    if a < 0:
        raise TranslateError("idna is_bidi: no lower threshold")
    below = lit(body[a + 3])
    rs = []
    k = 0
    while True:
        a = find_seq(body, ["if", "in_inclusive_range_char", "(", "c", ","], k)
        if a < 0:
            break
        rs.append((lit(body[a + 5]), lit(body[a + 7])))
        k = a + 5
    if len(rs) != 4:
        raise TranslateError("idna is_bidi: expected four skipped ranges")
    return below, rs


def joiner_range(toks):
    body, _, _ = fn_body(toks, "check_label")
    a = find_seq(body, ["!", "in_inclusive_range_char", "(", "c", ","])
    if a < 0:
        raise TranslateError("idna check_label: joiner range not found")
    return lit(body[a + 5]), lit(body[a + 7])


def transitional(dtoks):
    body, _, _ = fn_body(dtoks, "map_transitional")
    # outer trigger arm and inner match
    a = find_seq(body, ["match", "c", "{"])
    if a < 0:
        raise TranslateError("idna map_transitional: no outer match")
    arrow = find_seq(body, ["=>"], a)
    trig = [lit(t) for t in body[a + 3:arrow] if t.text != "|"]
    b = find_seq(body, ["match", "c", "{"], arrow)
    if b < 0:
        raise TranslateError("idna map_transitional: no inner match")
    close = match_close(body, b + 2)
    rows = []
    i = b + 3
    saw_default = False
    while i < close:
        arrow = find_seq(body, ["=>"], i)
        pats = body[i:arrow]
        if body[arrow + 1].text != "{":
            raise TranslateError("idna map_transitional: arm without block")
        e = match_close(body, arrow + 1)
        blk = [t.text for t in body[arrow + 2:e]]
        if [p.text for p in pats] == ["_"]:
            if blk != ["s", ".", "push", "(", "c", ")", ";"]:
                raise TranslateError("idna map_transitional: default arm is not push(c)")
            saw_default = True
        else:
            cs = [lit(p) for p in pats if p.text != "|"]
            if blk == []:
                rep = []
            elif blk[:4] == ["s", ".", "push_str", "("] and len(blk) == 7:
                rep = [ord(ch) for ch in bytes(parse_bstr(blk[4])).decode("utf-8")]
            elif blk[:4] == ["s", ".", "push", "("] and len(blk) == 7:
                rep = [lit(body[arrow + 2 + 4])]
            else:
                raise TranslateError("idna map_transitional: unsupported arm %s" % " ".join(blk))
            for c in cs:
                rows.append((c, rep))
        i = e + 1
        if i < close and body[i].text == ",":
            i += 1
    if not saw_default:
        raise TranslateError("idna map_transitional: no default arm")
    if sorted(trig) != sorted(c for c, _ in rows):
        raise TranslateError("idna map_transitional: trigger set differs from the rewritten set")
    return rows


def extend(repo, V, J):
    toks = tokenize(read(repo, SRC))
    dtoks = tokenize(read(repo, DEP))
    V.append("(* ---- UTS #46 constants (%s, %s) ---- *)" % (SRC, DEP))
    dec_max = const_usize(toks, "PUNYCODE_DECODE_MAX_INPUT_LENGTH")
    enc_max = const_usize(toks, "PUNYCODE_ENCODE_MAX_INPUT_LENGTH")
    upper, _ = mask_fn(toks, "upper_case_mask")
    glyph, _ = mask_fn(toks, "glyphless_mask")
    ldh, _ = mask_fn(toks, "ldh_mask")
    i = find_seq(toks, ["const", "DOT_MASK", ":", "u128", "="])
    if i < 0:
        raise TranslateError("idna: DOT_MASK not found")
    e, _ = until_semicolon(toks, i + 5)
    if [t.text for t in e[:2]] != ["1", "<<"] or len(e) != 3:
        raise TranslateError("idna: DOT_MASK unexpected shape")
    dot = 1 << lit(e[2])
    for nm, fn in (("UPPER_CASE_MASK", "upper_case_mask"), ("GLYPHLESS_MASK", "glyphless_mask")):
        if find_seq(toks, ["const", nm, ":", "u128", "=", fn, "(", ")", ";"]) < 0:
            raise TranslateError("idna: const %s = %s() not found" % (nm, fn))
    prefix = const_u32(toks, "PUNYCODE_PREFIX")
    pmask = const_u32(toks, "PUNYCODE_PREFIX_MASK")
    eg, el = deny_new_args(toks, "EMPTY")
    ug, ul = deny_new_args(toks, "URL")
    std3 = find_seq(toks, ["pub", "const", "STD3", ":", "AsciiDenyList", "=", "AsciiDenyList", "{", "bits", ":", "ldh_mask", "(", ")", "}"]) >= 0
    if not std3:
        raise TranslateError("idna: const STD3 is not AsciiDenyList { bits: ldh_mask() }")
    forb = new_forbidden(toks)
    total, label = dns_limits(toks)
    below, skips = bidi_ranges(toks)
    jlo, jhi = joiner_range(toks)
    trans = transitional(dtoks)
    b = lambda x: "true" if x else "false"
    V.append("Definition T_IDNA_DECODE_MAX : N := %d." % dec_max)
    V.append("Definition T_IDNA_ENCODE_MAX : N := %d." % enc_max)
    V.append("Definition T_IDNA_UPPER_MASK : N := %d." % upper)
    V.append("Definition T_IDNA_GLYPHLESS_MASK : N := %d." % glyph)
    V.append("Definition T_IDNA_LDH_MASK : N := %d." % ldh)
    V.append("Definition T_IDNA_DOT_MASK : N := %d." % dot)
    V.append("Definition T_IDNA_PREFIX : N := %d." % prefix)
    V.append("Definition T_IDNA_PREFIX_MASK : N := %d." % pmask)
    V.append("Definition T_IDNA_EMPTY_GLYPHLESS : bool := %s." % b(eg))
    V.append("Definition T_IDNA_EMPTY_LIST : list N := %s." % coq_list(el))
    V.append("Definition T_IDNA_URL_GLYPHLESS : bool := %s." % b(ug))
    V.append("Definition T_IDNA_URL_LIST : list N := %s." % coq_list(ul))
    V.append("Definition T_IDNA_STD3_IS_LDH : bool := true.")
    V.append("Definition T_IDNA_NEW_FORBIDDEN : list N := %s." % coq_list(forb))
    V.append("Definition T_IDNA_DNS_TOTAL : N := %d." % total)
    V.append("Definition T_IDNA_DNS_LABEL : N := %d." % label)
    V.append("Definition T_IDNA_BIDI_BELOW : N := %d." % below)
    V.append("Definition T_IDNA_BIDI_SKIP : list (N * N) := [%s]." % "; ".join("(%d, %d)" % r for r in skips))
    V.append("Definition T_IDNA_JOINER_LO : N := %d." % jlo)
    V.append("Definition T_IDNA_JOINER_HI : N := %d." % jhi)
    V.append("Definition T_IDNA_TRANS : list (N * list N) := [%s]." % "; ".join("(%d, %s)" % (c, coq_list(r)) for c, r in trans))
    V.append("")
    J["idna"] = {"decode_max": dec_max, "encode_max": enc_max, "upper_mask": str(upper), "glyphless_mask": str(glyph),
                 "ldh_mask": str(ldh), "dot_mask": str(dot), "prefix": prefix, "prefix_mask": pmask,
                 "empty": [eg, el], "url": [ug, ul], "new_forbidden": forb, "dns": [total, label],
                 "bidi_below": below, "bidi_skip": [list(r) for r in skips], "joiner": [jlo, jhi],
                 "trans": [[c, r] for c, r in trans]}
