"""Table reader for C13: the Bootstring parameters and the digit mappings of idna/src/punycode.rs.

Emits  T_PUNY_BASE T_PUNY_T_MIN T_PUNY_T_MAX T_PUNY_SKEW T_PUNY_DAMP T_PUNY_INITIAL_BIAS
T_PUNY_INITIAL_N : N,  and three range tables of rows (lo, hi, minus, plus) meaning
"lo <= x <= hi  =>  x - minus + plus":
  T_PUNY_DIGIT_U8     <- impl PunycodeCodeUnit for u8   :: digit
  T_PUNY_DIGIT_CHAR   <- impl PunycodeCodeUnit for char :: digit
  T_PUNY_VALUE_TO_DIGIT <- fn value_to_digit
Fails closed on any other shape.
"""
from rustlex import TranslateError, tokenize, parse_int, parse_bchar, find_seq, match_close, until_semicolon, fn_body
from tablib import read, split_commas

SRC = "idna/src/punycode.rs"
CONSTS = ["BASE", "T_MIN", "T_MAX", "SKEW", "DAMP", "INITIAL_BIAS", "INITIAL_N"]


def lit(tok):
    if tok.kind == "num":
        return parse_int(tok.text)
    if tok.kind in ("bchar", "char"):
        return parse_bchar(tok.text)
    raise TranslateError("punycode: expected a literal, got %r (line %d)" % (tok.text, tok.line))


def strip_from(toks):
    """u32 :: from ( X )  ->  X   (single-token X only)"""
    out = []
    i = 0
    while i < len(toks):
        if [t.text for t in toks[i:i + 4]] == ["u32", "::", "from", "("] and i + 5 < len(toks) + 1 and toks[i + 5].text == ")":
            out.append(toks[i + 4])
            i += 6
        else:
            out.append(toks[i])
            i += 1
    return out


def match_arms(body, what):
    """arms of the first `match` in a fn body: list of (pattern tokens, expression tokens)"""
    i = find_seq(body, ["match"])
    if i < 0:
        raise TranslateError("punycode %s: no match" % what)
    j = i
    while body[j].text != "{":
        j += 1
    k = match_close(body, j)
    arms = []
    for arm in split_commas(body[j + 1:k]):
        a = find_seq(arm, ["=>"])
        if a < 0:
            raise TranslateError("punycode %s: arm without =>" % what)
        arms.append((arm[:a], arm[a + 1:]))
    return arms


def affine(expr, var, what):
    """var [- L] [+ L]  ->  (minus, plus)"""
    texts = [t.text for t in expr]
    if not texts or texts[0] != var:
        raise TranslateError("punycode %s: expression does not start with %s: %s" % (what, var, " ".join(texts)))
    minus = plus = 0
    i = 1
    seen = []
    while i < len(expr):
        op = expr[i].text
        if op not in ("-", "+") or i + 1 >= len(expr):
            raise TranslateError("punycode %s: unsupported expression %s" % (what, " ".join(texts)))
        v = lit(expr[i + 1])
        seen.append(op)
        if op == "-":
            if plus:
                raise TranslateError("punycode %s: subtraction after addition (order matters for u8/u32)" % what)
            minus += v
        else:
            plus += v
        i += 2
    return minus, plus


def digit_table(toks, ty):
    i = find_seq(toks, ["impl", "PunycodeCodeUnit", "for", ty])
    if i < 0:
        raise TranslateError("punycode: impl PunycodeCodeUnit for %s not found" % ty)
    body, _, _ = fn_body(toks, "digit", i)
    rows = []
    saw_default = False
    for pat, expr in match_arms(body, "digit(%s)" % ty):
        pt = [t.text for t in pat]
        if pt == ["_"]:
            if [t.text for t in expr] != ["return", "None"]:
                raise TranslateError("punycode digit(%s): default arm is not `return None`" % ty)
            saw_default = True
            continue
        if len(pat) != 5 or pt[1] != "@" or pt[3] != "..=":
            raise TranslateError("punycode digit(%s): unsupported pattern %s" % (ty, " ".join(pt)))
        var = pt[0]
        lo, hi = lit(pat[2]), lit(pat[4])
        minus, plus = affine(strip_from(expr), var, "digit(%s)" % ty)
        if minus > lo:
            raise TranslateError("punycode digit(%s): arm underflows" % ty)
        rows.append((lo, hi, minus, plus))
    if not saw_default:
        raise TranslateError("punycode digit(%s): no default arm" % ty)
    return rows


def value_to_digit_table(toks):
    body, _, _ = fn_body(toks, "value_to_digit")
    rows = []
    saw_panic = False
    for pat, expr in match_arms(body, "value_to_digit"):
        pt = [t.text for t in pat]
        if pt == ["_"]:
            if [t.text for t in expr][:1] != ["panic!"]:
                raise TranslateError("punycode value_to_digit: default arm is not panic!()")
            saw_panic = True
            continue
        if len(pat) != 3 or pt[1] != "..=":
            raise TranslateError("punycode value_to_digit: unsupported pattern %s" % " ".join(pt))
        lo, hi = lit(pat[0]), lit(pat[2])
        et = [t.text for t in expr]
        # ( value as u8 [- n] + b'c' ) as char
        if et[0] != "(" or et[-3:] != [")", "as", "char"] or et[1:4] != ["value", "as", "u8"]:
            raise TranslateError("punycode value_to_digit: unsupported expression %s" % " ".join(et))
        inner = [expr[1]] + expr[4:-3]
        minus, plus = affine(inner, "value", "value_to_digit")
        if minus > lo or hi - minus + plus > 255:
            raise TranslateError("punycode value_to_digit: arm leaves the u8 range")
        rows.append((lo, hi, minus, plus))
    if not saw_panic:
        raise TranslateError("punycode value_to_digit: no panicking default arm")
    return rows


def rows_coq(rows):
    return "[" + "; ".join("(%d, %d, %d, %d)" % r for r in rows) + "]"


def extend(repo, V, J):
    toks = tokenize(read(repo, SRC))
    V.append("(* ---- Punycode parameters and digit tables (%s) ---- *)" % SRC)
    consts = {}
    for name in CONSTS:
        i = find_seq(toks, ["const", name, ":", "u32", "="])
        if i < 0:
            raise TranslateError("punycode: const %s: u32 not found" % name)
        e, _ = until_semicolon(toks, i + 5)
        if len(e) != 1 or e[0].kind != "num":
            raise TranslateError("punycode: const %s is not a literal" % name)
        consts[name] = parse_int(e[0].text)
        V.append("Definition T_PUNY_%s : N := %d." % (name, consts[name]))
    u8 = digit_table(toks, "u8")
    ch = digit_table(toks, "char")
    v2d = value_to_digit_table(toks)
    V.append("Definition T_PUNY_DIGIT_U8 : list (N * N * N * N) := %s." % rows_coq(u8))
    V.append("Definition T_PUNY_DIGIT_CHAR : list (N * N * N * N) := %s." % rows_coq(ch))
    V.append("Definition T_PUNY_VALUE_TO_DIGIT : list (N * N * N * N) := %s." % rows_coq(v2d))
    V.append("")
    J["punycode"] = {"consts": consts, "digit_u8": [list(r) for r in u8], "digit_char": [list(r) for r in ch],
                     "value_to_digit": [list(r) for r in v2d]}
