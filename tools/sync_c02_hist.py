"""regenerate harness/src/bin/c02/hist.rs from harness/src/bin/urlhist.rs (verbatim minus main)"""
import os
root = os.path.dirname(os.path.dirname(os.path.abspath(__file__)))
src = os.path.join(root, "harness", "src", "bin", "urlhist.rs")
dst = os.path.join(root, "harness", "src", "bin", "c02", "hist.rs")
s = open(src).read()
s = s.replace("//! ", "// ", 3)
s = s[:s.index("fn main() {")]
for f in ("run_streams", "run_known", "run_replay"):
    s = s.replace("\nfn %s(" % f, "\npub fn %s(" % f)
# C02 only: the history search does not evaluate the property on steps of the class Known_F_C02_9 (main.rs)
old = '        "C02" => prop_c02(after),\n        "C03" => prop_c03(after, Some(before))'
new = ('        "C02" => if super::known_step_c02(before, op) { None } else { prop_c02(after) },\n'
       '        "C03" => prop_c03(after, Some(before))')
assert old in s
s = s.replace(old, new, 1)
hdr = ("// COPY of harness/src/bin/urlhist.rs (everything but `main`; run_streams / run_known / run_replay made pub;\n"
       "// the C02 arm of property_on_step skips the class Known_F_C02_9)\n"
       "// so that the C02 bin can run the history streams next to its parse streams.  Keep in sync:\n"
       "//   python3 tools/sync_c02_hist.py\n")
open(dst, "w").write(hdr + s)
