"""regenerate harness/src/bin/c02/hist.rs from harness/src/bin/urlhist.rs (verbatim minus main)"""
import os
root = os.path.dirname(os.path.dirname(os.path.abspath(__file__)))
src = os.path.join(root, "harness", "src", "bin", "urlhist.rs")
dst = os.path.join(root, "harness", "src", "bin", "c02", "hist.rs")
s = open(src).read()
s = s.replace("//! ", "// ", 3)
s = s[:s.index("fn main() {")]
for f in ("run_streams", "run_known", "run_replay"):
    s = s.replace("\nfn %s(" % f, "\npub fn %s(" % f)
hdr = ("// COPY of harness/src/bin/urlhist.rs (everything but `main`; run_streams / run_known / run_replay made pub)\n"
       "// so that the C02 bin can run the history streams next to its parse streams.  Keep in sync:\n"
       "//   python3 tools/sync_c02_hist.py\n")
open(dst, "w").write(hdr + s)
