#!/usr/bin/env python3
"""Second route of the model tie (DESIGN.md section 4.2): the SAME request lines that the extracted OCaml driver
answers are evaluated inside Coq with vm_compute, and the two answers are compared.  This takes extraction, the
OCaml compiler and the driver's glue out of the trusted base for the requests it covers.

  tools/vmroute.py <C13|C14|C15|C18|C19|C20> [max_cases]      exit 0 = all agree, 1 = a difference (printed), 2 = could not run

Covered request kinds (the codecs, whose results are plain lists of numbers):
  C14  enc <set> <bytes>   -> encode, pe_display          dec <bytes> -> decode, utf8_lossy (decode)
  C13  enc <cfg> <scalars> -> encode                      dec <cfg> <bytes> -> decode
  C15  parse <bytes>       -> parse (pairs, flattened)    byteser <bytes> -> bser      serpairs n:v ... -> serialize_pairs
  C18  dec <bytes>         -> decode_to_vec (ok part)     spec <bytes> -> forgiving_base64_decode
  C20  path <dbg> <p>      -> from_file_path / from_directory_path (outcome kind, serialization), to_file_path of each
       pathjoin / patheq / name
  C19  parse <s> <q>       -> Mime parse (outcome kind; type, subtype, parameters flattened; Display; get_parameter q)
Requests come from corpus/<Cxx>/cases.txt (lines of those kinds) plus a fixed built-in list, so the run is
deterministic.  Called by tools/orchestrate.py in the thorough tier; a difference is reported as a broken tie.
"""
import os
import re
import subprocess
import sys

ROOT = os.path.dirname(os.path.dirname(os.path.abspath(__file__)))
COQ = os.path.join(ROOT, "coq")
OUT = os.path.join(ROOT, "build", "vmroute")

DRIVER = {"C13": "c13_driver", "C14": "c14_driver", "C15": "c15_driver", "C18": "c18_driver", "C19": "c19_driver", "C20": "c20_driver"}
IMPORTS = {
    "C13": "From RU Require Import Base.Prelude Base.Utf8 Base.U32_c13 Gen.Tables Model.Punycode.",
    "C14": "From RU Require Import Base.Prelude Base.Utf8 Model.AsciiSet Gen.Tables Model.PercentEncoding.",
    "C15": "From RU Require Import Base.Prelude Base.Utf8 Base.Outcome_c15 Model.AsciiSet Gen.Tables Model.PercentEncoding Model.FormUrlencoded.\n"
           "Definition flat_pairs (l : list (list N * list N)) : list N :=\n"
           "  flat_map (fun p => N.of_nat (length (fst p)) :: fst p ++ N.of_nat (length (snd p)) :: snd p) l.",
    "C18": "From RU Require Import Base.Prelude Gen.Tables Model.Base64 Spec.Infra.",
    "C20": "From RU Require Import Base.Prelude Base.Utf8 Model.AsciiSet Gen.Tables Model.PercentEncoding Model.HostT Model.UrlRecord Model.Parser Model.FilePath.\n"
           "Definition fk {A} (r : fres A) : N := match r with FOk _ => 0 | FErr => 1 | FPanic => 2 end.\n"
           "Definition fser (r : fres url) : option (list N) := match r with FOk u => Some (ser u) | _ => None end.\n"
           "Definition fto (d : bool) (r : fres url) : option (list N) :=\n"
           "  match r with FOk u => match to_file_path d u with FOk p => Some (0 :: p) | FErr => Some [1] | FPanic => Some [2] end | _ => None end.",
    "C19": "From RU Require Import Base.Prelude Base.Utf8 Gen.Tables Model.Mime.\n"
           "Definition flat_mime (m : mime) : list N :=\n"
           "  N.of_nat (length (m_type m)) :: m_type m ++ N.of_nat (length (m_subtype m)) :: m_subtype m ++\n"
           "  flat_map (fun p => N.of_nat (length (fst p)) :: fst p ++ N.of_nat (length (snd p)) :: snd p) (m_params m).",
}


def hexl(bs):
    return "-" if not bs else ".".join("%x" % b for b in bs)


def builtin(prop):
    t = lambda s: list(s.encode("utf-8"))
    if prop == "C14":
        path = [0x20, 0x22, 0x23, 0x3c, 0x3e, 0x3f, 0x60, 0x7b, 0x7d, 0x25]
        r = []
        for s in ["", "a b", "%", "100%25", "café", "a?b#c", "\x7f\x00", "%zz%4", "%41%c3%a9%C3", "\U0001f600"]:
            r.append("enc %s %s" % (hexl(path), hexl(t(s))))
            r.append("enc - %s" % hexl(t(s)))
            r.append("dec %s" % hexl(t(s)))
        r.append("dec %s" % hexl([0x25, 0xff, 0x25, 0x34, 0x31, 0x80]))
        return r
    if prop == "C13":
        r = []
        for s in ["", "abc", "bücher", "中文", "a-b", "é", "München-Ost", "\U0001f600x"]:
            cps = [ord(c) for c in s]
            for cfg in "01":
                r.append("enc %s %s" % (cfg, hexl(cps)))
        for p in ["", "abc-", "bcher-kva", "fiq228c", "a-b-", "99999999", "zzzzzzzz", "Mnchen-Ost-9db", "-", "--", "a"]:
            for cfg in "01":
                r.append("dec %s %s" % (cfg, hexl(t(p))))
        return r
    if prop == "C15":
        r = []
        for p in ["", "a=b", "a=b&c=d", "&&a", "a+b=%41%zz+", "=", "a==b&=c", "caf%C3%A9=%ff+x", "a&b=&=c&", "x=1;y=2", "\u00e9=\U0001f600"]:
            r.append("parse %s" % hexl(t(p)))
            r.append("byteser %s" % hexl(t(p)))
        r.append("serpairs %s:%s %s:%s" % (hexl(t("foo")), hexl(t("bar & baz")), hexl(t("saison")), hexl(t("\u00c9t\u00e9+hiver"))))
        r.append("serpairs -:-")
        r.append("serpairs %s:- -:%s" % (hexl(t("*-._~")), hexl(t(" \n%"))))
        return r
    if prop == "C20":
        r = []
        for p in ["/", "/a/b", "/a/../b/./c", "rel/x", "", "/a b/%41?#", "/caf\u00e9/\U0001f600", "//x//y/", "/C:/x", "/a/b/", "/\xff\xfe"]:
            b = list(p.encode("utf-8")) if "\xff" not in p else [0x2f, 0xff, 0xfe]
            for d in "01":
                r.append("path %s %s" % (d, hexl(b)))
            r.append("pathjoin %s %s" % (hexl(b), hexl(t("x/y"))))
            r.append("patheq %s %s" % (hexl(b), hexl(t("/a/b"))))
            r.append("name %s" % hexl(b))
        return r
    if prop == "C19":
        r = []
        for p in ["", "text/plain", "text/plain;charset=utf-8", "a/b;x=\"a;\\\";c\"", " Text/HTML ; Charset=\"UTF-8\" ", "a/b;x=1;x=2;;y", "a/b;x=\"a\\", "/b", "a/", "a/b/c",
                  "a/b;=1;x", "a/b;x=\u00e9", "a b/c", "a/b;x=\"\"", "a/b;x=a b"]:
            r.append("parse %s %s" % (hexl([ord(c) for c in p]), hexl(t("x"))))
        return r
    if prop == "C18":
        r = []
        for p in ["", "YQ==", "YQ", "YWJj", "Y W J j\n", "YQ=", "YQ===", "Y", "YQ==YQ", "=", "ab\x0ccd", "ab.d", "AAAA////++++", "YWJjZA=="]:
            r.append("dec %s" % hexl(t(p)))
            r.append("spec %s" % hexl(t(p)))
        return r
    raise SystemExit(2)


def generated(prop, n=300):
    """deterministic pseudo-random requests (fixed LCG, no seed): class alphabets of each codec"""
    st = [0x9E3779B97F4A7C15]

    def rnd(k):
        st[0] = (st[0] * 6364136223846793005 + 1442695040888963407) % (1 << 64)
        return (st[0] >> 33) % k
    r = []
    for _ in range(n):
        ln = rnd(14)
        if prop == "C14":
            al = [0x25, 0x34, 0x31, 0x63, 0x33, 0x61, 0x39, 0x20, 0x2f, 0x3f, 0x7f, 0x80, 0xc3, 0xa9, 0xff, 0x00, 0x7a, 0x5a]
            b = [al[rnd(len(al))] for _ in range(ln)]
            sets = ["-", hexl([0x20, 0x22, 0x23, 0x3c, 0x3e]), hexl([0x25]), hexl(list(range(0x20, 0x30)))]
            r.append("enc %s %s" % (sets[rnd(4)], hexl(b)) if rnd(2) else "dec %s" % hexl(b))
        elif prop == "C13":
            if rnd(2):
                al = [0x61, 0x2d, 0x7a, 0x80, 0xfc, 0x100, 0x4e2d, 0xffff, 0x10000, 0x10ffff, 0x41]
                r.append("enc %d %s" % (rnd(2), hexl([al[rnd(len(al))] for _ in range(ln)])))
            else:
                al = [0x61, 0x7a, 0x41, 0x30, 0x39, 0x2d, 0x21, 0x6b, 0x80]
                r.append("dec %d %s" % (rnd(2), hexl([al[rnd(len(al))] for _ in range(ln)])))
        elif prop == "C20":
            al = [0x2f, 0x2f, 0x2e, 0x61, 0x43, 0x3a, 0x7c, 0x20, 0x25, 0x3f, 0x23, 0x5c, 0xc3, 0xa9, 0xff, 0x00, 0x7a]
            b = [al[rnd(len(al))] for _ in range(ln)]
            if rnd(4):
                b = [0x2f] + b
            k = rnd(5)
            if k <= 1:
                r.append("path %d %s" % (k, hexl(b)))
            elif k == 2:
                r.append("pathjoin %s %s" % (hexl(b), hexl([al[rnd(len(al))] for _ in range(rnd(6))])))
            elif k == 3:
                r.append("patheq %s %s" % (hexl(b), hexl([0x2f] + [al[rnd(len(al))] for _ in range(rnd(6))])))
            else:
                r.append("name %s" % hexl(b))
        elif prop == "C19":
            al = [0x61, 0x2f, 0x3b, 0x3d, 0x22, 0x5c, 0x20, 0x09, 0x78, 0x41, 0x31, 0x2c, 0xe9, 0x100, 0x7f, 0x0a]
            b = [al[rnd(len(al))] for _ in range(ln + rnd(10))]
            if rnd(2):
                b = [0x61, 0x2f, 0x62, 0x3b] + b
            r.append("parse %s 78" % hexl(b))
        elif prop == "C15":
            al = [0x26, 0x3d, 0x2b, 0x25, 0x34, 0x31, 0x61, 0x7a, 0x20, 0x2a, 0x2d, 0x2e, 0x5f, 0x7e, 0xc3, 0xa9, 0xff, 0x00, 0x3b]
            b = [al[rnd(len(al))] for _ in range(ln)]
            k = rnd(3)
            if k == 0:
                r.append("parse %s" % hexl(b))
            elif k == 1:
                r.append("byteser %s" % hexl(b))
            else:
                # serialize_pairs takes &str pairs: use ASCII letters of the alphabet only
                a2 = [x for x in al if x < 0x80]
                ps = []
                for _ in range(rnd(4)):
                    ps.append("%s:%s" % (hexl([a2[rnd(len(a2))] for _ in range(rnd(5))]), hexl([a2[rnd(len(a2))] for _ in range(rnd(5))])))
                r.append("serpairs " + " ".join(ps) if ps else "parse %s" % hexl(b))
        else:
            al = [0x41, 0x5a, 0x61, 0x7a, 0x30, 0x39, 0x2b, 0x2f, 0x3d, 0x20, 0x0a, 0x0c, 0x2d, 0x80]
            b = [al[rnd(len(al))] for _ in range(ln)]
            r.append(("dec %s" if rnd(2) else "spec %s") % hexl(b))
    return r


def parse_l(s):
    return [] if s == "-" else [int(h, 16) for h in s.split(".")]


def coq_list(l):
    return "[" + "; ".join("%d" % x for x in l) + "]%N" if l else "(@nil N)"


def terms(prop, w):
    """request words -> list of (label, Gallina term whose value is `option (list N)`-like, driver field extractor)"""
    if prop == "C14" and w[0] == "enc" and len(w) == 3:
        s, b = coq_list(parse_l(w[1])), coq_list(parse_l(w[2]))
        return [("encode", "Some (encode (aset_of_list %s) %s)" % (s, b), lambda f: ("some", parse_l(f[-1]))),
                ("pe_display", "Some (pe_display (aset_of_list %s) %s)" % (s, b), lambda f: ("some", parse_l(f[1])))]
    if prop == "C14" and w[0] == "dec" and len(w) == 2:
        b = coq_list(parse_l(w[1]))
        return [("decode", "Some (decode %s)" % b, lambda f: ("some", parse_l(f[0]))),
                ("utf8_lossy", "Some (utf8_lossy (decode %s))" % b, lambda f: ("some", parse_l(f[-1])))]
    if prop == "C13" and w[0] in ("enc", "dec") and len(w) == 3:
        cfg = "true" if w[1] == "1" else "false"
        fn = "encode" if w[0] == "enc" else "decode"
        term = "match %s %s %s with Ok l => Some l | _ => None end" % (fn, cfg, coq_list(parse_l(w[2])))
        # a Panic outcome prints as None too: distinguish by a second term
        pterm = "match %s %s %s with Panic _ => Some [1]%%N | _ => Some (@nil N) end" % (fn, cfg, coq_list(parse_l(w[2])))

        def ext(f):
            r = f[0]
            return ("some", parse_l(r[3:])) if r.startswith("ok:") else ("none", None)

        def extp(f):
            return ("some", [1] if f[0] == "PANIC" else [])
        return [(fn, term, ext), (fn + "-panic", pterm, extp)]
    if prop == "C15" and w[0] == "parse" and len(w) == 2:
        b = coq_list(parse_l(w[1]))

        def ext(f):
            # second field: the into_owned pairs  n=v|n=v, "none" for no pair, FUEL
            x = f[1]
            if x == "FUEL":
                return ("none", None)
            if x == "none":
                return ("some", [])
            out = []
            for pr in x.split("|"):
                n, v = pr.split("=")
                n, v = parse_l(n), parse_l(v)
                out += [len(n)] + n + [len(v)] + v
            return ("some", out)
        return [("parse", "match parse %s with Some l => Some (flat_pairs l) | None => None end" % b, ext)]
    if prop == "C15" and w[0] == "byteser" and len(w) == 2:
        b = coq_list(parse_l(w[1]))
        return [("bser", "Some (bser %s)" % b, lambda f: ("some", parse_l(f[-1])) if not f[0].startswith(("PANIC", "FUEL")) else ("none", None))]
    if prop == "C15" and w[0] == "serpairs" and len(w) >= 2:
        ps = []
        for x in w[1:]:
            n, v = x.split(":")
            ps.append("(%s, %s)" % (coq_list(parse_l(n)), coq_list(parse_l(v))))
        term = "match serialize_pairs [%s] with Ok s => Some s | _ => None end" % "; ".join(ps)

        def ext(f):
            return ("some", parse_l(f[0][2:])) if f[0].startswith("f:") else ("none", None)
        return [("serialize_pairs", term, ext)]
    if prop == "C20" and w[0] == "path" and len(w) == 3:
        d = "true" if w[1] == "1" else "false"
        b = coq_list(parse_l(w[2]))

        def part(f, i):
            return " ".join(f).split(" | ")[i]

        def kind(i):
            return lambda f: ("some", [{"ok": 0, "err": 1, "panic": 2}[part(f, i).split(" ")[0]]])

        def serx(i):
            def g(f):
                x = part(f, i)
                return ("some", parse_l(x[3:].split(",")[0])) if x.startswith("ok ") else ("none", None)
            return g

        def tox(i):
            def g(f):
                x = part(f, i)
                if x == "-":
                    return ("none", None)
                if x.startswith("ok "):
                    return ("some", [0] + parse_l(x[3:]))
                return ("some", [{"err": 1, "panic": 2}[x]])
            return g
        return [("from_file_path-kind", "Some [fk (from_file_path %s)]" % b, kind(0)),
                ("from_file_path", "fser (from_file_path %s)" % b, serx(0)),
                ("from_directory_path-kind", "Some [fk (from_directory_path %s)]" % b, kind(1)),
                ("from_directory_path", "fser (from_directory_path %s)" % b, serx(1)),
                ("to_file_path(file)", "fto %s (from_file_path %s)" % (d, b), tox(2)),
                ("to_file_path(dir)", "fto %s (from_directory_path %s)" % (d, b), tox(3))]
    if prop == "C20" and w[0] == "pathjoin" and len(w) == 3:
        return [("path_join", "Some (path_join %s %s)" % (coq_list(parse_l(w[1])), coq_list(parse_l(w[2]))), lambda f: ("some", parse_l(f[0])))]
    if prop == "C20" and w[0] == "patheq" and len(w) == 3:
        return [("path_eq", "Some [if path_eq %s %s then 1 else 0]%%N" % (coq_list(parse_l(w[1])), coq_list(parse_l(w[2]))), lambda f: ("some", [int(f[0])]))]
    if prop == "C20" and w[0] == "name" and len(w) == 2:
        b = coq_list(parse_l(w[1]))
        return [("name_reference", "Some (name_reference %s)" % b, lambda f: ("some", parse_l(f[0]))),
                ("plain_name", "Some [if plain_name %s then 1 else 0; if simple_name %s then 1 else 0]%%N" % (b, b), lambda f: ("some", [int(f[1]), int(f[2])]))]
    if prop == "C19" and w[0] == "parse" and len(w) == 3:
        b, q = coq_list(parse_l(w[1])), coq_list(parse_l(w[2]))
        kind = ("Some [match parse %s with Ok None => 0 | Ok (Some m) => match display m with Ok _ => 1 | Panic _ => 4 | OutOfFuel => 5 end "
                "| Panic _ => 2 | OutOfFuel => 3 end]%%N" % b)

        def extk(f):
            if f[0] == "~":
                return ("some", [0])
            if f[0] == "PANIC":
                return ("some", [2])
            if f[0] == "FUEL":
                return ("some", [3])
            return ("some", [{"PANIC": 4, "FUEL": 5}.get(f[4], 1)])

        def okf(g):
            return lambda f: g(f) if f[0] == "ok" else ("none", None)

        def params(x):
            out = []
            if x != "_":
                for nv in x.split(","):
                    n, v = nv.split("=")
                    n, v = parse_l(n), parse_l(v)
                    out += [len(n)] + n + [len(v)] + v
            return out

        def extm(f):
            a, c = parse_l(f[1]), parse_l(f[2])
            return ("some", [len(a)] + a + [len(c)] + c + params(f[3]))

        def extd(f):
            return ("some", parse_l(f[4])) if f[4] not in ("PANIC", "FUEL") else ("none", None)

        def extg(f):
            return ("none", None) if f[5] == "~" else ("some", parse_l(f[5]))
        return [("parse-kind", kind, extk),
                ("parse", "match parse %s with Ok (Some m) => Some (flat_mime m) | _ => None end" % b, okf(extm)),
                ("display", "match parse %s with Ok (Some m) => match display m with Ok d => Some d | _ => None end | _ => None end" % b, okf(extd)),
                ("get_parameter", "match parse %s with Ok (Some m) => get_parameter (m_params m) %s | _ => None end" % (b, q), okf(extg))]
    if prop == "C18" and w[0] == "dec" and len(w) == 2:
        b = coq_list(parse_l(w[1]))

        def ext(f):
            return ("some", parse_l(f[0][3:])) if f[0].startswith("ok:") else ("none", None)
        return [("decode_to_vec", "match decode_to_vec %s with inl v => Some v | inr _ => None end" % b, ext)]
    if prop == "C18" and w[0] == "spec" and len(w) == 2:
        b = coq_list(parse_l(w[1]))

        def ext(f):
            return ("some", parse_l(f[0][3:])) if f[0].startswith("ok:") else ("none", None)
        return [("forgiving_base64_decode", "forgiving_base64_decode %s" % b, ext)]
    return []


def main():
    prop = sys.argv[1]
    cap = int(sys.argv[2]) if len(sys.argv) > 2 else 1000
    if prop not in DRIVER:
        print("vmroute: property %s has no second route" % prop)
        return 2
    reqs = []
    cp = os.path.join(ROOT, "corpus", prop, "cases.txt")
    if os.path.exists(cp):
        for l in open(cp, encoding="utf-8", errors="replace"):
            l = l.strip()
            if l and not l.startswith("#"):
                reqs.append(l)
    reqs = builtin(prop) + reqs + generated(prop)
    jobs = []
    for r in reqs:
        w = r.split()
        try:
            ts = terms(prop, w)
        except ValueError:
            ts = []
        if ts:
            jobs.append((r, ts))
        if len(jobs) >= cap:
            break
    if not jobs:
        print("vmroute: no request of a covered kind")
        return 2
    exe = os.path.join(ROOT, "build", "ocaml", DRIVER[prop])
    if not os.path.exists(exe):
        print("vmroute: driver %s not built" % exe)
        return 2
    p = subprocess.run([exe], input="\n".join(r for r, _ in jobs) + "\n", stdout=subprocess.PIPE, stderr=subprocess.STDOUT,
                       universal_newlines=True, timeout=600)
    answers = [l[2:] for l in p.stdout.split("\n") if l.startswith("R ")]
    if os.environ.get("VMROUTE_SELFTEST") and answers:
        # self-test of the comparison: the first answer is replaced by the last one; the run must then report a difference
        answers[0] = answers[-1] if answers[-1] != answers[0] else answers[0] + ".1"
    if len(answers) != len(jobs):
        print("vmroute: driver answered %d of %d requests" % (len(answers), len(jobs)))
        return 2
    os.makedirs(OUT, exist_ok=True)
    vfile = os.path.join(OUT, "%s_cases.v" % prop)
    with open(vfile, "w") as f:
        f.write("(* generated by tools/vmroute.py: the driver's requests evaluated inside Coq *)\n")
        f.write("From Coq Require Import List NArith.\nImport ListNotations.\n" + IMPORTS[prop] + "\nOpen Scope N_scope.\n")
        k = 0
        for r, ts in jobs:
            for (lab, term, _) in ts:
                f.write("Definition c%d : option (list N) := %s.\n" % (k, term))
                f.write("Eval vm_compute in (%d%%N, c%d).\n" % (k, k))
                k += 1
    cp = subprocess.run(["coqc", "-noglob", "-Q", COQ, "RU", vfile], stdout=subprocess.PIPE, stderr=subprocess.STDOUT,
                        universal_newlines=True, timeout=1800, cwd=OUT)
    if cp.returncode != 0:
        print("vmroute: coqc failed:\n" + cp.stdout[-1500:])
        return 2
    text = re.sub(r"\s+", " ", cp.stdout)
    got = {}
    for m in re.finditer(r"= \((\d+), (None|Some (\[[^\]]*\]|nil))\)", text):
        k = int(m.group(1))
        if m.group(2) == "None":
            got[k] = ("none", None)
        else:
            body = m.group(3)
            got[k] = ("some", [] if body in ("nil", "[]") else [int(x) for x in re.findall(r"\d+", body)])
    k = 0
    bad = 0
    for (r, ts), a in zip(jobs, answers):
        fields = a.split(" ")
        for (lab, term, ext) in ts:
            try:
                want = ext(fields)
            except (IndexError, ValueError):
                want = ("unreadable", a)
            if got.get(k) != want:
                bad += 1
                if bad <= 5:
                    print("vmroute DIFFERENCE %s [%s]: vm_compute %r, extracted driver %r" % (r, lab, got.get(k), want))
            k += 1
    print("vmroute %s: %d requests, %d values evaluated by vm_compute inside coqc and compared with the extracted driver: %d differences" % (prop, len(jobs), k, bad))
    return 1 if bad else 0


if __name__ == "__main__":
    sys.exit(main())
