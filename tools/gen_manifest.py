#!/usr/bin/env python3
"""Writes MANIFEST.json from tools/props.py + tools/manifest_text.py (kept in sync with the checks)."""
import json, os, sys
ROOT = os.path.dirname(os.path.dirname(os.path.abspath(__file__)))
sys.path.insert(0, os.path.join(ROOT, "tools"))
from props import PROPS, TEXT
from manifest_text import NOT_YET

ALL = ["C%02d" % i for i in range(1, 21)]
checks = []
for p in ALL:
    if p not in PROPS:
        continue
    t = TEXT[p]
    checks.append({
        "property_id": p,
        "quick_cmd": "./check %s --tier quick" % p,
        "thorough_cmd": "./check %s --tier thorough" % p,
        "evidence_file": "/verif/evidence/%s.json" % p,
        "replay_cmd_template": "./check %s --replay {path}" % p,
        "engine": "coq-model+correspondence",
        "level_claimed": {"category": "proof", "text": t["level"], "design_ref": t["design_ref"]},
        "level_note": t["note"],
        "technique": t["technique"],
    })
m = {
    "version": 1,
    "setup_cmd": "./check --setup",
    "hooks": {
        "guard": "servo_rust_url_verif",
        "enable": "RUSTFLAGS=\"--cfg servo_rust_url_verif\" (reserved; no hook has been needed so far: the harness uses the existing url features serde and expose_internals)",
        "baseline_off_cmd": "cd /repo && cargo test --workspace --no-fail-fast --offline",
        "source_commits": [],
        "add_only": True,
    },
    "engines": [{
        "name": "coq-model+correspondence",
        "path": "/verif/check",
        "serves_properties": [c["property_id"] for c in checks],
        "kind_free_text": "Coq 8.16.1 theorems about hand-written Gallina models (tables regenerated from the Rust sources on every run); models tied to /repo by a correspondence check between the extracted OCaml model and the crates built from the working tree; property-directed search on the implementation only after a proof obligation or the correspondence breaks",
    }],
    "checks": checks,
    "notes": "See DESIGN.md. Known findings: known_findings.json. Evidence is rewritten by every run.",
    "not_applicable": [{"property_id": p, "reason": NOT_YET.get(p, "no check built yet in this round; see DESIGN.md section 11 (not a claim that the technique cannot apply)")}
                       for p in ALL if p not in PROPS],
}
json.dump(m, open(os.path.join(ROOT, "MANIFEST.json"), "w"), indent=1)
print("MANIFEST.json: %d checks, %d not claimed" % (len(checks), len(m["not_applicable"])))
