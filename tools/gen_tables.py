#!/usr/bin/env python3
"""Translator: Rust sources of /repo -> coq/Gen/Tables.v (+ coq/Gen/tables.json).

Reads the *current working tree* of the repository.  Every reader recognises one
syntactic shape and fails closed (TranslateError) on anything else, so an edit
that the translator cannot read is a broken tie, never a silently stale table.

Usage: gen_tables.py <repo> <out_dir>     (writes only if the content changed)
"""
import json
import os
import sys

sys.path.insert(0, os.path.dirname(os.path.abspath(__file__)))
from rustlex import (TranslateError, tokenize, parse_int, parse_bchar, parse_bstr,
                     find_seq, match_close, until_semicolon, fn_body)


from tablib import read, eval_u32, split_commas, coq_list, coq_list_wrapped


# ---------------------------------------------------------------- AsciiSet constants

class SetDef:
    def __init__(self, name, base=None, words=None, ops=None, src=None):
        self.name, self.base, self.words, self.ops, self.src = name, base, words, ops or [], src


def read_ascii_sets(toks, src, known):
    """all `const NAME: &AsciiSet = & ... ;` items in a token stream."""
    out = []
    i = 0
    while True:
        i = find_seq(toks, [":", "&", "AsciiSet", "="], i)
        if i < 0:
            break
        name = toks[i - 1].text
        if toks[i - 2].text != "const":
            raise TranslateError("AsciiSet item %s is not a const (line %d)" % (name, toks[i].line))
        body, end = until_semicolon(toks, i + 4)
        if body[0].text != "&":
            raise TranslateError("AsciiSet %s: expected & (line %d)" % (name, body[0].line))
        body = body[1:]
        if body[0].text == "AsciiSet" and body[1].text == "{":
            # literal: AsciiSet { mask: [ e, e, e, e ] }
            k = find_seq(body, ["mask", ":", "["])
            if k < 0:
                raise TranslateError("AsciiSet %s: literal without mask" % name)
            close = match_close(body, k + 2)
            elems = split_commas(body[k + 3:close])
            if len(elems) != 4:
                raise TranslateError("AsciiSet %s: mask has %d words" % (name, len(elems)))
            out.append(SetDef(name, words=[eval_u32(e) for e in elems], src=src))
        else:
            base = body[0].text
            if base == "AsciiSet" and body[1].text == "::" and body[2].text == "EMPTY":
                base = "EMPTY"
                rest = body[3:]
            else:
                rest = body[1:]
            if base != "EMPTY" and base not in known and base not in [d.name for d in out]:
                raise TranslateError("AsciiSet %s: unknown base %s" % (name, base))
            ops = []
            j = 0
            while j < len(rest):
                if rest[j].text != "." or rest[j + 1].text not in ("add", "remove") or rest[j + 2].text != "(":
                    raise TranslateError("AsciiSet %s: unsupported chain element %r (line %d)" %
                                         (name, rest[j + 1].text if j + 1 < len(rest) else "?", rest[j].line))
                close = match_close(rest, j + 2)
                arg = rest[j + 3:close]
                if len(arg) != 1 or arg[0].kind not in ("bchar", "num"):
                    raise TranslateError("AsciiSet %s: unsupported argument (line %d)" % (name, rest[j].line))
                v = parse_bchar(arg[0].text) if arg[0].kind == "bchar" else parse_int(arg[0].text)
                ops.append((rest[j + 1].text, v))
                j = close + 1
            out.append(SetDef(name, base=base, ops=ops, src=src))
        i = end
    return out


def set_members(d, env):
    """evaluate a SetDef to the sorted list of members (python-side, for tables.json only)"""
    if d.words is not None:
        return [b for b in range(128) if (d.words[b // 32] >> (b % 32)) & 1]
    m = set() if d.base == "EMPTY" else set(env[d.base])
    for op, v in d.ops:
        if v >= 128:
            raise TranslateError("AsciiSet %s: add/remove of non-ASCII byte" % d.name)
        if op == "add":
            m.add(v)
        else:
            m.discard(v)
    return sorted(m)


# ---------------------------------------------------------------- ENC_TABLE

def read_enc_table(toks):
    i = find_seq(toks, ["static", "ENC_TABLE"])
    if i < 0:
        raise TranslateError("ENC_TABLE not found")
    body, _ = until_semicolon(toks, i)
    lits = [t for t in body if t.kind == "bstr"]
    if len(lits) != 1:
        raise TranslateError("ENC_TABLE: expected one byte-string literal")
    data = parse_bstr(lits[0].text)
    # declared length
    k = find_seq(body, ["[", "u8", ";"])
    if k < 0:
        raise TranslateError("ENC_TABLE: no declared length")
    declared = parse_int(body[k + 3].text)
    if declared != len(data):
        raise TranslateError("ENC_TABLE: declared %d, literal has %d" % (declared, len(data)))
    return data


def read_enc_index(toks):
    """the index arithmetic of percent_encode_byte: `usize::from(byte) * K` and `index..index + W`"""
    body, _, _ = fn_body(toks, "percent_encode_byte")
    i = find_seq(body, ["let", "index", "="])
    e, _ = until_semicolon(body, i + 3)
    texts = [t.text for t in e]
    if texts[:6] != ["usize", "::", "from", "(", "byte", ")"] or texts[6] != "*" or len(texts) != 8:
        raise TranslateError("percent_encode_byte: unrecognised index expression")
    stride = parse_int(texts[7])
    j = find_seq(body, ["[", "index", "..", "index", "+"])
    if j < 0:
        raise TranslateError("percent_encode_byte: unrecognised slice")
    width = parse_int(body[j + 5].text)
    return stride, width


def emit_set(d):
    if d.words is not None:
        return "Definition %s : aset := mk_aset %d %d %d %d." % (coq_name(d.name), *d.words)
    e = "aset_empty" if d.base == "EMPTY" else coq_name(d.base)
    for op, v in d.ops:
        e = "(aset_%s %s %d)" % (op, e, v)
    return "Definition %s : aset := %s." % (coq_name(d.name), e)


def coq_name(n):
    return "T_" + n


# ---------------------------------------------------------------- main

def generate(repo):
    J = {}
    V = []
    V.append("(* GENERATED by tools/gen_tables.py from the Rust sources - do not edit. *)")
    V.append("From RU Require Import Base.Prelude Model.AsciiSet.")
    V.append("")

    # percent_encoding
    t_as = tokenize(read(repo, "percent_encoding/src/ascii_set.rs"))
    t_pe = tokenize(read(repo, "percent_encoding/src/lib.rs"))
    env = {}
    sets = read_ascii_sets(t_as, "percent_encoding/src/ascii_set.rs", known=[])
    t_parser = tokenize(read(repo, "url/src/parser.rs"))
    sets += read_ascii_sets(t_parser, "url/src/parser.rs", known=[d.name for d in sets])
    V.append("(* ---- AsciiSet constants (percent_encoding/src/ascii_set.rs, url/src/parser.rs) ---- *)")
    for d in sets:
        env[d.name] = set_members(d, env)
        V.append(emit_set(d))
    J["ascii_sets"] = {d.name: env[d.name] for d in sets}
    need = ["CONTROLS", "NON_ALPHANUMERIC", "FRAGMENT", "PATH", "USERINFO", "PATH_SEGMENT",
            "SPECIAL_PATH_SEGMENT", "QUERY", "SPECIAL_QUERY"]
    for n in need:
        if n not in env:
            raise TranslateError("expected AsciiSet constant %s not found" % n)
    V.append("Definition T_all_sets : list aset := %s." %
             ("[" + "; ".join(coq_name(d.name) for d in sets) + "]"))
    V.append("")

    enc = read_enc_table(t_pe)
    stride, width = read_enc_index(t_pe)
    V.append("(* ---- ENC_TABLE and its index arithmetic (percent_encoding/src/lib.rs) ---- *)")
    V.append("Definition T_ENC_TABLE : list N := %s." % coq_list_wrapped(enc, 24))
    V.append("Definition T_ENC_STRIDE : N := %d." % stride)
    V.append("Definition T_ENC_WIDTH : N := %d." % width)
    J["enc_table"] = enc
    J["enc_stride"] = stride
    J["enc_width"] = width
    V.append("")

    for ext in EXTENSIONS:
        ext(repo, V, J)

    return "\n".join(V) + "\n", J


EXTENSIONS = []

# further table readers live in tools/tables_*.py and register themselves
_here = os.path.dirname(os.path.abspath(__file__))
for _f in sorted(os.listdir(_here)):
    if _f.startswith("tables_") and _f.endswith(".py"):
        _m = __import__(_f[:-3])
        EXTENSIONS.append(_m.extend)


def write_if_changed(path, content):
    try:
        with open(path, encoding="utf-8") as f:
            if f.read() == content:
                return False
    except FileNotFoundError:
        pass
    with open(path, "w", encoding="utf-8") as f:
        f.write(content)
    return True


def main():
    repo, out = sys.argv[1], sys.argv[2]
    try:
        v, j = generate(repo)
    except TranslateError as e:
        print("TRANSLATE-ERROR: %s" % e)
        sys.exit(2)
    except (FileNotFoundError, IndexError, KeyError, ValueError) as e:
        print("TRANSLATE-ERROR: %s: %s" % (type(e).__name__, e))
        sys.exit(2)
    os.makedirs(out, exist_ok=True)
    changed = write_if_changed(os.path.join(out, "Tables.v"), v)
    write_if_changed(os.path.join(out, "tables.json"), json.dumps(j, indent=0, sort_keys=True))
    print("tables: %s" % ("rewritten" if changed else "unchanged"))


if __name__ == "__main__":
    main()
