"""Shared helpers for the table translator (tools/gen_tables.py and tools/tables_*.py)."""
import os
from rustlex import (TranslateError, tokenize, parse_int, parse_bchar, parse_bstr,
                     find_seq, match_close, until_semicolon, fn_body)


def read(repo, rel):
    with open(os.path.join(repo, rel), encoding="utf-8") as f:
        return f.read()


# ---------------------------------------------------------------- const-expr (u32)

def eval_u32(toks):
    """Evaluate a tiny constant expression over u32: literals, ! << >> % | & + - * ( )."""
    pos = [0]

    def peek():
        return toks[pos[0]].text if pos[0] < len(toks) else None

    def take():
        t = toks[pos[0]]
        pos[0] += 1
        return t

    def atom():
        t = take()
        if t.kind == "num":
            return parse_int(t.text) & 0xFFFFFFFF
        if t.kind == "bchar":
            return parse_bchar(t.text)
        if t.text == "(":
            v = expr(0)
            if take().text != ")":
                raise TranslateError("expected ) in const expr")
            return v
        if t.text == "!":
            return (~atom()) & 0xFFFFFFFF
        raise TranslateError("const expr: unexpected %r at line %d" % (t.text, t.line))

    prec = {"|": 1, "&": 3, "<<": 4, ">>": 4, "+": 5, "-": 5, "*": 6, "%": 6}

    def expr(minp):
        v = atom()
        while peek() in prec and prec[peek()] >= minp:
            op = take().text
            r = expr(prec[op] + 1)
            if op == "|":
                v |= r
            elif op == "&":
                v &= r
            elif op == "<<":
                v = (v << r) & 0xFFFFFFFF
            elif op == ">>":
                v >>= r
            elif op == "+":
                v = (v + r) & 0xFFFFFFFF
            elif op == "-":
                v = (v - r) & 0xFFFFFFFF
            elif op == "*":
                v = (v * r) & 0xFFFFFFFF
            elif op == "%":
                v %= r
        return v

    v = expr(0)
    if pos[0] != len(toks):
        raise TranslateError("const expr: trailing tokens at line %d" % toks[pos[0]].line)
    return v


def split_commas(toks):
    out, cur, depth = [], [], 0
    for t in toks:
        if t.text in "([{":
            depth += 1
        elif t.text in ")]}":
            depth -= 1
        if t.text == "," and depth == 0:
            out.append(cur)
            cur = []
        else:
            cur.append(t)
    if cur:
        out.append(cur)
    return out


# ---------------------------------------------------------------- emit helpers

def coq_list(xs):
    return "[" + "; ".join(str(x) for x in xs) + "]"


def coq_list_wrapped(xs, per=16, indent="   "):
    lines = []
    for i in range(0, len(xs), per):
        lines.append(indent + "; ".join(str(x) for x in xs[i:i + per]))
    return "[\n" + ";\n".join(lines) + "]"


