#!/usr/bin/env python3
"""Development-time tool: merge known_findings.d/*.json into known_findings.json (dedupe by id).
Never run by a check."""
import glob, json, os
ROOT = os.path.dirname(os.path.dirname(os.path.abspath(__file__)))
main = json.load(open(os.path.join(ROOT, "known_findings.json")))
by_id = {f["id"]: f for f in main["findings"]}
for p in sorted(glob.glob(os.path.join(ROOT, "known_findings.d", "*.json"))):
    d = json.load(open(p))
    for f in d.get("findings", d if isinstance(d, list) else []):
        if "properties" not in f and "property" in f:
            f["properties"] = [f.pop("property")]
        if f["id"] in by_id:
            old = by_id[f["id"]]
            old["properties"] = sorted(set(old.get("properties", [])) | set(f.get("properties", [])))
            for k, v in f.items():
                old.setdefault(k, v)
        else:
            by_id[f["id"]] = f
            main["findings"].append(f)
json.dump(main, open(os.path.join(ROOT, "known_findings.json"), "w"), indent=1, ensure_ascii=False)
print("known_findings.json:", len(main["findings"]), "entries")
