#!/usr/bin/env python3
"""Development aid (not a registered check): confirm a seeded change produced by an independent
agent and run the property's check against it.

  tools/seed_eval.py <Cxx> <dir with mK.diff / mK_demo.rs / mK.json> <K> [--tier quick]

Steps (all in a scratch worktree of /repo under /tmp, removed afterwards):
  1. demo passes on the pristine tree, 2. patch applies and compiles, demo FAILS with it,
  3. the full suite summary is identical to the pristine summary, 4. `./check Cxx` against the
  patched tree (VERIF_REPO) - records exit status and VIOLATION line.
Writes seeded/<Cxx>-m<K>/{patch.diff, demo.rs, meta.json}."""
import hashlib, json, os, re, shutil, subprocess, sys

ROOT = os.path.dirname(os.path.dirname(os.path.abspath(__file__)))
PKG_DIR = {"percent-encoding": "percent_encoding", "percent_encoding": "percent_encoding", "form_urlencoded": "form_urlencoded",
           "url": "url", "idna": "idna", "data-url": "data-url", "data_url": "data-url"}
TARGET = "/tmp/seedeval-target"


def sh(cmd, cwd=None, timeout=3600, env=None):
    e = dict(os.environ)
    e.update({"CARGO_NET_OFFLINE": "true", "CARGO_TARGET_DIR": TARGET})
    if env:
        e.update(env)
    p = subprocess.run(cmd, cwd=cwd, shell=True, stdout=subprocess.PIPE, stderr=subprocess.STDOUT, timeout=timeout, env=e)
    return p.returncode, p.stdout.decode("utf-8", "replace")


def suite_summary(wt):
    rc, out = sh("cargo test --workspace --no-fail-fast --offline 2>&1", cwd=wt)
    lines = []
    for l in out.split("\n"):
        if l.startswith("test result:"):
            lines.append(re.sub(r"; finished in.*", "", l))
        elif "all tests passed" in l:
            lines.append(l.strip())
    # names in the final `failures:` lists
    names = set()
    for blk in re.findall(r"\nfailures:\n((?:    .*\n)+)", out):
        for l in blk.split("\n"):
            if l.strip():
                names.add(l.strip())
    return lines, ["%d failing test names" % len(names)]


def main():
    prop, src, k = sys.argv[1], sys.argv[2], sys.argv[3]
    tier = sys.argv[sys.argv.index("--tier") + 1] if "--tier" in sys.argv else "quick"
    meta = json.load(open(os.path.join(src, "m%s.json" % k)))
    patch = os.path.abspath(os.path.join(src, "m%s.diff" % k))
    demo = os.path.abspath(os.path.join(src, "m%s_demo.rs" % k))
    m = re.search(r"-p\s+([\w-]+)", meta.get("demo_cmd", ""))
    pkg = m.group(1) if m else None
    if pkg not in PKG_DIR:
        for f in meta.get("files", []):
            pkg = f.split("/")[0]
            break
    crate_dir = PKG_DIR.get(pkg, pkg)
    wt = "/tmp/seedeval-%s-m%s" % (prop, k)
    subprocess.run(["git", "-C", "/repo", "worktree", "remove", "--force", wt], stderr=subprocess.DEVNULL)
    subprocess.check_call(["git", "-C", "/repo", "worktree", "add", "-q", "--detach", wt, "HEAD"])
    res = {"property": prop, "seed": "m%s" % k, "summary": meta.get("summary"), "needs": meta.get("needs"), "files": meta.get("files")}
    try:
        test_name = "seeded_demo_m%s" % k
        demo_dst = os.path.join(wt, crate_dir, "tests", test_name + ".rs")
        os.makedirs(os.path.dirname(demo_dst), exist_ok=True)
        # pristine suite summary (cached per /repo HEAD)
        head = subprocess.check_output(["git", "-C", "/repo", "rev-parse", "HEAD"]).decode().strip()
        cache = "/tmp/seedeval-pristine-%s.json" % head[:12]
        if os.path.exists(cache):
            pristine = json.load(open(cache))
        else:
            pristine = list(suite_summary(wt))
            json.dump(pristine, open(cache, "w"))
        shutil.copy(demo, demo_dst)
        cargo_toml = os.path.join(wt, crate_dir, "Cargo.toml")
        toml_orig = open(cargo_toml).read()
        if "autotests = false" in toml_orig:
            open(cargo_toml, "a").write('\n[[test]]\nname = "%s"\npath = "tests/%s.rs"\n' % (test_name, test_name))
        pkg_name = {"percent_encoding": "percent-encoding"}.get(crate_dir, crate_dir)
        rc0, out0 = sh("cargo test -p %s --test %s --offline 2>&1" % (pkg_name, test_name), cwd=wt)
        res["demo_passes_on_pristine"] = rc0 == 0
        rc, out = sh("git apply %s" % patch, cwd=wt)
        res["patch_applies"] = rc == 0
        rc1, out1 = sh("cargo test -p %s --test %s --offline 2>&1" % (pkg_name, test_name), cwd=wt)
        res["demo_fails_with_patch"] = rc1 != 0 and "error[" not in out1 and "could not compile" not in out1
        res["demo_output_tail"] = out1[-600:]
        os.unlink(demo_dst)
        open(cargo_toml, "w").write(toml_orig)
        patched = list(suite_summary(wt))
        res["suite_unchanged"] = patched == pristine
        if patched != pristine:
            res["suite_diff"] = {"pristine": pristine, "patched": patched}
        # the check
        h = hashlib.sha256(wt.encode()).hexdigest()[:8]
        env = {"VERIF_REPO": wt}
        rc2, out2 = sh("./check %s --tier %s 2>&1" % (prop, tier), cwd=ROOT, env=env, timeout=7200)
        viol = [l for l in out2.split("\n") if l.startswith("VIOLATION")]
        res["check_exit"] = rc2
        res["check_violation_lines"] = viol
        res["check_tail"] = out2.strip().split("\n")[-1][:300]
        replay = None
        for v in viol:
            mm = re.search(r"replay=(\S+)", v)
            if mm and os.path.exists(os.path.join(ROOT, mm.group(1))):
                replay = json.load(open(os.path.join(ROOT, mm.group(1))))
                os.unlink(os.path.join(ROOT, mm.group(1)))
        if replay:
            res["replay_kind"] = replay.get("kind")
            res["replay_request"] = (replay.get("request") or "")[:400]
            res["replay_what"] = (replay.get("what") or "")[:400]
            res["replay_broken"] = [b["kind"] for b in replay.get("broken", [])]
        res["caught"] = rc2 == 1 and bool(viol)
        res["caught_with_input"] = bool(replay and replay.get("kind") == "failing-input")
        shutil.rmtree(os.path.join(ROOT, "build", "target-" + h), ignore_errors=True)
        shutil.rmtree(os.path.join(ROOT, "build", "harness-" + h), ignore_errors=True)
    finally:
        subprocess.run(["git", "-C", "/repo", "worktree", "remove", "--force", wt])
        subprocess.run([sys.executable, os.path.join(ROOT, "tools", "gen_tables.py"), "/repo", os.path.join(ROOT, "coq", "Gen")], stdout=subprocess.DEVNULL)
    confirmed = res.get("demo_passes_on_pristine") and res.get("patch_applies") and res.get("demo_fails_with_patch") and res.get("suite_unchanged")
    res["confirmed"] = bool(confirmed)
    res["what_i_ran"] = "tools/seed_eval.py %s %s %s --tier %s" % (prop, src, k, tier)
    out_dir = os.path.join(ROOT, "seeded", "%s-m%s-%s" % (prop, k, hashlib.sha256(open(patch, "rb").read()).hexdigest()[:6]))
    if confirmed:
        os.makedirs(out_dir, exist_ok=True)
        shutil.copy(patch, os.path.join(out_dir, "patch.diff"))
        shutil.copy(demo, os.path.join(out_dir, "demo.rs"))
        json.dump(res, open(os.path.join(out_dir, "meta.json"), "w"), indent=1)
    print(json.dumps({k2: res[k2] for k2 in ("property", "seed", "confirmed", "caught", "caught_with_input", "check_tail", "summary") if k2 in res}, indent=1))
    if not confirmed:
        print(json.dumps(res, indent=1)[:3000])


if __name__ == "__main__":
    main()
