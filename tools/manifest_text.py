TEXT = {
 "C14": {
  "level": "Machine-checked Coq theorems (11, all closed under the global context) about an executable Gallina model of percent_encoding: round trip for every set containing '%', exact output form and ASCII-ness, homomorphism, split law, agreement of iterator/Display/Cow/size_hint/if_any views, borrow-iff-unchanged, and the bit-mask set algebra on the 128 ASCII values - for all byte strings and all sets, no length bound. ENC_TABLE and the AsciiSet constants are regenerated from the Rust source on every run and the table theorem re-proved. The model is tied to the code by a correspondence run (exhaustive small scopes + random) of the extracted model against the crate built from /repo.",
  "design_ref": "DESIGN.md section 8 C14, sections 4 and 6",
  "note": "Trusted: Coq kernel + vm_compute; translator gen_tables.py; extraction (ExtrOcamlBasic only) + OCaml driver; the correspondence generators; std's UTF-8 validation is modelled (Base/Utf8.v) and cross-checked, not verified. C14_split is proved under a sufficient condition (no '%' among the last two bytes of the left part). Known finding F-C14-1: add/remove of a non-ASCII byte panics.",
  "technique": "Coq proof over Gallina model + table translator + extracted-model/implementation correspondence",
 },
}
NOT_YET = {}
