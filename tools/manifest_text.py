# reasons for properties not (yet) claimed; the per-property manifest texts live in tools/props_d/Cxx.py
NOT_YET = {}
