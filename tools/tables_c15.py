"""Table reader for C15: constants of form_urlencoded/src/lib.rs -> coq/Gen/Tables.v.

  byte_serialized_unchanged   the matches! pattern            -> T_FORM_UNCHANGED : list N
  ByteSerialize::next         `first == b' '` / "+"           -> T_FORM_SPACE, T_FORM_SPACE_OUT
  Parse::next                 the two splitn(2, |&b| b == X)  -> T_FORM_PAIR_SEP, T_FORM_KV_SEP
  replace_plus                position(|&b| b == X), = Y      -> T_FORM_PLUS, T_FORM_PLUS_REPL
  append_separator_if_needed  string.push(X)                  -> T_FORM_PUSH_SEP
  append_pair                 string.push(X)                  -> T_FORM_PUSH_EQ
  panic sites (source lines)  for_suffix panic!, string() expect, finish expect, clear's String::truncate
                                                              -> T_FORM_SITE_FOR_SUFFIX / _STRING / _FINISH / _CLEAR_TRUNCATE

Fails closed (TranslateError) on any other shape.
"""
from rustlex import TranslateError, tokenize, parse_bchar, parse_bstr, find_seq, match_close, fn_body
from tablib import read, coq_list

SRC = "form_urlencoded/src/lib.rs"


def _byte_lit(tok, what):
    if tok.kind not in ("bchar", "char"):
        raise TranslateError("%s: expected a character literal, found %r (line %d)" % (what, tok.text, tok.line))
    return parse_bchar(tok.text)


def read_unchanged(toks):
    body, _, _ = fn_body(toks, "byte_serialized_unchanged")
    if len(body) < 4 or body[0].text != "matches!" or body[1].text != "(" or body[2].text != "byte" or body[3].text != ",":
        raise TranslateError("byte_serialized_unchanged: body is not matches!(byte, ...)")
    close = match_close(body, 1)
    if close != len(body) - 1:
        raise TranslateError("byte_serialized_unchanged: trailing tokens after matches!(...)")
    pat = body[4:close]
    members = set()
    alt = []
    alts = []
    for t in pat:
        if t.text == "|":
            alts.append(alt)
            alt = []
        else:
            alt.append(t)
    alts.append(alt)
    for a in alts:
        if len(a) == 1:
            members.add(_byte_lit(a[0], "byte_serialized_unchanged"))
        elif len(a) == 3 and a[1].text == "..=":
            lo, hi = _byte_lit(a[0], "byte_serialized_unchanged"), _byte_lit(a[2], "byte_serialized_unchanged")
            if hi < lo:
                raise TranslateError("byte_serialized_unchanged: empty range (line %d)" % a[0].line)
            members.update(range(lo, hi + 1))
        else:
            raise TranslateError("byte_serialized_unchanged: unsupported pattern alternative at line %d" %
                                 (a[0].line if a else body[0].line))
    return sorted(members)


def _eq_literal(body, var, what, start=0):
    """`<var> == <byte literal>` -> (value, index)"""
    i = find_seq(body, [var, "=="], start)
    if i < 0:
        raise TranslateError("%s: no `%s == <literal>` comparison" % (what, var))
    return _byte_lit(body[i + 2], what), i


def _impl_fn(toks, impl_for, name):
    """body of `fn name` inside `impl ... for <impl_for> ... {`"""
    i = 0
    while True:
        i = find_seq(toks, ["for", impl_for], i)
        if i < 0:
            raise TranslateError("impl ... for %s not found" % impl_for)
        # must be part of an impl header: walk back to `impl` without crossing a brace/semicolon
        j = i
        ok = False
        while j >= 0 and toks[j].text not in ("{", "}", ";"):
            if toks[j].text == "impl":
                ok = True
                break
            j -= 1
        if ok:
            break
        i += 1
    k = i
    while toks[k].text != "{":
        k += 1
    end = match_close(toks, k)
    inner = toks[k + 1:end]
    body, lines, _ = fn_body(inner, name)
    return body


def _push_literal(body, what):
    i = find_seq(body, ["string", ".", "push", "("])
    if i < 0:
        raise TranslateError("%s: no string.push(<char>)" % what)
    if body[i + 5].text != ")":
        raise TranslateError("%s: unsupported push argument" % what)
    if find_seq(body, ["string", ".", "push", "("], i + 1) >= 0:
        raise TranslateError("%s: more than one string.push" % what)
    return _byte_lit(body[i + 4], what)


def extend(repo, V, J):
    toks = tokenize(read(repo, SRC))
    un = read_unchanged(toks)

    # ByteSerialize::next: `if first == b' ' { "+" } else { percent_encode_byte(first) }`
    nb = _impl_fn(toks, "ByteSerialize", "next")
    space, i = _eq_literal(nb, "first", "ByteSerialize::next")
    if nb[i + 3].text != "{" or nb[i + 4].kind != "str" or nb[i + 5].text != "}" or nb[i + 6].text != "else":
        raise TranslateError("ByteSerialize::next: unrecognised shape after `first == ...` (line %d)" % nb[i].line)
    space_out = parse_bstr(nb[i + 4].text)
    j = match_close(nb, i + 7)
    if [t.text for t in nb[i + 8:j]] != ["percent_encode_byte", "(", "first", ")"]:
        raise TranslateError("ByteSerialize::next: else branch is not percent_encode_byte(first)")

    # Parse::next: two `splitn(2, |&b| b == X)`
    pb = _impl_fn(toks, "Parse", "next")
    seps = []
    k = 0
    while True:
        k = find_seq(pb, ["splitn", "(", "2", ",", "|", "&", "b", "|", "b", "=="], k)
        if k < 0:
            break
        seps.append(_byte_lit(pb[k + 10], "Parse::next"))
        if pb[k + 11].text != ")":
            raise TranslateError("Parse::next: unsupported splitn predicate (line %d)" % pb[k].line)
        k += 1
    if len(seps) != 2:
        raise TranslateError("Parse::next: expected two splitn(2, |&b| b == X), found %d" % len(seps))

    # replace_plus
    rb, _, _ = fn_body(toks, "replace_plus")
    plus, i = _eq_literal(rb, "b", "replace_plus")
    i2 = find_seq(rb, ["replaced", "[", "first_position", "]", "="])
    if i2 < 0:
        raise TranslateError("replace_plus: no `replaced[first_position] = <literal>`")
    repl = _byte_lit(rb[i2 + 5], "replace_plus")
    i3 = find_seq(rb, ["*", "byte", "=="])
    i4 = find_seq(rb, ["*", "byte", "="])
    if i3 < 0 or i4 < 0 or _byte_lit(rb[i3 + 3], "replace_plus") != plus or _byte_lit(rb[i4 + 3], "replace_plus") != repl:
        raise TranslateError("replace_plus: the loop over the tail does not use the same two literals")

    # separators pushed by the serializer
    sb, _, _ = fn_body(toks, "append_separator_if_needed")
    push_sep = _push_literal(sb, "append_separator_if_needed")
    ab_i = find_seq(toks, ["fn", "append_pair", "("])          # the free function (the method has `<`/`(&mut self`)
    while ab_i >= 0 and toks[ab_i + 3].text == "&":
        ab_i = find_seq(toks, ["fn", "append_pair", "("], ab_i + 1)
    if ab_i < 0:
        raise TranslateError("free fn append_pair not found")
    ab, _, _ = fn_body(toks, "append_pair", ab_i)
    push_eq = _push_literal(ab, "append_pair")

    # panic sites
    fb, _, _ = fn_body(toks, "for_suffix")
    ps = [t for t in fb if t.text in ("panic!", "assert!")]
    if len(ps) != 1:
        raise TranslateError("for_suffix: expected exactly one panic!/assert!")
    stb, _, _ = fn_body(toks, "string")
    es = [t for t in stb if t.text == "expect"]
    if len(es) != 1:
        raise TranslateError("fn string: expected exactly one expect")
    cb, _, _ = fn_body(toks, "clear")
    ct = find_seq(cb, [".", "truncate", "("])
    if ct < 0 or find_seq(cb, [".", "truncate", "("], ct + 1) >= 0:
        raise TranslateError("Serializer::clear: expected exactly one .truncate(")
    if [t.text for t in cb[ct + 3:match_close(cb, ct + 2)]] != ["self", ".", "start_position"]:
        raise TranslateError("Serializer::clear: truncate argument is not self.start_position")
    fib, _, _ = fn_body(toks, "finish", find_seq(toks, ["pub", "fn", "finish"]))
    ef = [t for t in fib if t.text == "expect"]
    if len(ef) != 1:
        raise TranslateError("Serializer::finish: expected exactly one expect")

    V.append("(* ---- form_urlencoded/src/lib.rs (tools/tables_c15.py) ---- *)")
    V.append("Definition T_FORM_UNCHANGED : list N := %s." % coq_list(un))
    V.append("Definition T_FORM_SPACE : N := %d." % space)
    V.append("Definition T_FORM_SPACE_OUT : list N := %s." % coq_list(space_out))
    V.append("Definition T_FORM_PAIR_SEP : N := %d." % seps[0])
    V.append("Definition T_FORM_KV_SEP : N := %d." % seps[1])
    V.append("Definition T_FORM_PLUS : N := %d." % plus)
    V.append("Definition T_FORM_PLUS_REPL : N := %d." % repl)
    V.append("Definition T_FORM_PUSH_SEP : N := %d." % push_sep)
    V.append("Definition T_FORM_PUSH_EQ : N := %d." % push_eq)
    V.append("Definition T_FORM_SITE_FOR_SUFFIX : N := %d." % ps[0].line)
    V.append("Definition T_FORM_SITE_STRING : N := %d." % es[0].line)
    V.append("Definition T_FORM_SITE_FINISH : N := %d." % ef[0].line)
    V.append("Definition T_FORM_SITE_CLEAR_TRUNCATE : N := %d." % cb[ct + 1].line)
    V.append("")
    J["form_unchanged"] = un
    J["form_consts"] = {"space": space, "space_out": space_out, "pair_sep": seps[0], "kv_sep": seps[1],
                        "plus": plus, "plus_repl": repl, "push_sep": push_sep, "push_eq": push_eq,
                        "site_for_suffix": ps[0].line, "site_string": es[0].line, "site_finish": ef[0].line,
                        "site_clear_truncate": cb[ct + 1].line}
