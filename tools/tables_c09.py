"""Table readers for C09 (host parsing): literal sets of url/src/host.rs and the idna deny list that
Host::parse passes to idna::domain_to_ascii_cow.  Fails closed on any unrecognised shape."""
from rustlex import (TranslateError, tokenize, parse_int, parse_bchar, parse_bstr,
                     find_seq, match_close, until_semicolon, fn_body)
from tablib import read, coq_list


def _char_alternatives(toks, what):
    """tokens `'a' | 'b' | ...` -> list of code points"""
    out = []
    expect_char = True
    for t in toks:
        if expect_char:
            if t.kind != "char":
                raise TranslateError("%s: expected a char literal, found %r (line %d)" % (what, t.text, t.line))
            out.append(parse_bchar(t.text))
        elif t.text != "|":
            raise TranslateError("%s: expected '|', found %r (line %d)" % (what, t.text, t.line))
        expect_char = not expect_char
    if expect_char:
        raise TranslateError("%s: dangling '|'" % what)
    return out


def read_invalid_host_chars(toks):
    """`let is_invalid_host_char = |c| { matches!(c, '\\0' | ... ) };` inside fn parse_opaque"""
    body, _, _ = fn_body(toks, "parse_opaque")
    i = find_seq(body, ["let", "is_invalid_host_char", "=", "|", "c", "|", "{", "matches!", "("])
    if i < 0:
        raise TranslateError("parse_opaque: is_invalid_host_char closure not in the expected shape")
    close = match_close(body, i + 8)
    inner = body[i + 9:close]
    if len(inner) < 3 or inner[0].text != "c" or inner[1].text != ",":
        raise TranslateError("parse_opaque: matches! does not scrutinise c")
    chars = _char_alternatives(inner[2:], "is_invalid_host_char")
    # the closure must be what decides: `if input.find(is_invalid_host_char).is_some() { Err(InvalidDomainCharacter)`
    if find_seq(body, ["if", "input", ".", "find", "(", "is_invalid_host_char", ")", ".", "is_some", "(", ")", "{",
                       "Err", "(", "ParseError", "::", "InvalidDomainCharacter", ")"]) < 0:
        raise TranslateError("parse_opaque: use of is_invalid_host_char not in the expected shape")
    if find_seq(body, ["utf8_percent_encode", "(", "input", ",", "CONTROLS", ")"]) < 0:
        raise TranslateError("parse_opaque: utf8_percent_encode(input, CONTROLS) not found")
    return chars


def read_host_idna_call(toks):
    """fn domain_to_ascii: idna::domain_to_ascii_cow(domain, idna::AsciiDenyList::<NAME>)"""
    body, _, _ = fn_body(toks, "domain_to_ascii")
    i = find_seq(body, ["idna", "::", "domain_to_ascii_cow", "(", "domain", ",", "idna", "::", "AsciiDenyList", "::"])
    if i < 0:
        raise TranslateError("Host::domain_to_ascii: call of idna::domain_to_ascii_cow not in the expected shape")
    name = body[i + 10].text
    if body[i + 11].text != ")":
        raise TranslateError("Host::domain_to_ascii: unexpected deny-list argument")
    return name


def read_deny_list(toks, name):
    """pub const NAME: AsciiDenyList = AsciiDenyList::new(<bool>, "<chars>");"""
    i = find_seq(toks, ["const", name, ":", "AsciiDenyList", "=", "AsciiDenyList", "::", "new", "("])
    if i < 0:
        raise TranslateError("AsciiDenyList::%s is not defined through AsciiDenyList::new" % name)
    close = match_close(toks, i + 8)
    args = toks[i + 9:close]
    if len(args) != 3 or args[0].text not in ("true", "false") or args[1].text != "," or args[2].kind != "str":
        raise TranslateError("AsciiDenyList::%s: unexpected arguments" % name)
    return args[0].text == "true", parse_bstr(args[2].text)


def read_mask_fn(toks, fname, shapes):
    """const fn <fname>() -> u128: `while b < 128 { if <cond> { accu |= 1u128 << b; } b += 1; }`;
    cond must be one of the known shapes; returns the member list"""
    body, _, _ = fn_body(toks, fname)
    i = find_seq(body, ["while", "b", "<", "128", "{", "if"])
    if i < 0:
        raise TranslateError("%s: loop not in the expected shape" % fname)
    j = i + 6
    k = j
    while body[k].text != "{":
        k += 1
    cond = [t.text for t in body[j:k]]
    rest = [t.text for t in body[k:k + 9]]
    if rest != ["{", "accu", "|=", "1u128", "<<", "b", ";", "}", "b"]:
        raise TranslateError("%s: loop body not in the expected shape" % fname)
    for shape, fn in shapes:
        if len(shape) == len(cond) and all(s is None or s == c for s, c in zip(shape, cond)):
            lits = [c for s, c in zip(shape, cond) if s is None]
            return fn(lits)
    raise TranslateError("%s: unrecognised condition %s" % (fname, " ".join(cond)))


def _lit(t):
    return parse_bchar(t) if t.startswith("b'") else parse_int(t)


def extend(repo, V, J):
    t_host = tokenize(read(repo, "url/src/host.rs"))
    t_uts = tokenize(read(repo, "idna/src/uts46.rs"))

    host_chars = read_invalid_host_chars(t_host)
    deny_name = read_host_idna_call(t_host)
    glyphless, deny_chars = read_deny_list(t_uts, deny_name)

    # the two implicit components of AsciiDenyList::new
    k = find_seq(t_uts, ["let", "mut", "bits", "=", "UPPER_CASE_MASK", ";", "if", "deny_glyphless", "{",
                         "bits", "|=", "GLYPHLESS_MASK", ";", "}"])
    if k < 0:
        raise TranslateError("AsciiDenyList::new: mask composition not in the expected shape")
    if find_seq(t_uts, ["const", "UPPER_CASE_MASK", ":", "u128", "=", "upper_case_mask", "(", ")", ";"]) < 0 or \
       find_seq(t_uts, ["const", "GLYPHLESS_MASK", ":", "u128", "=", "glyphless_mask", "(", ")", ";"]) < 0:
        raise TranslateError("UPPER_CASE_MASK / GLYPHLESS_MASK not defined by their mask functions")
    upper = read_mask_fn(t_uts, "upper_case_mask", [
        (["(", "b", ">=", None, ")", "&&", "(", "b", "<=", None, ")"],
         lambda l: [b for b in range(128) if _lit(l[0]) <= b <= _lit(l[1])]),
    ])
    glyph = read_mask_fn(t_uts, "glyphless_mask", [
        (["(", "b", "<=", None, ")", "||", "(", "b", "==", None, ")"],
         lambda l: [b for b in range(128) if b <= _lit(l[0]) or b == _lit(l[1])]),
    ])
    denied = sorted(set(upper) | (set(glyph) if glyphless else set()) | set(deny_chars))

    V.append("(* ---- C09: literal sets of url/src/host.rs and the idna deny list Host::parse passes ---- *)")
    V.append("(* is_invalid_host_char in Host::parse_opaque *)")
    V.append("Definition T_HOST_INVALID_HOST_CHARS : list N := %s." % coq_list(host_chars))
    V.append("(* idna::AsciiDenyList::%s = new(%s, <string>): the string, and the full denied ASCII set"
             " (upper case + glyphless + string) *)" % (deny_name, "true" if glyphless else "false"))
    V.append("Definition T_HOST_IDNA_DENY_STRING : list N := %s." % coq_list(deny_chars))
    V.append("Definition T_HOST_IDNA_DENY_GLYPHLESS : list N := %s." % coq_list(glyph if glyphless else []))
    V.append("Definition T_HOST_IDNA_DENY_UPPER : list N := %s." % coq_list(upper))
    V.append("Definition T_HOST_IDNA_DENIED : list N := %s." % coq_list(denied))
    V.append("")
    J["host_invalid_host_chars"] = host_chars
    J["host_idna_deny_list_name"] = deny_name
    J["host_idna_deny_string"] = deny_chars
    J["host_idna_denied"] = denied
