"""Inventory reader for C04 (total, panic-free public API).

Reads every `.rs` file below `<crate>/src/` of the five workspace crates and emits

  T_C04_API     : list (list N * list N)          (crate, qualified name) of every `pub fn` / `pub const fn`
                                                  / `pub unsafe fn` outside `#[cfg(test)]` modules, in source order
  T_C04_UNSAFE  : list (list N * list N * list N) (file, enclosing fn, what) of every `unsafe` token and of every
                                                  `*unchecked*` identifier that is not inside an unsafe block;
                                                  what = "unsafe:" ++ the `*unchecked*` identifiers inside the block
  T_C04_PANICS  : list (list N * list N * list N * N)
                                                  (file, enclosing fn, macro, count) for panic!/unreachable!/
                                                  unimplemented!/todo!/assert*!/debug_assert*! outside test modules

as byte lists (so that Proofs/C04_Inventory.v can compare them with the committed, audited lists by
vm_compute: a new public function or a new unsafe site breaks a theorem), plus the same with file,
line and signature text in tables.json (keys c04_api, c04_unsafe, c04_panics) for the harness.

Qualified name: `Type::f` for a function inside `impl .. Type` / `impl Trait for Type` / `trait Type`,
`mod::f` for a free function of a file other than lib.rs (or of an inline module), plain `f` otherwise.

Fails closed: an `impl` header or item shape that is not recognised raises TranslateError.
"""
import os

from rustlex import TranslateError, tokenize, match_close
from tablib import read, coq_list

CRATES = [("url", "url"), ("idna", "idna"), ("percent_encoding", "percent_encoding"),
          ("form_urlencoded", "form_urlencoded"), ("data-url", "data_url")]

PANIC_MACROS = ("panic!", "unreachable!", "unimplemented!", "todo!", "assert!", "assert_eq!", "assert_ne!",
                "debug_assert!", "debug_assert_eq!", "debug_assert_ne!")


def _bytes(s):
    return list(s.encode("utf-8"))


def _skip_generics(toks, i):
    """toks[i] is '<': index after the matching '>' (handles '>>' and '->')"""
    depth = 0
    while i < len(toks):
        t = toks[i].text
        if t == "<":
            depth += 1
        elif t == "<<":
            depth += 2
        elif t == ">":
            depth -= 1
        elif t == ">>":
            depth -= 2
        i += 1
        if depth <= 0:
            return i
    raise TranslateError("unbalanced generics at line %d" % toks[i - 1].line)


def _impl_type(toks, i, j):
    """type name of `impl` header toks[i:j] (toks[i] = 'impl', toks[j] = '{')"""
    k = i + 1
    if toks[k].text == "<":
        k = _skip_generics(toks, k)
    hdr = toks[k:j]
    # cut a where clause
    for n, t in enumerate(hdr):
        if t.text == "where":
            hdr = hdr[:n]
            break
    # `Trait for Type`: take what follows the last top-level `for`
    depth = 0
    last_for = -1
    for n, t in enumerate(hdr):
        if t.text in ("<", "("):
            depth += 1
        elif t.text in (">", ")"):
            depth -= 1
        elif t.text == "<<":
            depth += 2
        elif t.text == ">>":
            depth -= 2
        elif t.text == "for" and depth == 0:
            last_for = n
    ty = hdr[last_for + 1:]
    # strip leading & 'a mut dyn
    while ty and (ty[0].text in ("&", "mut", "dyn") or ty[0].kind == "lifetime"):
        ty = ty[1:]
    # path: a::b::Name<..>  -> Name
    name = None
    n = 0
    while n < len(ty):
        if ty[n].kind == "ident":
            name = ty[n].text
            n += 1
            if n < len(ty) and ty[n].text == "::":
                n += 1
                continue
        break
    if name is None:
        raise TranslateError("impl header not recognised at line %d" % toks[i].line)
    return name


def _is_cfg_test(toks, i):
    """toks[i:] starts with # [ cfg ( test ) ] or # [ test ]; returns the number of tokens (0 = no)"""
    if [t.text for t in toks[i:i + 7]] == ["#", "[", "cfg", "(", "test", ")", "]"]:
        return 7
    if [t.text for t in toks[i:i + 4]] == ["#", "[", "test", "]"]:
        return 4
    return 0


def scan_file(rel, src, module):
    """returns (fns, unsafes, panics); fns = (qualified name, line, signature)"""
    toks = tokenize(src)
    fns, unsafes, panics = [], [], {}
    panic_order = []
    # stack of (kind, name, close_index); kinds: impl, mod, trait, fn, test, unsafe, macro
    stack = []
    pending_test = False
    i = 0
    n = len(toks)

    def qualifier():
        for kind, name, _ in reversed(stack):
            if kind in ("impl", "trait"):
                return name
        mods = ([module] if module else []) + [nm for k, nm, _ in stack if k == "mod"]
        return "::".join(mods)

    def enclosing_fn():
        for kind, name, _ in reversed(stack):
            if kind == "fn":
                q = None
                for k2, n2, _ in reversed(stack):
                    if k2 in ("impl", "trait"):
                        q = n2
                        break
                return (q + "::" + name) if q else name
        for kind, name, _ in reversed(stack):
            if kind == "macro":
                return "macro:" + name
        return "-"

    def in_kind(k):
        return any(s[0] == k for s in stack)

    while i < n:
        while stack and stack[-1][2] <= i:
            stack.pop()
        t = toks[i]
        tx = t.text
        if tx == "#" and _is_cfg_test(toks, i):
            pending_test = True
            i += _is_cfg_test(toks, i)
            continue
        if tx == "macro_rules!":
            # the body is scanned like ordinary code (a macro may define impls with pub fns, e.g.
            # SyntaxViolation::description); the frame only names panic sites outside any fn
            j = i + 1
            while toks[j].text not in ("{", "(", "["):
                j += 1
            k = match_close(toks, j)
            stack.append(("macro", toks[i + 1].text, k))
            i = j + 1
            continue
        if tx == "mod" and toks[i + 1].kind == "ident":
            name = toks[i + 1].text
            if toks[i + 2].text == "{":
                k = match_close(toks, i + 2)
                stack.append(("test" if pending_test else "mod", name, k))
                pending_test = False
                i += 3
                continue
            pending_test = False
            i += 3
            continue
        if tx == "impl" and (i == 0 or toks[i - 1].text not in ("->", ":", "(", ",", "&", "<", "+", "=", "dyn")):
            j = i
            depth = 0
            while True:
                j += 1
                if toks[j].text in ("(", "["):
                    depth += 1
                elif toks[j].text in (")", "]"):
                    depth -= 1
                elif toks[j].text == "{" and depth == 0:
                    break
                elif toks[j].text == ";" and depth == 0:
                    raise TranslateError("%s: impl without body at line %d" % (rel, t.line))
            k = match_close(toks, j)
            stack.append(("impl", _impl_type(toks, i, j), k))
            pending_test = False
            i = j + 1
            continue
        if tx == "trait" and toks[i + 1].kind == "ident":
            j = i
            while toks[j].text != "{":
                j += 1
            k = match_close(toks, j)
            stack.append(("trait", toks[i + 1].text, k))
            i = j + 1
            continue
        if tx == "fn" and toks[i + 1].kind == "ident":
            name = toks[i + 1].text
            # visibility: look back over `const` `unsafe` `async` `extern "C"`
            b = i - 1
            while b >= 0 and (toks[b].text in ("const", "unsafe", "async", "extern") or toks[b].kind == "str"):
                b -= 1
            is_pub = b >= 0 and toks[b].text == "pub"
            # `pub(crate)`: toks[b] is ')' - not public
            # find body or ';'
            j = i + 2
            depth = 0
            body_open = None
            while j < n:
                x = toks[j].text
                if x in ("(", "["):
                    depth += 1
                elif x in (")", "]"):
                    depth -= 1
                elif x == "{" and depth == 0:
                    body_open = j
                    break
                elif x == ";" and depth == 0:
                    break
                j += 1
            sig = " ".join(tk.text for tk in toks[(b if is_pub else i):j])
            is_test_fn = pending_test
            pending_test = False
            if is_pub and not in_kind("test") and not in_kind("fn"):
                q = qualifier()
                fns.append(((q + "::" + name) if q else name, t.line, sig))
            if body_open is not None:
                k = match_close(toks, body_open)
                stack.append(("test" if is_test_fn else "fn", name, k))
                i = body_open + 1
            else:
                i = j + 1
            continue
        if tx == "unsafe" and not in_kind("test"):
            # unsafe block / unsafe fn / unsafe impl
            j = i + 1
            what = "unsafe"
            if toks[j].text == "{":
                k = match_close(toks, j)
                names = [x.text for x in toks[j:k] if x.kind == "ident" and "unchecked" in x.text]
                what = "unsafe:" + ",".join(names)
                stack.append(("unsafe", "", k))
                unsafes.append((rel, enclosing_fn(), what, t.line))
                i = j + 1
                continue
            unsafes.append((rel, enclosing_fn(), "unsafe-" + toks[j].text, t.line))
            i += 1
            continue
        if t.kind == "ident" and "unchecked" in tx and not in_kind("unsafe") and not in_kind("test"):
            unsafes.append((rel, enclosing_fn(), tx, t.line))
        if tx in PANIC_MACROS and not in_kind("test"):
            key = (rel, enclosing_fn(), tx)
            if key not in panics:
                panics[key] = 0
                panic_order.append(key)
            panics[key] += 1
        if tx not in ("#", "[", "]", "pub") and t.kind != "lifetime" and pending_test and tx in ("struct", "enum", "use", "const", "static", "type"):
            pending_test = False
        i += 1
    return fns, unsafes, [(k[0], k[1], k[2], panics[k]) for k in panic_order]


def rs_files(repo, crate_dir):
    out = []
    root = os.path.join(repo, crate_dir, "src")
    for d, ds, fs in os.walk(root):
        ds.sort()
        for f in sorted(fs):
            if f.endswith(".rs"):
                out.append(os.path.relpath(os.path.join(d, f), repo))
    # lib.rs first, then the others in name order
    out.sort(key=lambda p: (0 if p.endswith("/src/lib.rs") else 1, p))
    if not out:
        raise TranslateError("no Rust sources below %s" % root)
    return out


def module_of(rel, crate_dir):
    p = rel[len(crate_dir) + len("/src/"):]
    p = p[:-3]
    if p == "lib":
        return ""
    if p.endswith("/mod"):
        p = p[:-4]
    return p.replace("/", "::")


def _pair_list(name, ty, rows, fmt):
    lines = ["Definition %s : %s := [" % (name, ty)]
    lines.append(";\n".join("  " + fmt(r) for r in rows))
    lines.append("]." if rows else "].")
    return "\n".join(lines)


def extend(repo, V, J):
    api, uns, pan = [], [], []
    for crate_dir, crate in CRATES:
        for rel in rs_files(repo, crate_dir):
            fns, u, p = scan_file(rel, read(repo, rel), module_of(rel, crate_dir))
            for name, line, sig in fns:
                api.append({"crate": crate, "name": name, "file": rel, "line": line, "sig": sig})
            for f, fn, what, line in u:
                uns.append({"file": f, "fn": fn, "what": what, "line": line})
            for f, fn, mac, cnt in p:
                pan.append({"file": f, "fn": fn, "macro": mac, "count": cnt})
    if len(api) < 50:
        raise TranslateError("C04 inventory: only %d public functions found" % len(api))
    V.append("(* ---- C04: inventories of the public API, the unsafe sites and the panic-macro sites ---- *)")
    V.append(_pair_list("T_C04_API", "list (list N * list N)", api,
                        lambda r: "(%s, %s)" % (coq_list(_bytes(r["crate"])), coq_list(_bytes(r["name"])))))
    V.append(_pair_list("T_C04_UNSAFE", "list (list N * list N * list N)", uns,
                        lambda r: "(%s, %s, %s)" % (coq_list(_bytes(r["file"])), coq_list(_bytes(r["fn"])),
                                                    coq_list(_bytes(r["what"])))))
    V.append(_pair_list("T_C04_PANICS", "list (list N * list N * list N * N)", pan,
                        lambda r: "(%s, %s, %s, %d)" % (coq_list(_bytes(r["file"])), coq_list(_bytes(r["fn"])),
                                                        coq_list(_bytes(r["macro"])), r["count"])))
    V.append("")
    J["c04_api"] = api
    J["c04_unsafe"] = uns
    J["c04_panics"] = pan


if __name__ == "__main__":
    import sys
    V, J = [], {}
    extend(sys.argv[1] if len(sys.argv) > 1 else "/repo", V, J)
    for r in J["c04_api"]:
        print("%-16s %-44s %s:%d" % (r["crate"], r["name"], r["file"], r["line"]))
    print(len(J["c04_api"]), "public fns")
    for r in J["c04_unsafe"]:
        print("UNSAFE %s %s %s :%d" % (r["file"], r["fn"], r["what"], r["line"]))
    print(len(J["c04_unsafe"]), "unsafe sites")
    for r in J["c04_panics"]:
        print("PANIC %s %s %s x%d" % (r["file"], r["fn"], r["macro"], r["count"]))
    print(len(J["c04_panics"]), "panic-macro groups")
