#!/bin/sh
# Development aid (not a registered check): run ./check <prop> against a scratch copy of /repo with a
# patch applied.   tools/drill.sh C14 path/to/patch.diff [--tier quick]
# The scratch worktree and its build output are removed afterwards.
set -u
prop="$1"; patch="$(readlink -f "$2")"; shift 2
here="$(cd "$(dirname "$0")/.." && pwd)"
scratch="/tmp/drill-$prop-$$"
git -C /repo worktree add -q --detach "$scratch" HEAD || exit 2
( cd "$scratch" && git apply "$patch" ) || { git -C /repo worktree remove --force "$scratch"; echo "patch does not apply"; exit 2; }
( cd "$here" && VERIF_REPO="$scratch" ./check "$prop" "$@" ); rc=$?
h=$(python3 -c "import hashlib,sys;print(hashlib.sha256(sys.argv[1].encode()).hexdigest()[:8])" "$scratch")
rm -rf "$here/build/target-$h" "$here/build/harness-$h"
git -C /repo worktree remove --force "$scratch"
# put the tables back to /repo's
( cd "$here" && python3 tools/gen_tables.py /repo coq/Gen >/dev/null )
echo "drill rc=$rc"
exit $rc
