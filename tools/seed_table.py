#!/usr/bin/env python3
"""Rewrites the table of DESIGN.md section 13.4 (between the markers <!-- seed-table:begin --> / <!-- seed-table:end -->)
from seeded/*/meta.json.  Development aid, not part of a check."""
import glob, json, os, re
ROOT = os.path.dirname(os.path.dirname(os.path.abspath(__file__)))
rows = []
for d in sorted(glob.glob(os.path.join(ROOT, "seeded", "*", "meta.json"))):
    m = json.load(open(d))
    name = os.path.basename(os.path.dirname(d))
    summ = re.sub(r"\s+", " ", m.get("summary") or "").replace("|", "\\|")
    needs = re.sub(r"\s+", " ", m.get("needs") or "").replace("|", "\\|")
    cut = lambda s, n: s if len(s) <= n else s[: n - 1].rsplit(" ", 1)[0] + " …"
    if m.get("caught"):
        how = "caught: " + ", ".join(m.get("replay_broken") or ["?"])
        how += "; failing input `%s`" % cut((m.get("replay_request") or "").replace("|", "\\|").replace("`", "'"), 70) if m.get("caught_with_input") else "; no-failing-input-found"
    else:
        how = "**MISSED**"
    if m.get("history"):
        how = m["history"] + " " + how
    rows.append("| %s | %s | %s | %s |" % (name, cut(summ, 230), cut(needs, 170), how))
table = "| Seed | Change | Needs | Result of `./check` on the patched tree |\n|---|---|---|---|\n" + "\n".join(rows) + "\n"
p = os.path.join(ROOT, "DESIGN.md")
s = open(p).read()
a, b = "<!-- seed-table:begin -->\n", "<!-- seed-table:end -->\n"
if a in s:
    s = s[: s.index(a) + len(a)] + table + s[s.index(b):]
    open(p, "w").write(s)
    print("table rewritten: %d seeds, %d missed" % (len(rows), sum(r.rstrip().endswith("**MISSED** |") for r in rows)))
else:
    print(table)
