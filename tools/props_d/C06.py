ID = "C06"

PROP = {
    "coq_targets": ["Properties/C06.vo", "Extract/ExUrl.vo"],
    "driver": {"model": "url_model.ml", "src": "drv_url.ml", "exe": "url_driver"},
    "bin": "c06",
    "harness_args": ["C06"],
    "profiles": ["dev"],
    "rule": "streams: corpus of histories; exhaustive (every start URL of a 43-URL pool x every operation kind x every argument of an 85-string delimiter-rich pool, one step each); random histories of 1-8 mutating calls (Url::set_*, set_ip_host, path_segments_mut sessions, quirks setters) from pool or randomly generated parsed URLs. After every step the model and the implementation are compared on the whole record (serialization, 7 offsets, host kind, port) and the returned status, all 16 read accessors and the 10 quirks getters - this is the before/after getter vector and the byte-equality of as_str() across failing calls that C06 needs. wf_b is evaluated by the model on every observed record (histogram key wf_b:*). Non-trivial = every step/observation; distinct = distinct request lines. In search mode (only after a proof or the correspondence broke) prop_c06 evaluates on the implementation: failed call => identical Url; successful call => every component outside touched(op) unchanged.",
    "trusted_base": [
        "Model/Parser.v, Model/Setters.v, Model/UrlRecord.v are hand-written models of url/src/{parser,lib,slicing,quirks,path_segments}.rs tied to the code only by the correspondence",
        "host parsing/serialisation inside the URL model is answered by the real crate (oracle queries hp/ho/hd); the theorems quantify over arbitrary host functions and ask of host_display only host_disp_ok (empty text for the empty host, otherwise non-empty and not starting with ':' or '@')",
    ],
    "assumptions": [
        "every theorem except C06_atomic is about records satisfying wfh = wf_b (executable invariant of Model/WF.v) + host_text_ok (a host, if present, has non-empty text not starting with ':' or '@'); C06_wf proves that the setters covered preserve wfh, that Url::parse results satisfy it is C02's L1 (not proved here; the run reports wf_b on every observed record)",
        "string arguments of set_query are lists of Unicode scalar values (a &str); port arguments are u16",
    ],
    "known_classes": [
        "F-C06-5: set_host(None) when the path is empty and ends the serialization (path becomes '/') - excluded from C06_frame/C06_couple/C06_wf by path_empty_at_end u = false, refuted by witness in C06_known_refuted",
        "F-C02-2: set_host(None) when the path starts with '//' - excluded by path_starts_with_2slash u = false, refuted by witness",
        "F-C02-4: set_host(Some \"\") / set_ip_host with an empty host on a URL that has a port - excluded by (hi_of_host h = HI_None -> port u = None), refuted by witness",
        "F-C03-5: host setters on an authority-less URL carrying the '/.' marker - excluded by (has_authority_b u = false -> path_start u = scheme_end u + 1), refuted by witness",
        "F-C02-3 / F-C02-8: set_path on an opaque path / set_path(\"//x\") on an authority-less URL - inside the part that is only stated (C06_frame_path_statement)",
    ],
    "theorem_notes": {
        "C06_atomic": "FULL: all 13 status-returning mutators (Url::set_port/set_host/set_ip_host/set_password/set_username/set_scheme, a whole path_segments_mut session, the six quirks setters with a status), every record (no invariant needed), every argument, both build configurations, arbitrary host functions: a result with status <> Ok carries the input record itself",
        "C06_frame": "per mutator, for wfh records: set_fragment, set_query (incl. the documented opaque-path space stripping when the last of query/fragment is removed, stated exactly), set_port, set_password, set_username, set_scheme, set_host(None), set_host(Some), set_ip_host - every accessor outside the touched set reads the same. Explicit exclusions: the four known classes above. NOT covered: set_path, path_segments_mut (statements kept as C06_frame_path_statement / C06_frame_segments_statement; they need the alphabet of the path parser's output, C05), and the frame of the quirks setters (their failure atomicity is in C06_atomic; q_set_username/password/protocol are definitionally the Url setters)",
        "C06_get": "fragment/query read back as the text the parser state writes for the argument (tnl_text / query_text, closed form C06_text); port as norm_port; password/username as utf8_percent_encode(arg, USERINFO) - for set_username with the code's shortcut made explicit: if the stored username already equals the raw UTF-8 bytes of the argument nothing is written; scheme as the lower-cased scheme parse_scheme returns; host as host_display of the given host. 'identical to what the parser produces' is by construction for fragment/query/scheme (the setter calls the parser state; tnl_text IS that function) and is not separately proved for userinfo/host/port (C02)",
        "C06_couple": "FULL for the three couplings of the text: set_host(None) => username \"\", password None, host None, port None (outside F-C06-5/F-C02-2); set_port(default of the scheme) stores None; set_scheme re-normalises the port against the new default",
        "C06_wf": "the setters covered by C06_frame preserve wfh (names for import: set_fragment_wf, set_query_wf, set_port_internal_wf, set_port_wf, set_password_wf, set_username_wf, set_scheme_wf, set_host_none_wf, set_host_internal_wf, set_ip_host_wf in Proofs/C06_Main.v)",
        "C06_nopanic": "set_fragment, set_query, set_port, set_password, set_username, set_scheme never reach a panic (model None) on a wfh record - including every debug assertion and the u32 offset arithmetic",
        "C06_known_refuted": "vm_compute witnesses for the four excluded classes",
        "C06_frame_path_statement": "stated, not proved",
        "C06_frame_segments_statement": "stated, not proved",
    },
}

TEXT = {
    "level": "Machine-checked Coq theorems (8, closed under the global context) about the executable Gallina model of all Url mutators. FULL: failure atomicity (C06_atomic) for all 13 status-returning mutators on every record. For every record satisfying the executable invariant wfh and both build configurations: frame condition, get-after-set, the three documented couplings, preservation of the invariant and panic-freedom for set_fragment, set_query, set_port, set_password, set_username, set_scheme, set_host(None), set_host(Some)/set_ip_host - with four explicit computable exclusions (F-C06-5, F-C02-2, F-C02-4, F-C03-5), each refuted by a witness. PARTIAL: set_path and path_segments_mut sessions are covered only by C06_atomic; their frame/get statements are kept as Definitions (C06_frame_path_statement, C06_frame_segments_statement). The model is tied to the code by the correspondence run on single steps and histories (record, status, 16 accessors, 10 quirks getters).",
    "design_ref": "DESIGN.md section 8 C06, section 10 (C06, documented couplings)",
    "note": "The offset arithmetic of every setter (the `adjust` closures, u32 wrap/overflow under debug assertions) is discharged symbolically for all combinations of present/absent credentials, port, query, fragment. Not proved: that parse results satisfy wfh (C02), frame/get for set_path and path_segments_mut (need the path parser's output alphabet), frame of the quirks host/port setters. The search-mode property (prop_c06) checks atomicity and frame on the implementation; get-after-set and the couplings are compared through the model (any deviation is a correspondence break). Trusted: Coq kernel + vm_compute, extraction + OCaml driver, the correspondence generators, host functions answered by the real crate.",
    "technique": "Coq proof over Gallina model of the Url record and mutators + extracted-model/implementation correspondence on histories",
}
