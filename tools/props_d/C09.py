ID = "C09"

PROP = {
        "coq_targets": ["Properties/C09.vo", "Extract/ExC09.vo"],
        "driver": {"model": "c09_model.ml", "src": "drv_c09.ml", "exe": "c09_driver"},
        "bin": "c09",
        "profiles": ["dev"],
        "rule": "streams: corpus (literal list in c09.rs: percent-escaped hosts, hosts ending in numbers, IPv6 edge cases, forbidden code points); exhaustive (all 256 zero/non-zero patterns of the eight IPv6 groups x piece values {1, 0xabcd, 0xffff} through Display / parse / parse_opaque; IPv4 spellings with 1-5 parts x radix {dec, octal, 0x, 0X} x boundary values {0, 1, max-1, max, max+1} of each position x trailing dot; all 128 single ASCII characters and all pairs over a 25-symbol host class alphabet for parse and parse_opaque, strings <= 4 (quick) / 5 (thorough) over a 12-symbol alphabet; bracketed IPv6 token strings of <= 5 (quick) / 6 (thorough) tokens over {0,1,f,F,:,::,.,255,256,g}); structured random (addresses, IPv6 texts in four spellings with embedded IPv4 tails, IPv4 texts in mixed radix, domains from label atoms incl. percent escapes / IDNA-mapped / forbidden code points); malformed (character-level mutations). Every parse request also compares Display of the result and the re-parse of that text. A case is non-trivial when its input is non-empty; distinct = distinct request lines among those.",
        "trusted_base": [
            "modelled, not verified: idna::domain_to_ascii_cow(bytes, AsciiDenyList::URL) is an abstract function (Section variable idna_to_ascii) in every theorem; in the correspondence the extracted model asks the real idna crate through the oracle protocol",
            "modelled, not verified: u32::from_str_radix, char::to_digit, `{:x}` of u16, `{}` of u8, Display of Ipv4Addr, str::split / rsplit, String::from_utf8 of percent-encoder output (identified with the definitions in Model/Host.v; cross-checked by the correspondence)",
        ],
        "assumptions": [
            "a &str is the list of its Unicode scalar values; Ipv6Addr is a list of eight N below 2^16; Ipv4Addr is an N below 2^32",
        ],
        "known_classes": [],
        "theorem_notes": {},
    }

TEXT = {
  "level": "Machine-checked Coq theorems about an executable Gallina model of url/src/host.rs, tied to the code by a correspondence run of the extracted model against the crate built from /repo.",
  "design_ref": "DESIGN.md section 8 C09, Appendix A.2, Appendix B.3",
  "note": "Trusted: Coq kernel + vm_compute; translator (tools/tables_c09.py); extraction + OCaml driver; the correspondence generators; idna is an oracle.",
  "technique": "Coq proof over Gallina model + table translator + extracted-model/implementation correspondence",
 }
