ID = "C20"

PROP = {
    "coq_targets": ["Properties/C20.vo", "Extract/ExC20.vo"],
    "driver": {"model": "c20_model.ml", "src": "drv_c20.ml", "exe": "c20_driver"},
    "bin": "c20",
    "profiles": ["dev"],
    "rule": "TODO",
    "trusted_base": [],
    "assumptions": [],
    "known_classes": [],
    "theorem_notes": {},
}

TEXT = {
    "level": "TODO",
    "design_ref": "DESIGN.md section 8 C20",
    "note": "TODO",
    "technique": "Coq proof over Gallina model + extracted-model/implementation correspondence",
}
