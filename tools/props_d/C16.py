ID = "C16"

PROP = {
    "coq_targets": ["Properties/C16.vo", "Extract/ExC16.vo"],
    "driver": {"model": "c16_model.ml", "src": "drv_c16.ml", "exe": "c16_driver"},
    "bin": "c16",
    "profiles": ["dev"],
    "rule": "TODO",
    "trusted_base": [],
    "assumptions": [],
    "known_classes": [],
    "theorem_notes": {},
}

TEXT = {
    "level": "TODO",
    "design_ref": "DESIGN.md section 8 C16, sections 4 and 6",
    "note": "TODO",
    "technique": "Coq proof over Gallina model + table translator + extracted-model/implementation correspondence",
}
