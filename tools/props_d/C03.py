ID = "C03"

PROP = {
    "coq_targets": ["Properties/C03.vo", "Extract/ExUrl.vo"],
    "driver": {"model": "url_model.ml", "src": "drv_url.ml", "exe": "url_driver"},
    "bin": "urlhist",
    "harness_args": ["C03"],
    "profiles": ["dev"],
    "rule": "streams: corpus of histories; exhaustive (every start URL of a 43-URL pool x every operation kind x every argument of an 91-string delimiter-rich pool, one step each); random histories of 1-8 mutating calls (Url::set_*, set_ip_host, path_segments_mut sessions, quirks setters) from pool or randomly generated parsed URLs. After steps the model and the implementation are compared on: the whole record (serialization, 7 offsets, host kind, port) and status, all 16 read accessors, the 10 quirks getters, and (sampled) all 16 x 18 Position range forms incl. panics. wf_b is evaluated by the model on every observed record (histogram key wf_b:*). Non-trivial = every step/observation (each has a non-empty URL); distinct = distinct request lines.",
    "trusted_base": [
        "Model/Parser.v, Model/Setters.v, Model/UrlRecord.v are hand-written models of url/src/{parser,lib,slicing,quirks,path_segments}.rs tied to the code only by the correspondence",
        "host parsing/serialisation inside the URL model is Model/Host.v (property C09); only IDNA ToASCII (idna::domain_to_ascii_cow with AsciiDenyList::URL, as host.rs calls it) is answered by the real idna crate through an oracle query",
        "Eq/Ord/Hash/Display/FromStr/serde are functions of the serialization in the model; their tie to std/serde is exercised only in the search phase (harness/src/urlprops.rs)",
    ],
    "assumptions": [
        "the theorems are about records satisfying the executable invariant wf_b; that parse results and setter results satisfy it is not proved (C03_reachability_statement) - the run reports how many observed records do (wf_b:1 vs wf_b:0) and which operation classes leave it",
    ],
    "known_classes": [
        "records outside wf_b reached on the pinned tree (all pre-existing, listed in known_findings.json): F-C03-5 host/path setters on an authority-less URL carrying the '/.' marker leave '/.' between host and path; F-C02-3 set_path on an opaque path does not encode '?'/'#'; F-C02-2 set_host(None) / F-C02-8 set_path(\"//x\") on an authority-less URL produce a '//'-leading path without marker",
        "F-C03-4 cannot_be_a_base() = false but path_segments() = None for a non-special URL with authority and empty path (a://h)",
    ],
    "theorem_notes": {
        "C03_views": "host_str = Display(host) for IP hosts needs the host text invariant (host slice = canonical text of the host kind), which is part of C02's L1 and is not in wf_b; it is compared by the correspondence (getter 'host' vs 'host_str')",
        "C03_reachability_statement": "stated, not proved",
    },
}

TEXT = {
    "level": "Machine-checked Coq theorems (5, closed under the global context) for EVERY Url record satisfying the executable structural invariant wf_b and for both build configurations: each of the 16 Positions maps to an in-bounds index (no Index impl can panic), indices are monotone in Position order, all range forms succeed and consecutive ranges re-concatenate to the serialization, and scheme ':' ['//' [username [':' password] '@'] host [':' port]] ['/.'] path ['?' query] ['#' fragment] assembled from the accessors equals the serialization byte for byte; overlapping views (has_authority/has_host/host/host_str/domain/port_or_known_default) agree. The models of the accessors, Position mapping and all mutators are tied to the code by a correspondence run over single steps and histories (record, status, 16 accessors, 10 quirks getters, all Position ranges).",
    "design_ref": "DESIGN.md section 8 C03, section 13",
    "note": "Partial: that every reachable Url satisfies wf_b (parser and setter preservation) is stated (C03_reachability_statement) but not proved; the run measures it on every observed record and lists the (pre-existing, known) classes that leave wf_b. Eq/Ord/Hash/Display/serde agreement is definitional in the model (functions of the serialization) and exercised against std/serde only by the search phase. Trusted: Coq kernel + vm_compute, extraction + OCaml driver, the correspondence generators, IDNA ToASCII answered by the real idna crate (the host model is Model/Host.v).",
    "technique": "Coq proof over Gallina model of the Url record/accessors + extracted-model/implementation correspondence on histories",
}
