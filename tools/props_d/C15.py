ID = "C15"

PROP = {
        "coq_targets": ["Extract/ExUrl.vo", "Properties/C15.vo", "Extract/ExC15.vo"],
        "driver": {"model": "c15_model.ml", "src": "drv_c15.ml", "exe": "c15_driver"},
        "bin": "c15",
    "also": [{"bin": "urlhist", "driver": {"model": "url_model.ml", "src": "drv_url.ml", "exe": "url_driver"}, "harness_args": ["C15"]}],
        "profiles": ["dev"],
        "rule": "streams: corpus; exhaustive (parse: all byte strings of length <= 5 (quick) / 6 (thorough) over {a,&,=,+,%,4,1,0xC3,0xA9,space}, all single bytes; byte_serialize: all single bytes, all strings <= 4 / 5 over a 9-class alphabet, one-step iterator protocol <= 3; byte_serialized_unchanged on all 256 bytes; Serializer: all pair lists of length <= 2 over a 6-string pool as append_pair sequence / extend_pairs / serialize_pairs, all key-only lists <= 2, for_suffix on 10 initial contents x every start 0..=len+1 x 3 target kinds (String, &mut String, a custom Target) x 19 scripts incl. clear, encoding_override, double finish, operations after finish); random structured (query-shaped text; op histories <= 7 over pools with every delimiter, astral and NUL code points); serializer output re-parsed; malformed random bytes. A case is non-trivial when its input / op list is non-empty; distinct = distinct request lines among those.",
        "trusted_base": [
            "modelled, not verified: String::from_utf8_lossy is identified with Base/Utf8.v (utf8_lossy), str::is_char_boundary / String::truncate with Model/FormUrlencoded.v (is_char_boundary, string_truncate); cross-checked by the parse and ser streams",
            "tools/tables_c15.py reads the byte_serialized_unchanged pattern, the separator / plus / space literals and the panic sites from form_urlencoded/src/lib.rs",
            "a String is modelled as the list of its UTF-8 bytes; Target::as_mut_string as a get/set pair (lens) on the target",
        ],
        "assumptions": [
            "names and values are lists of Unicode scalar values; byte strings are lists of N below 256",
            "an encoding override is an arbitrary function from code points to byte lists (a pure function; a stateful closure is outside the model)",
            "generic-Target theorems assume the lens laws get(set t s) = s, set(set t a) b = set t b (as_mut_string returns the same String every time)",
        ],
        "known_classes": ["F-C15-1 (also a C04 matter): Known_C15_1 target start ops = start_position is not a char boundary of the target and the history contains clear(); then clear() panics in String::truncate, an undocumented panic. C15_suffix excludes exactly this class, C15_1_known_refuted shows it inhabited, C15_panics shows it is the only undocumented panic of the Serializer."],
        "theorem_notes": {
            "C15_rt": "full: every list of pairs of scalar-value strings, empty names / values included (the pair (\"\", \"\") is written as \"=\"); through extend_pairs (serialize_pairs) and through a sequence of append_pair calls",
            "C15_rt_ops": "full for append-only histories (append_pair, append_key_only, extend_pairs, extend_keys_only in any order): a key without value reads back as (k, \"\"), the empty key writes nothing (DESIGN section 10)",
            "C15_alpha": "full: any history from the empty String, including clear and arbitrary byte-valued encoding overrides",
            "C15_total": "full: parse is a total function of arbitrary N lists; its type has no panic outcome by construction and the loop fuel (None) is proved never exhausted; && / leading / trailing '&' laws; closed form parse_spec",
            "C15_suffix": "full, stronger than asked: the existing suffix may be ANY text (not only serializer output); histories may contain clear and encoding_override (the read-back pairs are then given by ops_effect, with utf8_lossy of the override's bytes); exclusion ~Known_C15_1 (F-C15-1)",
            "C15_suffix_generic": "the same over any Target satisfying the three lens laws; this is the lemma the URL-editing clause (Url::query_pairs_mut, maintainer's part) instantiates; the clause itself is NOT part of this file",
            "C15_url": "full (coq/Proofs/C15_Url.v, over Model/QueryPairs.v): for every well-formed Url with an ASCII serialization (premises wf_b u = true and Forall (<128) (ser u); both hold for every reachable Url by C03/C05) and every history of op_ok operations, in debug and release: query_pairs_session succeeds; query_pairs of the result = ops_effect on the pairs of the old query text (retained pairs followed by appended ones; clear and encoding_override handled by ops_effect); the seven offsets/host kind/port before the query, the bytes before the '?' and hence scheme, username, password, host_str, path are unchanged; the fragment is preserved; wf_b holds again. No Known_C15_1 exclusion is needed here because an ASCII string has a char boundary everywhere. finish() and Drop are the same model step (both restore the fragment); a leaked (mem::forget) serializer is outside the statement (DESIGN section 10)",
            "C15_panics": "exact characterisation of every Panic outcome of for_suffix / finish / each operation, for any Target; OutOfFuel proved impossible",
            "C15_views": "ByteSerialize chunks concatenate to the per-byte map and are non-empty, size_hint bounds, Parse with Cow kinds agrees with ParseIntoOwned, replace_plus borrows iff there is no '+'",
            "C15_borrow": "decode() (names and values yielded by Parse) is Cow::Borrowed iff the input has no '+', no decodable escape and is valid UTF-8; its value is always utf8_lossy(percent_decode(replace_plus(input)))",
        },
    }

TEXT = {
  "level": "Machine-checked Coq theorems (13, all closed under the global context) about an executable Gallina model of the whole form_urlencoded crate (Parse::next, decode, replace_plus, ParseIntoOwned, byte_serialize iterator, Serializer over a generic Target with for_suffix / clear / append_pair / append_key_only / extend_* / encoding_override / finish): round trip for all pair lists and all append-only histories, output alphabet for all histories, totality and closed form of parse with the '&&' laws, the for_suffix theorem for an arbitrary existing suffix and an arbitrary lens-like Target, the exact set of panics, and the URL-editing clause (C15_url: a query_pairs_mut session on a well-formed ASCII Url reads back through query_pairs as retained pairs followed by appended ones, leaves everything before the query and the fragment unchanged, and keeps the record well formed). The byte_serialized_unchanged class, the separator / plus / space literals and the panic sites are regenerated from the Rust source on every run and the table theorem re-proved. The model is tied to the code by a correspondence run (exhaustive small scopes + random, about 330 000 cases quick) of the extracted model against the crate built from /repo.",
  "design_ref": "DESIGN.md section 8 C15, sections 4 and 6",
  "note": "Both parts of C15: the form_urlencoded crate and the URL-editing clause (C15_url, over the maintainer's Model/QueryPairs.v, instantiating C15_suffix_generic with the UrlQuery target). Trusted: Coq kernel + vm_compute; tools/tables_c15.py; extraction (ExtrOcamlBasic only) + OCaml driver; the correspondence generators; std's from_utf8_lossy / is_char_boundary / String::truncate are modelled and cross-checked, not verified. Known finding F-C15-1: clear() panics when start_position is inside a multi-byte character (undocumented panic).",
  "technique": "Coq proof over Gallina model + table translator + extracted-model/implementation correspondence",
 }
