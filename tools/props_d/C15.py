ID = "C15"

PROP = {
        "coq_targets": ["Properties/C15.vo", "Extract/ExC15.vo"],
        "driver": {"model": "c15_model.ml", "src": "drv_c15.ml", "exe": "c15_driver"},
        "bin": "c15",
        "profiles": ["dev"],
        "rule": "streams: corpus; exhaustive (parse: all byte strings of length <= 5 (quick) / 6 (thorough) over {a,&,=,+,%,4,1,0xC3,0xA9,space}, all single bytes; byte_serialize: all single bytes, all strings <= 4 / 5 over a 9-class alphabet, one-step iterator protocol <= 3; byte_serialized_unchanged on all 256 bytes; Serializer: all pair lists of length <= 2 over a 6-string pool as append_pair sequence / extend_pairs / serialize_pairs, all key-only lists <= 2, for_suffix on 10 initial contents x every start 0..=len+1 x 3 target kinds (String, &mut String, a custom Target) x 19 scripts incl. clear, encoding_override, double finish, operations after finish); random structured (query-shaped text; op histories <= 7 over pools with every delimiter, astral and NUL code points); serializer output re-parsed; malformed random bytes. A case is non-trivial when its input / op list is non-empty; distinct = distinct request lines among those.",
        "trusted_base": [
            "modelled, not verified: String::from_utf8_lossy is identified with Base/Utf8.v (utf8_lossy), str::is_char_boundary / String::truncate with Model/FormUrlencoded.v (is_char_boundary, string_truncate); cross-checked by the parse and ser streams",
            "tools/tables_c15.py reads the byte_serialized_unchanged pattern, the separator / plus / space literals and the panic sites from form_urlencoded/src/lib.rs",
            "a String is modelled as the list of its UTF-8 bytes; Target::as_mut_string as a get/set pair (lens) on the target",
        ],
        "assumptions": [
            "names and values are lists of Unicode scalar values; byte strings are lists of N below 256",
            "an encoding override is an arbitrary function from code points to byte lists (a pure function; a stateful closure is outside the model)",
            "generic-Target theorems assume the lens laws get(set t s) = s, set(set t a) b = set t b (as_mut_string returns the same String every time)",
        ],
        "known_classes": [],
        "theorem_notes": {},
    }

TEXT = {
  "level": "Machine-checked Coq theorems about an executable Gallina model of the form_urlencoded crate (parse, decode, replace_plus, byte_serialize, Serializer over a generic Target with for_suffix / clear / append / extend / encoding_override / finish and their documented panics).",
  "design_ref": "DESIGN.md section 8 C15, sections 4 and 6",
  "note": "Crate-level part of C15; the URL-editing clause (Url::query_pairs_mut) is layered on the generic for_suffix theorem.",
  "technique": "Coq proof over Gallina model + table translator + extracted-model/implementation correspondence",
 }
