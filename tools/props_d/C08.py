ID = "C08"

PROP = {
    "coq_targets": ["Properties/C08.vo", "Extract/ExC08.vo"],
    "driver": {"model": "c08_model.ml", "src": "drv_c08.ml", "exe": "c08_driver"},
    "bin": "c08",
    "profiles": ["dev"],
    "rule": "TODO",
    "trusted_base": [],
    "assumptions": [],
    "known_classes": [],
    "theorem_notes": {},
}

TEXT = {
    "level": "TODO",
    "design_ref": "DESIGN.md section 8 C08, section 9 (F-C08-*)",
    "note": "TODO",
    "technique": "Coq proof over Gallina model of the parser's relative states and of make_relative + extracted-model/implementation correspondence",
}
