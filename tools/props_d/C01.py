ID = "C01"

PROP = {
    "coq_targets": ["Properties/C01.vo", "Extract/ExUrl.vo", "Extract/ExSpec.vo", "Spec/WhatwgFacts.vo", "Spec/WhatwgFuel.vo"],
    "driver": {"model": "url_model.ml", "src": "drv_url.ml", "exe": "url_driver"},
    "driver2": {"model": "spec_model.ml", "src": "drv_spec.ml", "exe": "spec_driver"},
    "bin": "c01",
    "profiles": ["dev"],
    "corr_timeout": 1500,
    "rule": "model <-> implementation (seeded by VERIF_SEED): corpus; all 819 WPT inputs; exhaustive all strings of length <= 3 (quick) / 4 (thorough) over a 24-character class alphabet (one representative per match arm of the parser states) x 5 (quick) / 25 (thorough) bases, 9 URL prefixes x all strings of length <= 2 / 3; structured + mutated random inputs x {no base, 24 pool bases, parse results as bases} x {no override, UTF-8 override, a non-UTF-8 override}; every case is repeated with a violation callback installed (must give the same record); accessors of parse results. Compared: ParseError variant or the full record (serialization, 7 offsets, host kind, port). specification model: all 819 WPT vectors must pass on Spec/Whatwg.v (no exception list). implementation <-> specification model (FIXED seed 0xC01 in both tiers): the 10 API strings or failure on 60k (quick) / 600k (thorough) generated (input, base) pairs + exhaustive small strings x 4 bases + the WPT inputs; a divergence outside Known_C01 is a mismatch; the Coq and Rust versions of Known_C01 are compared on every case. Non-trivial = non-empty input; distinct = distinct request lines.",
    "trusted_base": [
        "Model/Parser.v is a hand-written model of url/src/parser.rs tied to the code by the correspondence only",
        "Spec/Whatwg.v is a transcription of the WHATWG URL Standard (edition of the vendored WPT snapshot); validated on every run against all 819 vectors of urltestdata.json with no exception list (the 35 vectors rust-url lists as expected failures pass on it); Spec/WhatwgFuel.v proves its fuel is never exhausted",
        "host parsing/serialisation inside the URL model is Model/Host.v (property C09); only IDNA ToASCII (idna::domain_to_ascii_cow with AsciiDenyList::URL, as host.rs calls it) is answered by the real idna crate through an oracle query",
        "the violation callback is not modelled (it only observes); independence from it is checked by running every correspondence case twice",
    ],
    "assumptions": [
        "the equivalence model = Standard outside Known_C01 (C01_statement) is NOT proved; it is covered by the fixed-seed differential run (a test) - completeness of Known_C01 rests on that run",
    ],
    "known_classes": [
        "Known_C01 (Model/KnownC01.v = harness known_c01): K1 effective scheme is file (F-C01-1,2,3,7,11: host dropped before a drive letter, leading empty segments stripped, '/.' cases, 'C|' after an explicit empty host - all in url/tests/expected_failures.txt or of that family); K2 a drive-letter-shaped segment in the input or the base path of a non-file URL (F-C01-5/9); K3 a backslash in the input of a non-special URL (F-C01-8: '\\' ends the port); K4 the input contains ':@' (F-C01-12: empty username and password before '@' accepted)",
    ],
    "theorem_notes": {
        "C01_statement": "stated, not proved in full (equivalence of two ~800-line programs); proved parts: C01_sets, C01_schemes, C01_preprocessing, C01_override_independent, C01_eq_cleaning, C01_eq_encoders, C01_eq_scheme_state and the class theorems below",
        "C01_partial": "C01_statement restricted to in_proved_class (recognisers on the Standard's side) with bases given as a pair (model record, Standard record) in the relation `related` (wf_b, same ten API strings, same text before fragment/query, same scheme, same cannot-be-a-base, Standard record without host/credentials/port where its states assume so); outcome relation `agree`: Standard success -> model success with the same ten API strings OR ParseError::Overflow (named restriction: serialization > u32::MAX), Standard failure -> model Err; encoding override None; usv_list input. Classes: opaque (no base), path-only 'scheme:/path' non-special without authority (no base), fragment-only, query-only (base without opaque path), opaque-base failure. NOT covered: authority (userinfo/host/port states), special schemes without base, file, path state with a base (relative references other than '#'/'?')",
        "C01_eq_pathonly": "equivalence PROVED for in_class_pathonly (no base, non-special scheme, text after ':' starts with exactly one '/'): path state incl. dot segments in every spelling, '/.' marker, query, fragment; exact exclusion computed on the Standard's state: a '..' that would pop a drive-letter-shaped segment (finding F-C01-9, shown necessary by the Example); usv_list input; Overflow disjunct as above; result is a `related` base",
        "C01_eq_fragment_only": "for every `related` base (also cannot-be-a-base ones); result related again",
        "C01_eq_query_only": "for every `related` base without opaque path (special / file / other: the query set follows the base scheme); result related again",
        "C01_eq_opaque_base_fail": "failure on both sides (model: RelativeUrlWithCannotBeABaseBase)",
        "C01_eq_opaque": "equivalence PROVED for the class in_class_opaque (recogniser on the Standard's side: no base, the cleaned text has a non-special scheme and the text after ':' does not start with '/'), every scalar-value input incl. tab/LF/CR anywhere and C0/space at the ends; restrictions named in the statement: usv_list input (Rust &str), and the model may answer ParseError::Overflow (serialization > u32::MAX) where the Standard succeeds - otherwise POk with the same ten API strings; no host function involved",
    },
}

TEXT = {
    "level": "Coq theorems (4, closed under the global context): the percent-encode sets, default ports and special schemes regenerated from the Rust source on every run equal the ones Spec/Whatwg.v defines independently from the Standard, for every byte / every scheme string; the parser's input preprocessing is the Standard's; the parse result is independent of a UTF-8 encoding override for all inputs and bases. The conformance statement itself (model of parser.rs = specification model outside Known_C01) is stated and NOT proved: it is decided by (i) the correspondence model <-> implementation on the full record, (ii) validation of the specification model against all 819 WPT vectors without exceptions, (iii) a fixed-seed differential run implementation <-> specification model in which every divergence must lie in the computable class Known_C01.",
    "design_ref": "DESIGN.md section 8 C01, section 9, section 13",
    "note": "Partial by design (DESIGN.md section 11): the equivalence theorem is not proved; (i)-(iii) are tests. Known_C01 is deliberately broad (file scheme; drive-letter-shaped segments; backslash in non-special input; ':@'), trading sensitivity inside those classes for no false alarm on the unchanged tree. Trusted: Coq kernel + vm_compute, translator, extraction + two OCaml drivers, the generators, IDNA ToASCII answered by the real idna crate (the host model is Model/Host.v).",
    "technique": "Coq table/preprocessing/override theorems + model/implementation correspondence + WPT-validated specification model differential (fixed seed)",
}
