ID = "C07"

PROP = {
    "coq_targets": ["Properties/C07.vo", "Extract/ExC07.vo", "Extract/ExSpec.vo"],
    "driver": {"model": "c07_model.ml", "src": "drv_c07.ml", "exe": "c07_driver"},
    "driver2": {"model": "spec_model.ml", "src": "drv_spec.ml", "exe": "spec_driver"},
    "bin": "c07",
    "profiles": ["dev"],
    "corr_timeout": 1700,
    "rule": "TODO",
    "trusted_base": [],
    "assumptions": [],
    "known_classes": [],
    "theorem_notes": {},
}

TEXT = {
    "level": "TODO",
    "design_ref": "DESIGN.md section 8 C07, section 9",
    "note": "TODO",
    "technique": "TODO",
}
