ID = "C18"

PROP = {
        "coq_targets": ["Properties/C18.vo", "Extract/ExC18.vo"],
        "driver": {"model": "c18_model.ml", "src": "drv_c18.ml", "exe": "c18_driver"},
        "bin": "c18",
        "profiles": ["dev"],
        "rule": "TODO",
        "trusted_base": [],
        "assumptions": [],
        "known_classes": [],
        "theorem_notes": {},
    }

TEXT = {
  "level": "TODO",
  "design_ref": "DESIGN.md section 8 C18, Appendix A.4, B.2, sections 4 and 6",
  "note": "TODO",
  "technique": "Coq proof over Gallina model + table translator + extracted-model/implementation correspondence",
 }
