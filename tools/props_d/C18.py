ID = "C18"

PROP = {
        "coq_targets": ["Properties/C18.vo", "Extract/ExC18.vo"],
        "driver": {"model": "c18_model.ml", "src": "drv_c18.ml", "exe": "c18_driver"},
        "bin": "c18",
        "profiles": ["dev"],
        "rule": "streams: corpus (corpus/C18/cases.txt; the 80 vendored WPT base64.json vectors run three ways: Spec/Infra.v model vs expected value, the harness's reference oracle vs expected value, model vs implementation on the UTF-8 bytes); exhaustive (every byte value before/after alphabet symbols = the decode table through behaviour; decode_to_vec on all strings of length <= 6 (quick) / 7 (thorough) over the class alphabet {A,/,Q,=,space,FF,!,0x80}; Decoder on all 2-cuts (quick) / 3-cuts (thorough) of all strings of length <= 5 over the same alphabet x sink failing at call k in {never,1,2,3}; DataUrl::decode, plain and base64, on all bodies of length <= 5 / 6 over {%,4,A,#,TAB,Q,=,g} x every k in {never,1..calls+1}; the Coq Infra model vs the harness's Infra reference on all strings of length <= 5 / 6); random structured (RFC 4648 encodings, padded or not, with ASCII whitespace sprinkled, cut into 1-4 chunks, random k; one- or two-edit mutations of those; 0-7 symbols followed by runs of 253..1027 '=' around the u8 wrap points; data: bodies from atoms %41 %4 % %zz %%41 # TAB LF CR = %3D %20 %0A base64 groups, non-ASCII, optional #fragment, random k); random malformed (byte soup over alphabet/'='/whitespace/other, random cuts, random k). A case is non-trivial when its input is non-empty; distinct = distinct request lines among those. Signatures = request kind x verdict class x number of sink calls.",
        "trusted_base": [
            "Spec/Infra.v is a transcription of the Infra Standard's forgiving-base64 decode (and of RFC 4648 section 4 encoding); validated on every run against the 80 vendored WPT base64.json vectors with no exception, and exhaustively against an independent Rust transcription (bit-list buffer) on all strings of length <= 5/6 over the class alphabet",
            "DataUrl::decode is reached through DataUrl::process(\"data:[;base64],<body>\"): bodies are valid UTF-8 and do not end in a C0 control or space (process() trims those before the body decoders see them); FragmentIdentifier is observable only through to_percent_encoded(), so the model's raw fragment is compared after the same map (implemented in the harness)",
            "the sink of the theorems is the recording sink that fails at exactly its k-th call (Model/Base64.v kwrite); C18_chunks, C18_any_sink and C18_body_b64 are proved for every sink closure (arbitrary state and error type)",
        ],
        "assumptions": [
            "byte strings are lists of N; no bound on length, on the number of chunks or on k; the &str body of a data: URL is modelled as its UTF-8 bytes (the only slicing of the str is just after an ASCII '#', always a char boundary)",
        ],
        "known_classes": [],
        "theorem_notes": {
            "C18_spec": "full: value and failure/success for every input (the Rust error variant is not part of the Infra algorithm; the model's variant is compared with the implementation's in the correspondence)",
            "C18_rt": "full: filter formulation (the non-whitespace code points of s spell std_encode pad x); C18_rt_inserted is the same with an inductive 'whitespace inserted anywhere' relation",
            "C18_chunks": "full and for every sink: same final sink state (for the recording sink: the same sequence of write calls, not only the same bytes) and the same verdict including the error variant; the protocol is feed each chunk, stop at the first Err, then finish",
            "C18_sink": "full: Decoder (feed+finish), decode_without_base64, decode_with_base64 and both branches of DataUrl::decode; if fewer than k calls happen the run is unchanged",
            "C18_body_output": "beyond the property text: the fault-free output of decode_without_base64 is exactly body_ref (the body up to '#', TAB/LF/CR dropped, %XY decoded when the two hex digits are contiguous in the text as given), and decode_with_base64 delivers the Infra forgiving-base64 decode of that; this fixes what 'the fault-free output' of the sink clause is",
            "C18_body_b64": "decode_with_base64 = Decoder on the concatenation of decode_without_base64's writes; the slice-index panic branch of the model is proved unreachable",
        },
    }

TEXT = {
  "level": "Machine-checked Coq theorems (10, all closed under the global context) about an executable Gallina model of data-url's forgiving_base64 (Decoder::new/feed/finish with the u32 bit buffer, `as u8` truncation and the saturating u8 padding counter written out; decode_to_vec) and of the two data: URL body decoders: equality of value and verdict with the Infra Standard's forgiving-base64 decode for every input; decode(standard_encode(x)) = x padded or not with whitespace anywhere; for every sink closure, independence of the final sink state (hence of the sequence of write calls) and of the verdict from the chunking; the sink-failure law (exactly the first k-1 chunks, then the write error) for Decoder, decode_without_base64, decode_with_base64 and DataUrl::decode; the fault-free output of the two body decoders in closed form. BASE64_DECODE_TABLE and the byte lists the code matches on are regenerated from the Rust source on every run and the table theorem re-proved. The model is tied to the code by a correspondence run (exhaustive small scopes + random) of the extracted model against the crate built from /repo.",
  "design_ref": "DESIGN.md section 8 C18, Appendix A.4, B.2, sections 4 and 6",
  "note": "Trusted: Coq kernel + vm_compute; translator gen_tables.py + tables_c18.py; extraction (ExtrOcamlBasic only) + OCaml driver; the correspondence generators; Spec/Infra.v as a transcription of the Infra Standard (validated against all 80 WPT base64.json vectors and an independent Rust transcription). data: URL bodies reach the private body decoders through DataUrl::process, so they are valid UTF-8 without trailing C0/space. No known findings.",
  "technique": "Coq proof over Gallina model + table translator + extracted-model/implementation correspondence",
 }
