ID = "C05"

PROP = {
    "coq_targets": ["Properties/C05.vo", "Extract/ExUrl.vo"],
    "driver": {"model": "url_model.ml", "src": "drv_url.ml", "exe": "url_driver"},
    "bin": "c05",
    "harness_args": ["C05"],
    "profiles": ["dev"],
    "rule": "streams: corpus of histories; exhaustive (every start URL of a 43-URL pool x every operation kind x every argument of an 85-string delimiter-rich pool, one step each); random histories of 1-8 mutating calls (Url::set_*, set_ip_host, path_segments_mut sessions, quirks setters) from pool or randomly generated parsed URLs. After steps the model and the implementation are compared on the whole record (serialization, 7 offsets, host kind, port) and status, the read accessors and the quirks getters. Non-trivial = every step/observation (each has a non-empty URL); distinct = distinct request lines. The bin is harness/src/bin/c05.rs = urlhist.rs (copied verbatim by tools/mk_c05_bin.py, which also checks for drift) + a directed search. In search mode (after a proof or the correspondence broke) the byte/delimiter statement of C05 (harness/src/urlprops.rs prop_c05) is evaluated on the implementation: first on the steps where model and implementation differ (urlhist), then - because a mutated percent-encode set changes the regenerated model exactly as it changes the implementation - on the implementation alone: 14 URL templates x 134 characters (all ASCII + 6 non-ASCII) placed in userinfo / path / query / fragment / opaque path of special, file and non-special URLs, and every start URL x every single operation x every pool argument; the known class F-C02-3 is skipped.",
    "trusted_base": [
        "Model/Parser.v, Model/Setters.v, Model/UrlRecord.v are hand-written models of url/src/{parser,lib,slicing,quirks,path_segments}.rs tied to the code only by the correspondence",
        "the sets CONTROLS, FRAGMENT, PATH, USERINFO, PATH_SEGMENT, SPECIAL_PATH_SEGMENT, QUERY, SPECIAL_QUERY and ENC_TABLE are regenerated from url/src/parser.rs and percent_encoding/src/lib.rs on every run (tools/gen_tables.py); the table theorems are re-proved on the regenerated values",
        "host parsing/serialisation inside the URL model is answered by the real crate (oracle queries hp/ho/hd) in the correspondence; in the theorems the three host functions are universally quantified under the hypothesis HostOK (C09's obligation)",
    ],
    "assumptions": [
        "HostOK hp hpo hd: every host value that is Host::Domain(\"\") or an Ok result of Host::parse / Host::parse_opaque is displayed inside 0x21..0x7E (to be discharged by C09 for the host model); IpOK hd: Ipv4/Ipv6 values passed to set_ip_host are displayed inside 0x21..0x7E",
        "C05_bytes additionally assumes the input is a list of Unicode scalar values (a Rust &str); C05_parse and C05_history put no condition on input or setter arguments at all",
        "file-path constructors (Url::from_file_path / from_directory_path) and the form_urlencoded query_pairs_mut editor are not in the model of histories",
    ],
    "known_classes": [
        "F-C02-3: set_path on an opaque-path URL does not encode '?'/'#' and keeps spaces: the bytes stay inside 0x20..0x7E (C05_history holds), the component-level clause 'opaque path free of ?/#' fails there and is not claimed",
    ],
    "theorem_notes": {
        "C05_parse": "byte alphabet 0x20..0x7E for every parse result, any base whose serialization is in 0x20..0x7E, any input numbers, any encoding override, both build configurations, under HostOK",
        "C05_history": "0x20..0x7E along every history (Reachable: parse, join, 9 Url setters, path_segments_mut sessions of clear/pop/pop_if_empty/push/extend, 9 quirks setters); the sharper 'space only inside an opaque path' is proved for the parser (C05_bytes) but not along setter histories (C05_history_sharp_statement: stated, not proved - it needs the offset invariant wf_b to be preserved by the setters, which is C02's L1/L2)",
        "C05_components_statement": "stated, not proved: delimiter freedom of the stored username/password/path/query/fragment slices of every reachable Url. Proved instead: every write of text into the serialization goes through push_encoded/flush_part with the component's set, and what these add is free of the delimiters (C05_userinfo_enc, C05_path_enc, C05_query_enc, C05_fragment_enc, C05_opaque_enc); the literal delimiters the parser itself writes (':' '@' '/' '?' '#') and the slices copied from the base URL are not tracked per component",
        "C05_host": "the host clause (lower-case, no forbidden host code points for special schemes) is C09/C10's subject; here it enters only as the hypothesis HostOK",
    },
}

TEXT = {
    "level": "Machine-checked Coq theorems (closed under the global context) over the executable Gallina model of the URL parser and of all mutators. (1) Encoder alphabet, for every AsciiSet and ANY list of numbers fed to the PercentEncode iterator: a member of the set other than '%' and 0-9A-F never appears in the output; a set covering 0x00-0x20 and 0x7F yields only 0x21..0x7E; instantiated on the sets regenerated from parser.rs on every run: USERINFO output avoids / : ; = @ [ \\ ] ^ | ? # space \" < > ` { }, PATH avoids ? # space \" < > ` { }, PATH_SEGMENT also / (and escapes '%', decode gives the text back), SPECIAL_PATH_SEGMENT also \\, QUERY avoids # space \" < >, SPECIAL_QUERY also ', FRAGMENT avoids space \" < > `, CONTROLS output is inside 0x20..0x7E; non-ASCII input is always escaped. (2) Whole parser: under the hypothesis HostOK on the three host functions and for a base whose serialization is inside 0x20..0x7E, every successful parse_url (any input, any encoding override, both build configurations) has its serialization inside 0x20..0x7E (C05_parse); sharper (C05_bytes, input = Unicode scalar values): every byte is in 0x21..0x7E unless the result has an opaque path and a non-special scheme, and this form is preserved from base to result. (3) Histories: the same 0x20..0x7E alphabet for every Url reachable by parse, join and any sequence of the 9 Url setters, path_segments_mut sessions and 9 quirks setters with arbitrary arguments (C05_history). The model is tied to the code by the correspondence run over single steps and histories.",
    "design_ref": "DESIGN.md section 8 C05, section 10 (C05, opaque paths)",
    "note": "Partial: per-component delimiter freedom of the STORED slices of a reachable Url (C05_components_statement) and 'space only inside an opaque path' along setter histories (C05_history_sharp_statement) are stated, not proved; what is proved per component is that everything the encoders add is delimiter-free. The host clause is the hypothesis HostOK (C09/C10). Known finding F-C02-3 (set_path on an opaque path keeps '?', '#', spaces) is inside the byte alphabet and outside the component claim. Trusted: Coq kernel + vm_compute, gen_tables.py, extraction + OCaml driver, the correspondence generators, host functions answered by the real crate in the correspondence.",
    "technique": "Coq proof over Gallina model of parser/mutators + regenerated percent-encode sets + extracted-model/implementation correspondence on histories",
}
