ID = "C19"

PROP = {
        "coq_targets": ["Properties/C19.vo", "Extract/ExC19.vo"],
        "driver": {"model": "c19_model.ml", "src": "drv_c19.ml", "exe": "c19_driver"},
        "bin": "c19",
        "profiles": ["dev"],
        "rule": "TODO",
        "trusted_base": [],
        "assumptions": [],
        "known_classes": [],
        "theorem_notes": {},
    }

TEXT = {
  "level": "TODO",
  "design_ref": "DESIGN.md section 8 C19, sections 4 and 6",
  "note": "TODO",
  "technique": "Coq proof over Gallina model + table translator + extracted-model/implementation correspondence",
 }
