ID = "C19"

PROP = {
        "coq_targets": ["Properties/C19.vo", "Extract/ExC19.vo"],
        "driver": {"model": "c19_model.ml", "src": "drv_c19.ml", "exe": "c19_driver"},
        "bin": "c19",
        "profiles": ["dev"],
        "rule": "requests: parse <input> <name> compares (type, subtype, parameter list, to_string(), get_parameter(name), get_parameter of every parameter name) of model and crate; mime <T> <ST> <params> <name> compares Display / get_parameter on arbitrary Mime values (public fields); tables compares the four character classes as observable behaviour. streams: tables; corpus (corpus/C19/cases.txt); wpt (inputs and expected outputs of data-url/tests/mime-types.json and generated-mime-types.json); exhaustive (all strings of length <= 5 (quick) / 6 (thorough) over the class alphabet {a, A, /, ;, =, \", \\, space, U+00E9, U+007F}, and the same after the prefixes 'a/b;', 'a/b;a=\"', 'a/b;a=1;', 'a/b;a=\"\\\";'); rnd-structured (token/quoted-string atoms, names from a pool with case variants and duplicates, whitespace around pieces, escapes, ';' and non-ASCII inside quoted values, unterminated quotes); rnd-reparse (the crate's serialization of those); rnd-mutated / rnd-wpt-mutated (1-3 insert/delete/duplicate/swap edits with delimiters, controls, U+2028); rnd-garbage (random code points incl. surrogate-adjacent and astral); rnd-mime-value (arbitrary strings in all Mime fields). A case is non-trivial when the input parses (or is a mime request); distinct = distinct request lines among those; signature = parameter count x quoted/escaped/';'-in-value flags x serialization-equals-input x non-ASCII input x get_parameter hit.",
        "trusted_base": [
            "tools/tables_c19.py (reader for IS_HTTP_TOKEN + byte_map!, the matches! patterns of http_whitespace and valid_value, the escape condition of Display, and the shape of only_http_token_code_points; fails closed); the 'tables' request cross-checks the four classes against the compiled crate's behaviour",
            "modelled, not verified: str::trim_matches / trim_start_matches / trim_end_matches with a char predicate, str::split(char) / splitn(2, char) / strip_prefix(char) / chars() are identified with their code-point-level list functions in Model/Mime.v; str::to_ascii_lowercase is the code-point map on A-Z; <[u8]>::eq_ignore_ascii_case and str::bytes() go through Base/Utf8.utf8_encode; String / Vec as mathematical sequences; fmt::Write into a String never fails",
        ],
        "assumptions": [
            "a &str is a list of Unicode scalar values (usv_list); every theorem about parse carries this premise because the byte-indexed token table is only total on bytes",
            "C19_total's Display half and C19_rt_wf are about Mime values whose strings are lists of Unicode scalar values (usv_mime)",
        ],
        "known_classes": [],
        "theorem_notes": {
            "C19_spec_equiv": "full (conformance, beyond the property text): on every string of HTTP quoted-string token code points Mime::from_str equals the MIME Sniffing Standard's 'parse a MIME type' (Spec/MimeSniff.v); exclusion = exactly the class of F-C19-2; proved in Proofs/C17_Mime.v",
            "C19_rt": "full: for every &str s with parse s = Some m, display m does not panic and parses to exactly m (type, subtype, parameter list incl. order and values)",
            "C19_rt_wf": "full, and stronger than the property text: the normal form of C19_normal is sufficient for the round trip of ANY Mime value with public fields set by hand",
            "C19_normal": "full; additionally states what holds of values: up to its first ';' every value consists of HTTP quoted-string token code points (TAB, 0x20-0x7E, 0x80-0xFF). After the first ';' of a quoted value the code does not validate anything (valid_value is applied to the first ';'-piece of the raw value only), so arbitrary code points can follow; this is what the model and the crate both do and it does not break the round trip",
            "C19_total": "full: neither Panic site (split2's unwrap, line 71; IS_HTTP_TOKEN[byte as usize], line 179) nor loop-fuel exhaustion is reachable from parse on a &str, nor from Display on a Mime made of strings",
            "C19_token_bytes": "the bytes-vs-chars bridge: only_http_token_code_points works on the UTF-8 bytes; on scalar values this equals the per-code-point RFC 7230 tchar test",
            "C19_get": "get_parameter(n) = Some v iff (n, v) is in the parameter list of a parse result (names are unique)",
        },
    }

TEXT = {
  "level": "Machine-checked Coq theorems (9, all closed under the global context) about an executable Gallina model of data-url/src/mime.rs (parse, split2, parse_parameters with the shared ';'-piece iterator and the quoted-string scanner that continues across pieces, contains, valid_value, only_http_token_code_points on UTF-8 bytes, Display, get_parameter): round trip parse(display(m)) = m for every parse result and for every value in normal form, the normal form itself (non-empty lower-case token type/subtype/names, no duplicate names, values made of quoted-string code points up to their first ';'), panic-freedom and fuel-sufficiency for all strings incl. non-ASCII, get_parameter = list membership - for all inputs, no length bound. IS_HTTP_TOKEN, http_whitespace, valid_value and Display's escape set are regenerated from the Rust source on every run and the table theorems (IS_HTTP_TOKEN = RFC 7230 tchar) re-proved. The model is tied to the code by a correspondence run (WPT corpus, exhaustive small scopes, structured and malformed random) of the extracted model against the crate built from /repo.",
  "design_ref": "DESIGN.md section 8 C19, Appendix A.6, sections 4 and 6",
  "note": "Trusted: Coq kernel + vm_compute; translator tables_c19.py; extraction (ExtrOcamlBasic only) + OCaml driver; the correspondence generators; std's str/char-pattern methods are modelled at code-point level, not verified. Finding F-C19-1 (duplicate names differing in case) is fixed in /repo (dfe04c2) and replayed on every run; it must not reproduce. No open finding against the C19 text: the round trip holds on the pinned code although valid_value only inspects the raw first ';'-piece of a quoted value. That scope is a deviation from the MIME Sniffing Standard (F-C19-2, recorded in known_findings.d/C19.json for C17: a/b;x=\"a;<U+0001>\" keeps the control character, a/b;x=\"a\"<U+0001> loses x); the model reproduces it and C19_normal states exactly what the code guarantees about values.",
  "technique": "Coq proof over Gallina model + table translator + extracted-model/implementation correspondence",
 }
