ID = "C13"

PROP = {
        "coq_targets": ["Properties/C13.vo", "Extract/ExC13.vo"],
        "driver": {"model": "c13_model.ml", "src": "drv_c13.ml", "exe": "c13_driver"},
        "bin": "c13",
        "profiles": ["dev", "release"],
        "coq_timeout": 3000,
        "rule": "streams: corpus (idna/tests/punycode_tests.json, both directions); tab (which ASCII bytes are digits); exhaustive (all scalar sequences of length <= 4 over {a,-,U+80,U+FC,U+100,U+FFFF,U+10000,U+10FFFF} through encode and encode_str; all strings of length <= 4 (quick) / 5 (thorough) over {a,z,A,0,9,-,!} through decode and decode_to_string; every ASCII byte in four contexts); random (sequences <= 40 and <= 3000 scalars with repeated / ordered / reverse-ordered / clustered code points; decode of encoder output and of its mutations; random decoder inputs with non-ASCII; long digit runs for decoder overflow); the boundary family U+0080 x n ++ [high] around F-C13-1 (n = 3854..3856 quick, 3850..3860 x 3 shapes thorough; high = U+10FE4F, U+10FFFF); the internal-caller encoder observed through domain_to_ascii on labels UTS #46 leaves unchanged. Both cargo profiles (dev = overflow checks on, model cfg_debug = true; release = wrapping, cfg_debug = false). A case is non-trivial when its input is non-empty.",
        "trusted_base": [
            "tools/tables_c13.py (reader for the Bootstring constants and the digit match arms of idna/src/punycode.rs)",
            "the internal-caller instantiations of Decoder::decode (u8 and char) are crate-private: modelled, and tied to the code only through the shared decoder loop exercised by the public wrappers; the internal-caller encoder is tied through domain_to_ascii",
            "PunycodeEncodeError::Sink (a failing fmt::Write sink) is not modelled: the public wrappers write to a String",
        ],
        "assumptions": [
            "encoder inputs are lists of Unicode scalar values (usv_list); decoder inputs are byte lists (the bytes of the &str)",
        ],
        "known_classes": [
            "F-C13-1 Known_C13 s (Spec/Rfc3492.known_c13 s = true): while encoding s some delta fits in 32 bits while the decoder's i + delta does not; excluded from C13_dec_enc_statement; inhabited by C13_1_refuted (U+0080 x 3856 ++ [U+10FE4F]); the Coq predicate and its Rust twin are compared by the 'known-pred' stream",
            "F-C13-2 Known_C13_2 p (2^32 <= number of code units of p): `base_len as u32` truncates and `length + 1` overflows (panic in debug builds; in release the wrapped 0 makes adapt divide by zero); excluded from the decoder half of C13_safe; inhabited by C13_2_refuted ('a' x (2^32 - 1) ++ \"-a\", proved symbolically) and confirmed on the real crate in both profiles",
        ],
        "theorem_notes": {
            "C13_safe": "full. Encoders: for every list and both configurations the result is None or exactly the unbounded RFC 3492 encoding (hence no panic: fuel, min().unwrap(), value_to_digit's panic arm, the unchecked `delta += 1` are all shown unreachable). Decoders: outside Known_C13_2 no panic, the Decode iterator's loop terminates, and a Some result equals the unbounded RFC 3492 decoding.",
            "C13_internal": "full (length <= 1000 and usv_list): the unchecked internal-caller encoder equals the checked one and both succeed.",
            "C13_1_refuted": "full, by vm_compute (24 s for the whole witness file; each of encode/decode on the 3857-scalar witness takes 2-4 s in the VM; N, not nat, is used throughout).",
            "C13_2_refuted": "full, proved symbolically for 'a' x (2^32 - 1) ++ \"-a\" (no computation on the 4 GiB list).",
            "C13_spec_round_trip": "full: s_decode (s_encode s) = Some s for every list of scalar values, over unbounded integers (step (2) of the plan; uses C13_vli_partial and the reading of the decoder state <n,i> as n*(L+1)+i).",
            "C13_dec_enc": "full (closes C13_dec_enc_statement): for every usv_list s with encode s = Some p and s outside Known_C13, decode p = Some s, in both configurations; no length hypothesis on p (on an encoder output `base_len as u32` and `length + 1` cannot overflow). Route: the RFC 3492 decoder with the decoder's 32-bit checks written out (b_dec_loop) is followed by the model's decoder (C13_decoder_complete); the bias is at most 215 while deltas fit in 32 bits (C13_bias_bound), so inside one variable-length integer the weight check cannot fire, not even in front of a final zero digit (b_vli_decode: weights stay below 35^6 for the first six digits, afterwards t = 26 and the next weight 10 w <= 26 w <= delta); the encoder succeeded, so every delta fits, and known_c13 s = false then gives di + delta <= u32::MAX at every step (link_outer), which is all the checked decoder needs (b_outer_rt, the invariant of C13_spec_round_trip).",
            "C13_dec_enc_small": "full (closes C13_dec_enc_small_statement): length s <= 3854 needs no exclusion. C13_dec_enc_small_3855 is the sharper bound actually proved (di + delta <= 1113983 * 3855 + 3854 < 2^32); the witness of F-C13-1 has 3857 scalars and C13_dec_enc_premises_hold exhibits a 3856-scalar input outside the class.",
            "C13_dec_enc_small_3855": "full (length s <= 3855, no exclusion).",
            "C13_bias_bound": "full: s_adapt d np first <= 215 for d <= u32::MAX.",
            "C13_decoder_complete": "full: a successful run of the checked unbounded decoder b_dec_loop on the part after the last delimiter is a successful run of decode with the same result.",
            "C13_dec_enc_partial": "full as stated (kept; superseded by C13_dec_enc, which removes the 'or None' alternative outside Known_C13).",
            "C13_enc_dec": "full (closes C13_enc_dec_statement): decode p = Some s (p shorter than 2^32 code units) implies encode s = Some q with q = the basic part of p, the delimiter, and the digits of p in lower case, in both configurations. Route: an Ok run of the model's decoder is a run of the checked decoder (decode_b); the decoder's <n, i> monotonicity (C13_decoder_monotone) identifies the decoder's next insertion with the encoder's next occurrence in the FINAL string (next_insertion), hence equal deltas; equal deltas under equal bias have equal digit strings up to case (C13_vli_unique); the decoder's own check i + delta <= u32::MAX bounds every partial delta of the encoder, so the u32 encoder does not overflow (link_outer_conv).",
            "C13_enc_dec_all": "full, and stronger than the property text: the hypothesis 'at least one non-ASCII scalar' is not needed (an all-ASCII s arises only from p = s ++ \"-\" or p = \"\", which re-encode to themselves).",
            "C13_enc_dec_partial": "full as stated (kept; superseded by C13_enc_dec).",
            "C13_vli_unique": "full: uniqueness of the generalized variable-length integer representation, on the decoder side.",
            "C13_decoder_monotone": "full: every later insertion is lexicographically later in <n, i>.",
        },
    }

TEXT = {
  "level": "Machine-checked Coq theorems about an executable Gallina model of idna/src/punycode.rs (u32 arithmetic explicit, both caller kinds, both overflow-check configurations), with the Bootstring constants and digit tables regenerated from the Rust source on every run; the model is tied to the code by a correspondence run of the extracted model against the crate in both cargo profiles.",
  "design_ref": "DESIGN.md section 8 C13, Appendix B.1, section 9 F-C13-1",
  "note": "Full: ASCII output; no panic and no wrong answer (Some results equal an unbounded-integer transcription of RFC 3492, itself compared with an independent reference by the harness) in both overflow-check configurations; internal (unchecked) encoder = checked encoder up to 1000 scalars; insertion-list representation = direct insertion. Both round trips are proved through the u32 model in both configurations: decode(encode(s)) = s for every sequence of scalar values whose encoding is produced and which is outside the computable class Known_C13 of finding F-C13-1 (the class is empty up to 3855 scalars), and encode(decode(p)) = p up to the case of the digits for every p shorter than 2^32 code units that decodes (even without the 'at least one non-ASCII' hypothesis). The exclusion Known_C13 cannot be dropped (C13_1_refuted). Known findings: F-C13-1 (decode(encode(U+0080 x 3856 ++ [U+10FE4F])) = None) and F-C13-2 (decode panics on inputs with 2^32 - 1 basic code units), both with machine-checked witnesses and confirmed on the crate.",
  "technique": "Coq proof over Gallina model + table translator + extracted-model/implementation correspondence",
 }
