ID = "C13"

PROP = {
        "coq_targets": ["Properties/C13.vo", "Extract/ExC13.vo"],
        "driver": {"model": "c13_model.ml", "src": "drv_c13.ml", "exe": "c13_driver"},
        "bin": "c13",
        "profiles": ["dev", "release"],
        "coq_timeout": 3000,
        "rule": "streams: corpus (idna/tests/punycode_tests.json, both directions); tab (which ASCII bytes are digits); exhaustive (all scalar sequences of length <= 4 over {a,-,U+80,U+FC,U+100,U+FFFF,U+10000,U+10FFFF} through encode and encode_str; all strings of length <= 4 (quick) / 5 (thorough) over {a,z,A,0,9,-,!} through decode and decode_to_string; every ASCII byte in four contexts); random (sequences <= 40 and <= 3000 scalars with repeated / ordered / reverse-ordered / clustered code points; decode of encoder output and of its mutations; random decoder inputs with non-ASCII; long digit runs for decoder overflow); the boundary family U+0080 x n ++ [high] around F-C13-1 (n = 3854..3856 quick, 3850..3860 x 4 high code points x 3 shapes thorough); the internal-caller encoder observed through domain_to_ascii on labels UTS #46 leaves unchanged. Both cargo profiles (dev = overflow checks on, model cfg_debug = true; release = wrapping, cfg_debug = false). A case is non-trivial when its input is non-empty.",
        "trusted_base": [
            "tools/tables_c13.py (reader for the Bootstring constants and the digit match arms of idna/src/punycode.rs)",
            "the internal-caller instantiations of Decoder::decode (u8 and char) are crate-private: modelled, and tied to the code only through the shared decoder loop exercised by the public wrappers; the internal-caller encoder is tied through domain_to_ascii",
            "PunycodeEncodeError::Sink (a failing fmt::Write sink) is not modelled: the public wrappers write to a String",
        ],
        "assumptions": [
            "encoder inputs are lists of Unicode scalar values (usv_list); decoder inputs are byte lists (the bytes of the &str)",
        ],
        "known_classes": [],
        "theorem_notes": {},
    }

TEXT = {
  "level": "Machine-checked Coq theorems about an executable Gallina model of idna/src/punycode.rs (u32 arithmetic explicit, both caller kinds, both overflow-check configurations), with the Bootstring constants and digit tables regenerated from the Rust source on every run; the model is tied to the code by a correspondence run of the extracted model against the crate in both cargo profiles.",
  "design_ref": "DESIGN.md section 8 C13, Appendix B.1, section 9 F-C13-1",
  "note": "see theorem_notes in the evidence for partial results",
  "technique": "Coq proof over Gallina model + table translator + extracted-model/implementation correspondence",
 }
