ID = "C13"

PROP = {
        "coq_targets": ["Properties/C13.vo", "Extract/ExC13.vo"],
        "driver": {"model": "c13_model.ml", "src": "drv_c13.ml", "exe": "c13_driver"},
        "bin": "c13",
        "profiles": ["dev", "release"],
        "coq_timeout": 3000,
        "rule": "streams: corpus (idna/tests/punycode_tests.json, both directions); tab (which ASCII bytes are digits); exhaustive (all scalar sequences of length <= 4 over {a,-,U+80,U+FC,U+100,U+FFFF,U+10000,U+10FFFF} through encode and encode_str; all strings of length <= 4 (quick) / 5 (thorough) over {a,z,A,0,9,-,!} through decode and decode_to_string; every ASCII byte in four contexts); random (sequences <= 40 and <= 3000 scalars with repeated / ordered / reverse-ordered / clustered code points; decode of encoder output and of its mutations; random decoder inputs with non-ASCII; long digit runs for decoder overflow); the boundary family U+0080 x n ++ [high] around F-C13-1 (n = 3854..3856 quick, 3850..3860 x 3 shapes thorough; high = U+10FE4F, U+10FFFF); the internal-caller encoder observed through domain_to_ascii on labels UTS #46 leaves unchanged. Both cargo profiles (dev = overflow checks on, model cfg_debug = true; release = wrapping, cfg_debug = false). A case is non-trivial when its input is non-empty.",
        "trusted_base": [
            "tools/tables_c13.py (reader for the Bootstring constants and the digit match arms of idna/src/punycode.rs)",
            "the internal-caller instantiations of Decoder::decode (u8 and char) are crate-private: modelled, and tied to the code only through the shared decoder loop exercised by the public wrappers; the internal-caller encoder is tied through domain_to_ascii",
            "PunycodeEncodeError::Sink (a failing fmt::Write sink) is not modelled: the public wrappers write to a String",
        ],
        "assumptions": [
            "encoder inputs are lists of Unicode scalar values (usv_list); decoder inputs are byte lists (the bytes of the &str)",
        ],
        "known_classes": [
            "F-C13-1 Known_C13 s (Spec/Rfc3492.known_c13 s = true): while encoding s some delta fits in 32 bits while the decoder's i + delta does not; excluded from C13_dec_enc_statement; inhabited by C13_1_refuted (U+0080 x 3856 ++ [U+10FE4F]); the Coq predicate and its Rust twin are compared by the 'known-pred' stream",
            "F-C13-2 Known_C13_2 p (2^32 <= number of code units of p): `base_len as u32` truncates and `length + 1` overflows (panic in debug builds; in release the wrapped 0 makes adapt divide by zero); excluded from the decoder half of C13_safe; inhabited by C13_2_refuted ('a' x (2^32 - 1) ++ \"-a\", proved symbolically) and confirmed on the real crate in both profiles",
        ],
        "theorem_notes": {
            "C13_safe": "full. Encoders: for every list and both configurations the result is None or exactly the unbounded RFC 3492 encoding (hence no panic: fuel, min().unwrap(), value_to_digit's panic arm, the unchecked `delta += 1` are all shown unreachable). Decoders: outside Known_C13_2 no panic, the Decode iterator's loop terminates, and a Some result equals the unbounded RFC 3492 decoding.",
            "C13_internal": "full (length <= 1000 and usv_list): the unchecked internal-caller encoder equals the checked one and both succeed.",
            "C13_1_refuted": "full, by vm_compute (24 s for the whole witness file; each of encode/decode on the 3857-scalar witness takes 2-4 s in the VM; N, not nat, is used throughout).",
            "C13_2_refuted": "full, proved symbolically for 'a' x (2^32 - 1) ++ \"-a\" (no computation on the 4 GiB list).",
            "C13_spec_round_trip": "full: s_decode (s_encode s) = Some s for every list of scalar values, over unbounded integers (step (2) of the plan; uses C13_vli_partial and the reading of the decoder state <n,i> as n*(L+1)+i).",
            "C13_dec_enc_partial": "PARTIAL. Full statements kept as C13_dec_enc_statement and C13_dec_enc_small_statement (Definitions). Proved for every usv_list s with encode s = Some p (p shorter than 2^32): p is the unbounded RFC 3492 encoding, the unbounded decoding of p is s, and the u32 decoder returns Some s or None - never another string, never a panic. GAP (one direction of step (3)): `~ Known_C13 s` (resp. length s <= 3854) implies that none of the decoder's three 32-bit checks fires; this needs the instrumented walk of known_c13 to be tied to the decoder's i (same invariant as C13_spec_round_trip) and bias <= 215 to exclude a weight overflow in front of a final zero digit. Until then completeness of the class Known_C13 rests on the correspondence / search runs and on C13_small_scope (both round trips computed in the kernel for all sequences of length <= 4 over the class alphabets).",
            "C13_enc_dec_partial": "PARTIAL. Full statement kept as C13_enc_dec_statement. Proved: decode p = Ok s and encode s = Ok q imply s = unbounded decoding of p, q = unbounded encoding of s, q ASCII. GAP: uniqueness of the variable-length-integer representation (encode after decode reproduces the digits in lower case) and the <n,i> monotonicity argument.",
        },
    }

TEXT = {
  "level": "Machine-checked Coq theorems about an executable Gallina model of idna/src/punycode.rs (u32 arithmetic explicit, both caller kinds, both overflow-check configurations), with the Bootstring constants and digit tables regenerated from the Rust source on every run; the model is tied to the code by a correspondence run of the extracted model against the crate in both cargo profiles.",
  "design_ref": "DESIGN.md section 8 C13, Appendix B.1, section 9 F-C13-1",
  "note": "Full: ASCII output; no panic and no wrong answer (Some results equal an unbounded-integer transcription of RFC 3492, itself compared with an independent reference by the harness) in both overflow-check configurations; internal (unchecked) encoder = checked encoder up to 1000 scalars; insertion-list representation = direct insertion; variable-length integers decode to what was encoded. Bootstring over unbounded integers is proved invertible (decode after encode). Partial: for the u32 code decode(encode(s)) is proved to be s or None (never another string); that it is not None outside the class Known_C13 is not proved (full statements kept as Definitions; both round trips are computed in the kernel for all sequences of length <= 4 over the class alphabets); encode(decode(p)) is proved to consist of the two unbounded algorithms, not yet to reproduce p. Known findings: F-C13-1 (decode(encode(U+0080 x 3856 ++ [U+10FE4F])) = None) and F-C13-2 (decode panics on inputs with 2^32 - 1 basic code units), both with machine-checked witnesses and confirmed on the crate.",
  "technique": "Coq proof over Gallina model + table translator + extracted-model/implementation correspondence",
 }
