ID = "C14"

PROP = {
        "coq_targets": ["Properties/C14.vo", "Extract/ExC14.vo"],
        "driver": {"model": "c14_model.ml", "src": "drv_c14.ml", "exe": "c14_driver"},
        "bin": "c14",
        "profiles": ["dev"],
        "rule": "streams: corpus; exhaustive (all 256 bytes x 8 sets; all strings <= 4 (quick) / 5 (thorough) over an 8-class byte alphabet x 3 sets for encode, <= 5 / 6 for decode; UTF-8 validation over 12 lead/continuation classes; all single add/remove 0..255); random (sets as add chains x byte strings <= 24; decode of encoder output; set-algebra op sequences incl. non-ASCII arguments). A case is non-trivial when its input string / op list is non-empty; distinct = distinct request lines among those.",
        "trusted_base": [
            "modelled, not verified: Rust's core::str::from_utf8 / String::from_utf8_lossy are identified with Base/Utf8.v (utf8_scan); the identification is cross-checked by the 'utf8' stream",
            "Cow::Borrowed-of-input vs Cow::Borrowed-of-static is decided in the harness by pointer range",
        ],
        "assumptions": [
            "byte strings are lists of N below 256; AsciiSet values are built by add/remove/union/complement from EMPTY (all values the public API can construct)",
        ],
        "known_classes": ["F-C14-1 (= F-C04-4): AsciiSet::add/remove of a byte >= 0x80 panics; the set algebra is stated for the 128 ASCII values as the property says, and C14_add_panics_iff characterises the panic exactly"],
        "theorem_notes": {
            "C14_split": "sufficient condition 'no % among the last two bytes of x' (implies that no escape is cut); exact characterisation of cut escapes not stated",
        },
    }

TEXT = {
  "level": "Machine-checked Coq theorems (11, all closed under the global context) about an executable Gallina model of percent_encoding: round trip for every set containing '%', exact output form and ASCII-ness, homomorphism, split law, agreement of iterator/Display/Cow/size_hint/if_any views, borrow-iff-unchanged, and the bit-mask set algebra on the 128 ASCII values - for all byte strings and all sets, no length bound. ENC_TABLE and the AsciiSet constants are regenerated from the Rust source on every run and the table theorem re-proved. The model is tied to the code by a correspondence run (exhaustive small scopes + random) of the extracted model against the crate built from /repo.",
  "design_ref": "DESIGN.md section 8 C14, sections 4 and 6",
  "note": "Trusted: Coq kernel + vm_compute; translator gen_tables.py; extraction (ExtrOcamlBasic only) + OCaml driver; the correspondence generators; std's UTF-8 validation is modelled (Base/Utf8.v) and cross-checked, not verified. C14_split is proved under a sufficient condition (no '%' among the last two bytes of the left part). Known finding F-C14-1: add/remove of a non-ASCII byte panics.",
  "technique": "Coq proof over Gallina model + table translator + extracted-model/implementation correspondence",
 }
