ID = "C17"

PROP = {
    "coq_targets": ["Properties/C17.vo", "Extract/ExC17.vo"],
    "driver": {"model": "c17_model.ml", "src": "drv_c17.ml", "exe": "c17_driver"},
    "bin": "c17",
    "profiles": ["dev"],
    "rule": "",
    "trusted_base": [],
    "assumptions": [],
    "known_classes": [],
    "theorem_notes": {},
}

TEXT = {
    "level": "",
    "design_ref": "DESIGN.md section 8 C17, Appendix A.5, A.6",
    "note": "",
    "technique": "",
}
