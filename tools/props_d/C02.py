ID = "C02"

PROP = {
    "coq_targets": ["Properties/C02.vo", "Extract/ExUrl.vo"],
    "driver": {"model": "url_model.ml", "src": "drv_url.ml", "exe": "url_driver"},
    "bin": "c02",
    "harness_args": ["C02"],
    "profiles": ["dev"],
    "rule": "streams: corpus of histories; exhaustive (every start URL of the start pool x every operation kind x every argument of the delimiter-rich argument pool, one step each); random histories of 1-8 mutating calls (Url::set_*, set_ip_host, path_segments_mut sessions, quirks setters) from pool or randomly generated parsed URLs. After every step the model and the implementation are compared on the whole record (serialization, 7 offsets, host kind, port) and status; accessors / quirks getters / Position ranges on a sample. The property itself (Url::parse(u.as_str()) gives the same record, harness/src/urlprops.rs prop_c02) is evaluated on the implementation only in search mode, on the steps and records where model and implementation differ and then on the streams. Non-trivial = every step/observation; distinct = distinct request lines.",
    "trusted_base": [
        "Model/Parser.v, Model/Setters.v, Model/UrlRecord.v are hand-written models of url/src/{parser,lib,slicing,quirks,path_segments}.rs tied to the code only by the correspondence (this run: histories; plain parse/join inputs: the C01 run, harness/src/bin/c01.rs, same driver request 'parse')",
        "host parsing/serialisation inside the URL model is answered by the real crate (oracle queries hp/ho/hd) in this check; the theorems quantify over arbitrary host functions (the opaque-path class has no host), the witnesses use toy host functions",
        "Url::from_file_path / from_directory_path and serde deserialisation are not modelled: deserialisation is Url::parse of the string (covered by R_parse); file-path conversion is outside Reachable (F-C02-5 is in that part)",
    ],
    "assumptions": [
        "inputs are Rust &str values: lists of Unicode scalar values (premise usv_list of every theorem about parsing)",
        "C02_statement (all reachable URLs, all classes) is NOT proved; proved are the parts listed in theorem_notes. For every URL class other than opaque-path-without-base the fixpoint property rests on the correspondence of the model (which the search phase re-parses) and is not a theorem",
    ],
    "known_classes": [
        "Known_F_C03_5 (Proofs/C02_Reach.v): host or path setter (set_host, set_ip_host, quirks host/hostname, set_path, quirks pathname, path_segments_mut) applied to an authority-less URL serialised with the '/.' marker - witness non-spec:/.//double -> set_ip_host(127.0.0.1) -> non-spec://127.0.0.1/.//double ; a:/.//x -> set_path(/y) -> a:/./y",
        "Known_F_C02_3: set_path on an opaque-path URL with '?' or '#' in the argument or a trailing space - witness about:blank -> set_path(#f) -> about:#f ; a:b -> set_path('c ') -> 'a:c '",
        "Known_F_C02_2: set_host(None) on a URL whose path starts with '//' - witness a://host//x -> a://x",
        "Known_F_C02_8: set_path / quirks pathname on an authority-less hierarchical URL whose resulting path starts with '//' (class decided by running the setter) - witness a:/p -> set_path(//x) or set_path(/.//x) -> a://x",
        "Known_F_C02_4: host setters on file: URLs; empty host given by set_host(Some(\"\")) to a URL with port or credentials - witness a://h:80/ -> a://:80/",
        "Known_file_drive: file: URL one of whose path segments looks like a drive letter (over-approximation of F-C01-1 / F-C02-1 / F-C02-6 / F-C02-7) - witness Url::parse(file://x.y///c:) = file://x.y/c: which re-parses to file:///c:",
    ],
    "theorem_notes": {
        "C02_full_statement": "Definition, not proved: forall host functions satisfying HostOK, forall u, Reachable u -> parse(ser u) = Ok u, where Reachable = parse/join results and results of the 19 modelled mutators with arbitrary arguments outside the six Known classes. Missing: L3 for URLs with authority (userinfo, host, port states), special and file schemes, joins (relative state); L1 for everything but the two classes below; L2 (setter preservation) entirely",
        "C02_reparse_opaque": "FULL for its class: every result of Url::parse (any encoding override, no base) on an input 'scheme : rest' with non-special scheme and rest not starting with '/' re-parses to the identical record; the class is decided on the input (opaque_input, computable) and the theorem also states that its results have cannot_be_a_base = true. The converse inclusion (every cannot-be-a-base parse result with a non-special scheme comes from such an input) is not proved - it needs prefix preservation of the authority and path states",
        "C02_L1_opaque": "FULL for its class: results satisfy wf_b (discharges C03_reachability_statement for this class)",
        "C02_encode_idempotent_*": "FULL, for all byte strings, for CONTROLS, FRAGMENT, PATH, USERINFO, QUERY, SPECIAL_QUERY; the two path-segment sets of the editor contain '%' and are shown not idempotent (C02_segment_sets_not_stable)",
        "C02_F_*_refuted": "by vm_compute on the model with toy host functions (every text is a domain); the same witnesses are replayed on the real crate by the 'known' mode of the harness",
    },
}

TEXT = {
    "level": "Machine-checked Coq theorems (closed under the global context). (1) For EVERY input string of the class 'non-special scheme, colon, rest not starting with /' (opaque-path URLs, parsed without base, with or without encoding override, both build configurations, arbitrary host functions): the record returned by the model of Url::parse re-parses from its own serialization to the identical record - serialization, all seven offsets, host kind, port (C02_reparse_opaque), its serialization is ASCII, and it satisfies the structural invariant wf_b of C03 (C02_L1_opaque); conversely every text of the canonical form is such a fixpoint (C02_L3_opaque_form). (2) For ALL byte strings: percent-encoding with each of the six sets the parser applies to userinfo, path, opaque path, query and fragment is idempotent, its output contains no tab/LF/CR, and input trimming is the identity on text whose first and last character are above U+0020 - the algebraic core of re-parsing canonical text in every class. (3) By computation on the model: each of the six excluded Known classes contains a history whose result is not a fixpoint. For all other URL classes (authority, special schemes, file, joins) and for all setter histories the fixpoint property is NOT a theorem: it is covered by the correspondence run (model = implementation on the whole record after every step of exhaustive single steps and random histories) and by the search phase, which re-parses the implementation's serialization.",
    "design_ref": "DESIGN.md section 8 C02, section 9, Appendix B.5",
    "note": "Partial. The full statement C02_statement (Reachable minus six computable Known classes) is a Definition, not a theorem. Classes (ii)-(v) of the L3 plan and L2 (setter preservation) are open; see theorem_notes. Url::from_file_path and leaked editor guards are outside Reachable. Trusted: Coq kernel + vm_compute, extraction + OCaml driver, the correspondence generators, host functions answered by the real crate in the run.",
    "technique": "Coq proof over the Gallina model of the URL parser (canonical-form characterisation of the parser states + encoder idempotence) + extracted-model/implementation correspondence on histories + re-parse search",
}
