//! URL records, host tokens and oracle answers shared by the URL-related harness bins.
use crate::*;
use url::{Host, ParseError, Url};

pub fn parse_error_code(e: ParseError) -> u32 {
    match e {
        ParseError::EmptyHost => 0,
        ParseError::IdnaError => 1,
        ParseError::InvalidPort => 2,
        ParseError::InvalidIpv4Address => 3,
        ParseError::InvalidIpv6Address => 4,
        ParseError::InvalidDomainCharacter => 5,
        ParseError::RelativeUrlWithoutBase => 6,
        ParseError::RelativeUrlWithCannotBeABaseBase => 7,
        ParseError::SetHostOnCannotBeABaseUrl => 8,
        ParseError::Overflow => 9,
        _ => 99,
    }
}

pub fn host_token<S: AsRef<str>>(h: &Host<S>) -> String {
    match h {
        Host::Domain(d) => format!("d{}", hexs(d.as_ref())),
        Host::Ipv4(a) => format!("4{:x}", u32::from(*a)),
        Host::Ipv6(a) => format!("6{}", hexl(a.segments().iter().map(|&s| s as u32))),
    }
}
pub fn host_from_token(t: &str) -> Host<String> {
    let (tag, arg) = t.split_at(1);
    match tag {
        "d" => Host::Domain(unhexs(arg)),
        "4" => Host::Ipv4(std::net::Ipv4Addr::from(u32::from_str_radix(arg, 16).unwrap())),
        "6" => {
            let p = unhexl(arg);
            Host::Ipv6(std::net::Ipv6Addr::new(
                p[0] as u16, p[1] as u16, p[2] as u16, p[3] as u16, p[4] as u16, p[5] as u16, p[6] as u16, p[7] as u16,
            ))
        }
        _ => panic!("bad host token"),
    }
}

/// host_internal token: n | d | 4<hex> | 6<list>
pub fn hi_token(u: &Url) -> String {
    // on a corrupted record (host_end < host_start, ...) Url::host() itself can panic
    let h = match std::panic::catch_unwind(std::panic::AssertUnwindSafe(|| u.host().map(|h| h.to_owned()))) {
        Ok(h) => h,
        Err(_) => return "panic".to_string(),
    };
    match h {
        None => "n".to_string(),
        Some(Host::Domain(_)) => "d".to_string(),
        Some(Host::Ipv4(a)) => format!("4{:x}", u32::from(a)),
        Some(Host::Ipv6(a)) => format!("6{}", hexl(a.segments().iter().map(|&s| s as u32))),
    }
}

/// the full record: ser,se,ue,hs,he,hi,port,ps,qs,fs
pub fn url_token(u: &Url) -> String {
    let c = url::quirks::internal_components(u);
    let o = |x: Option<u32>| opt(&x, |v| format!("{:x}", v));
    format!(
        "{},{:x},{:x},{:x},{:x},{},{},{:x},{},{}",
        hexb(u.as_str().as_bytes()),
        c.scheme_end,
        c.username_end,
        c.host_start,
        c.host_end,
        hi_token(u),
        opt(&c.port, |p| format!("{:x}", p)),
        c.path_start,
        o(c.query_start),
        o(c.fragment_start)
    )
}

pub fn parse_result_token(r: &Result<Url, ParseError>) -> String {
    match r {
        Ok(u) => format!("ok {}", url_token(u)),
        Err(e) => format!("err {:x}", parse_error_code(*e)),
    }
}

/// answers to the oracle queries of the URL driver (host functions from the real crate)
pub fn url_oracle(name: &str, arg: &str) -> String {
    match name {
        "hp" | "ho" => {
            let s = unhexs(arg);
            let r = std::panic::catch_unwind(|| if name == "hp" { Host::parse(&s) } else { Host::parse_opaque(&s) });
            match r {
                Ok(Ok(h)) => host_token(&h),
                Ok(Err(e)) => format!("e{}", parse_error_code(e)),
                Err(_) => "e99".to_string(),
            }
        }
        "hd" => hexs(&host_from_token(arg).to_string()),
        // IDNA ToASCII exactly as url/src/host.rs calls it
        "idna" => {
            let bytes = unhexb(arg);
            match std::panic::catch_unwind(move || idna::domain_to_ascii_cow(&bytes, idna::AsciiDenyList::URL).map(|c| c.into_owned())) {
                Ok(Ok(s)) => hexs(&s),
                _ => "~".into(),
            }
        }
        _ => panic!("unknown oracle {}", name),
    }
}

fn o_s(x: Option<&str>) -> String {
    match x {
        None => "~".into(),
        Some(s) => hexs(s),
    }
}

/// all read accessors in the order of the driver's `get` request; a panic inside one accessor is "panic"
pub fn getters_line(u: &Url) -> String {
    let g = |f: &(dyn Fn() -> String + std::panic::RefUnwindSafe)| match std::panic::catch_unwind(f) {
        Ok(s) => s,
        Err(_) => "panic".to_string(),
    };
    let u = std::panic::AssertUnwindSafe(u);
    let b = |x: bool| if x { "1".to_string() } else { "0".to_string() };
    [
        g(&|| hexs(u.scheme())),
        g(&|| b(u.has_authority())),
        g(&|| b(u.cannot_be_a_base())),
        g(&|| hexs(u.authority())),
        g(&|| hexs(u.username())),
        g(&|| o_s(u.password())),
        g(&|| b(u.has_host())),
        g(&|| o_s(u.host_str())),
        g(&|| match u.host() { None => "~".into(), Some(h) => host_token(&h) }),
        g(&|| o_s(u.domain())),
        g(&|| opt(&u.port_or_known_default(), |p| format!("{:x}", p))),
        g(&|| hexs(u.path())),
        g(&|| match u.path_segments() { None => "~".into(), Some(it) => it.map(hexs).collect::<Vec<_>>().join("|") }),
        g(&|| o_s(u.query())),
        g(&|| o_s(u.fragment())),
        g(&|| b(u.is_special())),
    ]
    .join(" ")
}

// ------------------------------------------------------------------ generators
pub const SCHEMES: [&str; 12] = ["http", "https", "ws", "wss", "ftp", "file", "a", "non-spec", "web+demo", "data", "blob", "HTTP"];

/// one representative per match arm of the parser states
pub const URL_CLASS: [char; 24] = [
    'a', 'c', '0', ':', '/', '\\', '?', '#', '@', '.', '%', '2', 'e', '|', '[', ']', ' ', '\t', '\n', '\u{e9}', '"', '{', '\'', '-',
];

pub fn base_pool() -> Vec<&'static str> {
    vec![
        "http://example.org/foo/bar",
        "http://user:pass@h:8080/a/b/c?q#f",
        "https://h",
        "ftp://h/x/../y/./z",
        "ws://u@h/",
        "file:///tmp/mock/path",
        "file:///c:/dir/file",
        "file://host/share/f",
        "file:///",
        "non-spec://good.example/dir/file",
        "non-spec://u:p@h:99/a//b?q#f",
        "non-spec:/path/only",
        "non-spec:/.//double",
        "a:/",
        "a://",
        "a://h",
        "web+demo:opaque path ",
        "data:text/plain,hello#frag",
        "blob:https://example.com:443/uuid",
        "about:blank",
        "mailto:x@y?subject=z",
        "http://[::1]:81/p",
        "http://1.2.3.4/p?q",
        "file://localhost/x",
        "file://127.0.0.1/share/f",
        "file://[::1]/x/y",
        "http://[1:0:0:2:0:0:3:4]/",
    ]
}

pub fn atoms() -> Vec<&'static str> {
    vec![
        "", "/", "//", "///", "\\", "\\\\", "/\\", "?", "#", "@", ":", "::", ".", "..", "%2e", "%2E", ".%2e", "%2e%2E", "%", "%zz",
        "%41", "a", "b", "c:", "C|", "c:/", "/c:", "d|/", "1", "80", "443", "65535", "65536", "0", "x y", " ", "\t", "\n", "\r",
        "\u{e9}", "\u{5d0}", "\u{1f600}", "\"", "<", ">", "`", "{", "}", "'", "^", "|", "[", "]", "[::1]", "[1:2::3]", "1.2.3.4",
        "0x7f.1", "localhost", "LocalHost", "ex%41mple.com", "EXAMPLE.com", "xn--4db", "user", "pass", "u:p@", "@h", "a@b@c", ":80",
        "[1:0:0:2:0:0:3:4]", "[0:0:1:0:0:1:0:0]", "[::ffff:1.2.3.4]", "1.2.3.256", "1.2.65536", "0x100.1", "1.2.3.4.", "4294967295",
        "0x000000001", "1.2.3.0000000000004", "[1:2:3:4:5:6:7:8::]", "[1:2:3:4:5:6:1.2.3.4.5]",
        ":", "http:", "file:", "non-spec:", "HTTP:", "a:", "//h", "//h/", "//h:1/p", "//u@h", "path", "dir/", "file.txt", "?q=1", "#frag",
        "?", "#", "a=b&c=d", "\u{0}", "\u{7f}", "\u{80}", "\u{a0}", "\u{fffd}", "=", "&", "+", ";", ",", "$", "!", "*", "(", ")", "~", "_", "-",
    ]
}

fn ps<'a>(rng: &mut Rng, xs: &[&'a str]) -> &'a str {
    xs[rng.below(xs.len())]
}

pub fn random_url_string(rng: &mut Rng) -> String {
    let at = atoms();
    match rng.below(10) {
        0..=4 => {
            // grammar: scheme x authority shape x path atoms x query x fragment
            let mut s = String::new();
            if rng.chance(9, 10) {
                s.push_str(ps(rng, &SCHEMES));
                s.push(':');
            }
            match rng.below(6) {
                0 => {}
                1 => s.push('/'),
                2 => s.push_str("//"),
                3 => s.push_str("///"),
                4 => s.push_str("\\\\"),
                _ => s.push_str("/\\"),
            }
            if rng.chance(1, 3) {
                s.push_str(ps(rng, &["u@", "u:p@", ":@", "@", "u:@", "a@b@", "%41:%42@", "\u{e9}:x@"]));
            }
            if rng.chance(2, 3) {
                s.push_str(ps(rng, &[
                    "h", "example.com", "EXAMPLE.COM", "[::1]", "1.2.3.4", "0x7f.1", "localhost", "c:", "C|", "", "h.", "xn--4db", "\u{5d0}.com", "a b",
                    "h%41", "[1::2:3]", "256.1.1.1", "h\th", "[1:0:0:2:0:0:3:4]", "[0:0:1:0:0:1:0:0]", "[1:0:0:0:2:0:0:0]", "[0:1:0:0:1:0:0:1]",
                    "[::ffff:1.2.3.4]", "[1:2:3:4:5:6:7:8]", "[0:0:0:0:0:0:0:0]", "1.2.3.256", "1.2.65536", "1.16777216", "4294967296", "4294967295",
                    "0x100.1", "0377.1", "08", "1.2.3.4.", "1.2.3.4.5", "1..2", "0x", "1.0x1000000", "255.255.255.256", "h.0x7f", "a.b.09",
                    // number forms with many leading zeros (value in range, text longer than any u32 literal), eight explicit
                    // IPv6 pieces followed by '::', over-long embedded IPv4 tails
                    "0x000000001", "0x0000000000000000c0a80001", "192.168.0.0x000000001", "1.2.3.0000000000004", "00000000000000000000377.1", "0000000000000001",
                    "0x00000000100000000", "[1:2:3:4:5:6:7:8::]", "[1:2:3:4:5:6:7::8]", "[::1:2:3:4:5:6:7:8]", "[1:2:3:4:5:6:1.2.3.4.5]", "[::2:3:4:5:6:1.2.3.4.5]", "[1:2:3:4:5:6:7:1.2.3.4]",
                ]));
                if rng.chance(1, 3) {
                    s.push_str(ps(rng, &[":80", ":443", ":8080", ":", ":0", ":65535", ":65536", ":21", ":x", ":8\\", ":8/"]));
                }
            }
            for _ in 0..rng.below(5) {
                s.push_str(ps(rng, &["/", "/", "\\", "//"]));
                s.push_str(ps(rng, &at));
            }
            if rng.chance(1, 3) {
                s.push('?');
                s.push_str(ps(rng, &at));
            }
            if rng.chance(1, 3) {
                s.push('#');
                s.push_str(ps(rng, &at));
            }
            s
        }
        5..=7 => {
            let n = rng.below(7);
            (0..n).map(|_| *rng.pick(&at)).collect::<Vec<_>>().concat()
        }
        _ => {
            let n = rng.below(9);
            (0..n).map(|_| *rng.pick(&URL_CLASS)).collect()
        }
    }
}

/// byte/char level mutation of a string
pub fn mutate_string(rng: &mut Rng, s: &str) -> String {
    let mut cs: Vec<char> = s.chars().collect();
    for _ in 0..1 + rng.below(3) {
        let pos = rng.below(cs.len() + 1);
        match rng.below(5) {
            0 if !cs.is_empty() => {
                cs.remove(pos.min(cs.len() - 1));
            }
            1 if !cs.is_empty() => {
                let c = cs[pos.min(cs.len() - 1)];
                cs.insert(pos, c);
            }
            2 => cs.insert(pos, *rng.pick(&['\t', '\n', '\r', ' ', '\u{0}'])),
            3 => cs.insert(pos, *rng.pick(&['/', '\\', '?', '#', '@', ':', '%', '.', '|', '[', ']'])),
            _ => cs.insert(pos, *rng.pick(&URL_CLASS)),
        }
    }
    cs.into_iter().collect()
}
