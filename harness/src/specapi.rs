//! Shared pieces for checks that use the specification model (Spec/Whatwg.v) as the reference:
//! the host oracle of the spec driver, the ten API strings of the real crate, WPT validation.
use crate::urlrec::*;
use crate::*;
use url::{Host, Url};

pub const KEYS: [&str; 10] = ["href", "protocol", "username", "password", "host", "hostname", "port", "pathname", "search", "hash"];

/// host parser / serializer of the Standard, answered from the real crate
pub fn spec_oracle(name: &str, arg: &str) -> String {
    match name {
        "shp" => {
            let (o, l) = arg.split_once(',').expect("shp argument");
            let s = unhexs(l);
            let opaque = o == "1";
            let r = std::panic::catch_unwind(|| if opaque { Host::parse_opaque(&s) } else { Host::parse(&s) });
            match r {
                Ok(Ok(Host::Domain(d))) => {
                    if opaque {
                        if d.is_empty() { "e".to_string() } else { format!("o{}", hexs(&d)) }
                    } else if d.is_empty() {
                        "f".to_string()
                    } else {
                        format!("d{}", hexs(&d))
                    }
                }
                Ok(Ok(Host::Ipv4(a))) => format!("4{:x}", u32::from(a)),
                Ok(Ok(Host::Ipv6(a))) => format!("6{}", hexl(a.segments().iter().map(|&s| s as u32))),
                Ok(Err(_)) => "f".to_string(),
                Err(_) => "f".to_string(),
            }
        }
        "shs" => hexs(&host_from_token(arg).to_string()),
        "idna" => url_oracle("idna", arg),
        _ => panic!("unknown oracle {}", name),
    }
}

/// driver answer -> Err(kind) or the ten API strings
pub fn decode_answer(a: &str) -> Result<Vec<String>, String> {
    if let Some(rest) = a.strip_prefix("ok ") {
        let v: Vec<String> = rest.split(' ').map(unhexs).collect();
        if v.len() == 10 {
            return Ok(v);
        }
        return Err(format!("!bad-answer:{}", a));
    }
    Err(a.to_string())
}

pub fn fields_line(keys: &[&str], vals: &dyn Fn(&str) -> Option<String>) -> String {
    let mut o = String::new();
    for k in keys {
        if let Some(v) = vals(k) {
            o.push_str(&format!("{}=<{}> ", k, v));
        }
    }
    o
}

/// every vector of urltestdata.json and setters_tests.json through the spec driver; `which` = "parse" | "setters" | "both"
pub fn wpt_validation(drv: &mut Driver, rep: &mut Report, which: &str) {
    let mut fuel = 0u64;

    if which != "setters" {
    // ---- urltestdata.json
    let txt = std::fs::read_to_string("/repo/url/tests/urltestdata.json").expect("urltestdata.json");
    let v: serde_json::Value = serde_json::from_str(&txt).expect("json");
    let mut n_parse = 0u64;
    let mut bad_parse = 0u64;
    for e in v.as_array().expect("array").iter().filter(|e| e.is_object()) {
        let input = e["input"].as_str().expect("input");
        let base = e.get("base").and_then(|b| b.as_str());
        let req = format!("parse {} {}", base.map(hexs).unwrap_or_else(|| "~".into()), hexs(input));
        let ans = drv.ask_with(&req, spec_oracle);
        if ans == "fuel" {
            fuel += 1;
        }
        let failure = e.get("failure").and_then(|f| f.as_bool()).unwrap_or(false);
        let (model, expected) = if failure {
            (match decode_answer(&ans) { Ok(v) => format!("ok href=<{}>", v[0]), Err(k) => k }, "fail".to_string())
        } else {
            let present: Vec<&str> = KEYS.iter().copied().filter(|k| e.get(*k).and_then(|x| x.as_str()).is_some()).collect();
            let exp = fields_line(&present, &|k| e[k].as_str().map(|s| s.to_string()));
            let got = match decode_answer(&ans) {
                Ok(v) => fields_line(&present, &|k| KEYS.iter().position(|x| *x == k).map(|i| v[i].clone())),
                Err(k) => k,
            };
            (got, exp)
        };
        n_parse += 1;
        if model != expected {
            bad_parse += 1;
        }
        let sig = format!("parse:{}:{}", if failure { "failure" } else { "ok" }, if base.is_some() { "base" } else { "nobase" });
        let human = format!("{}   [input {:?} base {:?}]", req, input, base);
        rep.case("wpt-urltestdata", &human, &model, &expected, true, &sig);
    }

    rep.notes.push(format!("urltestdata.json: {} vectors, {} pass, {} fail", n_parse, n_parse - bad_parse, bad_parse));
    }
    if which != "parse" {
    // ---- setters_tests.json
    let txt = std::fs::read_to_string("/repo/url/tests/setters_tests.json").expect("setters_tests.json");
    let v: serde_json::Value = serde_json::from_str(&txt).expect("json");
    let mut n_set = 0u64;
    let mut bad_set = 0u64;
    for (name, cases) in v.as_object().expect("object") {
        let cases = match cases.as_array() {
            Some(c) => c,
            None => continue, // "comment"
        };
        for c in cases.iter().filter(|c| c.is_object()) {
            let href = c["href"].as_str().expect("href");
            let nv = c["new_value"].as_str().expect("new_value");
            let exp_obj = c["expected"].as_object().expect("expected");
            let req = format!("set {} {} {}", hexs(href), name, hexs(nv));
            let ans = drv.ask_with(&req, spec_oracle);
            if ans == "fuel" {
                fuel += 1;
            }
            let present: Vec<&str> = KEYS.iter().copied().filter(|k| exp_obj.get(*k).and_then(|x| x.as_str()).is_some()).collect();
            let exp = fields_line(&present, &|k| exp_obj[k].as_str().map(|s| s.to_string()));
            let got = match decode_answer(&ans) {
                Ok(v) => fields_line(&present, &|k| KEYS.iter().position(|x| *x == k).map(|i| v[i].clone())),
                Err(k) => k,
            };
            n_set += 1;
            if got != exp {
                bad_set += 1;
            }
            let human = format!("{}   [{:?} .{} = {:?}]", req, href, name, nv);
            rep.case("wpt-setters", &human, &got, &exp, true, &format!("set:{}", name));
        }
    }
    rep.notes.push(format!("setters_tests.json: {} vectors, {} pass, {} fail", n_set, n_set - bad_set, bad_set));
    }
    rep.notes.push(format!("out-of-fuel answers: {}", fuel));
}


pub fn impl_api(u: &Url) -> Vec<String> {
    use url::quirks as q;
    vec![
        q::href(u).to_string(),
        q::protocol(u).to_string(),
        q::username(u).to_string(),
        q::password(u).to_string(),
        q::host(u).to_string(),
        q::hostname(u).to_string(),
        q::port(u).to_string(),
        q::pathname(u).to_string(),
        q::search(u).to_string(),
        q::hash(u).to_string(),
    ]
}


pub fn impl_set(u: &mut Url, name: &str, v: &str) {
    use url::quirks as q;
    match name {
        "href" => { let _ = q::set_href(u, v); }
        "protocol" => { let _ = q::set_protocol(u, v); }
        "username" => { let _ = q::set_username(u, v); }
        "password" => { let _ = q::set_password(u, v); }
        "host" => { let _ = q::set_host(u, v); }
        "hostname" => { let _ = q::set_hostname(u, v); }
        "port" => { let _ = q::set_port(u, v); }
        "pathname" => q::set_pathname(u, v),
        "search" => q::set_search(u, v),
        "hash" => q::set_hash(u, v),
        _ => panic!("setter"),
    }
}


pub fn setter_values() -> Vec<&'static str> {
    vec![
        "", "a", "x:y", "h", "example.com", "example.com:8080", "example.com:", ":80", "::1", "[::1]", "[::1]:81", "1.2.3.4", "0x7f.1",
        "//", "/", "\\", "\\\\", "//p", "/.//p", "/..//p", "..", ".", "%2e", "c:", "C|", "/c:/x", "?", "#", "?q", "#f", "??", "##", "a b", " ",
        "\t", "\n", "\t/", "\n80", "80", "0", "65535", "65536", "8a", "443", "21", "http", "https", "file", "ftp", "ws", "a", "b:", "http:", "file:",
        "non-spec", "\u{e9}", "%41", "%", "@", "u@h", "u:p@h", "localhost", "LOCALHOST", "h/p", "h?q", "h#f", "h\\p", "x y ", "'", "\"", "<>", "`{}",
        "http://h/", "a:b", "a://h", "file:///c:/", "/a/../b", "\u{0}", "a\tb",
    ]
}

