//! Shared machinery of the correspondence harness: PRNG, hex list codec, the pipe to the
//! extracted-model driver, the per-run report.
pub mod urlrec;
pub mod urlops;
pub mod urlprops;
pub mod specapi;
pub mod known01;
use std::collections::{BTreeMap, HashSet};
use std::io::{BufRead, BufReader, Write};
use std::process::{Child, ChildStdin, ChildStdout, Command, Stdio};

// ------------------------------------------------------------------ PRNG (splitmix64)
#[derive(Clone)]
pub struct Rng(pub u64);
impl Rng {
    pub fn new(seed: u64) -> Self {
        Rng(seed ^ 0x9E37_79B9_7F4A_7C15)
    }
    pub fn next(&mut self) -> u64 {
        self.0 = self.0.wrapping_add(0x9E37_79B9_7F4A_7C15);
        let mut z = self.0;
        z = (z ^ (z >> 30)).wrapping_mul(0xBF58_476D_1CE4_E5B9);
        z = (z ^ (z >> 27)).wrapping_mul(0x94D0_49BB_1331_11EB);
        z ^ (z >> 31)
    }
    pub fn below(&mut self, n: usize) -> usize {
        if n == 0 {
            0
        } else {
            (self.next() % n as u64) as usize
        }
    }
    pub fn chance(&mut self, num: usize, den: usize) -> bool {
        self.below(den) < num
    }
    pub fn pick<'a, T>(&mut self, xs: &'a [T]) -> &'a T {
        &xs[self.below(xs.len())]
    }
    pub fn fork(&mut self) -> Rng {
        Rng(self.next())
    }
}

// ------------------------------------------------------------------ codec
pub fn hexl<I: IntoIterator<Item = u32>>(xs: I) -> String {
    let mut s = String::new();
    for (i, x) in xs.into_iter().enumerate() {
        if i > 0 {
            s.push('.');
        }
        s.push_str(&format!("{:x}", x));
    }
    if s.is_empty() {
        s.push('-');
    }
    s
}
pub fn hexb(bs: &[u8]) -> String {
    hexl(bs.iter().map(|&b| b as u32))
}
pub fn hexs(s: &str) -> String {
    hexl(s.chars().map(|c| c as u32))
}
pub fn unhexl(s: &str) -> Vec<u32> {
    if s == "-" {
        return vec![];
    }
    s.split('.').map(|h| u32::from_str_radix(h, 16).expect("hex")).collect()
}
pub fn unhexb(s: &str) -> Vec<u8> {
    unhexl(s).into_iter().map(|x| x as u8).collect()
}
pub fn unhexs(s: &str) -> String {
    unhexl(s).into_iter().map(|x| char::from_u32(x).expect("usv")).collect()
}
pub fn opt<T, F: Fn(&T) -> String>(o: &Option<T>, f: F) -> String {
    match o {
        None => "~".to_string(),
        Some(x) => f(x),
    }
}

// ------------------------------------------------------------------ driver pipe
pub struct Driver {
    child: Child,
    stdin: ChildStdin,
    stdout: BufReader<ChildStdout>,
    pub requests: u64,
}
impl Driver {
    pub fn spawn(path: &str) -> Driver {
        let mut child = Command::new(path)
            .stdin(Stdio::piped())
            .stdout(Stdio::piped())
            .spawn()
            .unwrap_or_else(|e| panic!("cannot start model driver {}: {}", path, e));
        let stdin = child.stdin.take().unwrap();
        let stdout = BufReader::new(child.stdout.take().unwrap());
        Driver { child, stdin, stdout, requests: 0 }
    }
    /// one request, no oracle
    pub fn ask(&mut self, line: &str) -> String {
        self.ask_with(line, |name, _| panic!("unexpected oracle query {}", name))
    }
    /// one request; `oracle(name, arg)` answers `Q name arg` lines
    pub fn ask_with<F: FnMut(&str, &str) -> String>(&mut self, line: &str, mut oracle: F) -> String {
        self.requests += 1;
        self.stdin.write_all(line.as_bytes()).unwrap();
        self.stdin.write_all(b"\n").unwrap();
        self.stdin.flush().unwrap();
        loop {
            let mut resp = String::new();
            let n = self.stdout.read_line(&mut resp).unwrap();
            if n == 0 {
                return "!driver-died".to_string();
            }
            let resp = resp.trim_end_matches('\n');
            if let Some(r) = resp.strip_prefix("R ") {
                return r.to_string();
            } else if resp == "R" {
                return String::new();
            } else if let Some(q) = resp.strip_prefix("Q ") {
                let mut it = q.splitn(2, ' ');
                let name = it.next().unwrap_or("");
                let arg = it.next().unwrap_or("");
                let a = oracle(name, arg);
                self.stdin.write_all(format!("A {}\n", a).as_bytes()).unwrap();
                self.stdin.flush().unwrap();
            } else {
                return format!("!bad-driver-line:{}", resp);
            }
        }
    }
}
impl Drop for Driver {
    fn drop(&mut self) {
        let _ = self.child.kill();
        let _ = self.child.wait();
    }
}

// ------------------------------------------------------------------ report
pub fn json_str(s: &str) -> String {
    let mut o = String::from("\"");
    for c in s.chars() {
        match c {
            '"' => o.push_str("\\\""),
            '\\' => o.push_str("\\\\"),
            '\n' => o.push_str("\\n"),
            '\r' => o.push_str("\\r"),
            '\t' => o.push_str("\\t"),
            c if (c as u32) < 0x20 => o.push_str(&format!("\\u{:04x}", c as u32)),
            c => o.push(c),
        }
    }
    o.push('"');
    o
}

fn fnv(s: &str) -> u64 {
    let mut h: u64 = 0xcbf29ce484222325;
    for b in s.bytes() {
        h ^= b as u64;
        h = h.wrapping_mul(0x100000001b3);
    }
    h
}

#[derive(Default)]
pub struct Report {
    pub evaluations: u64,
    distinct: HashSet<u64>,
    signatures: HashSet<u64>,
    pub streams: BTreeMap<String, u64>,
    pub histogram: BTreeMap<String, u64>,
    pub samples: Vec<String>,
    pub mismatches: Vec<(String, String, String)>,
    pub mismatch_count: u64,
    pub exhaustive: Vec<String>,
    pub notes: Vec<String>,
    pub known: Vec<(String, bool, String)>,
    pub failures: Vec<(String, String)>,
}
impl Report {
    pub fn new() -> Self {
        Self::default()
    }
    /// record one compared case. `nontrivial` by the bin's stated rule; `sig` = coarse outcome class.
    pub fn case(&mut self, stream: &str, request: &str, model: &str, imp: &str, nontrivial: bool, sig: &str) {
        self.evaluations += 1;
        *self.streams.entry(stream.to_string()).or_insert(0) += 1;
        *self.histogram.entry(format!("sig:{}", sig)).or_insert(0) += 1;
        if nontrivial {
            self.distinct.insert(fnv(request));
            let new_sig = self.signatures.insert(fnv(sig));
            if new_sig && self.samples.len() < 12 {
                let clip = |s: &str| if s.len() > 400 { format!("{}…", &s[..s.char_indices().nth(400).map(|(i, _)| i).unwrap_or(s.len())]) } else { s.to_string() };
                self.samples.push(format!("{} => {}", clip(request), clip(imp)));
            }
        }
        if model != imp {
            self.mismatch_count += 1;
            if self.mismatches.len() < 50 {
                self.mismatches.push((request.to_string(), model.to_string(), imp.to_string()));
            }
        }
    }
    pub fn bump(&mut self, key: &str) {
        *self.histogram.entry(key.to_string()).or_insert(0) += 1;
    }
    pub fn to_json(&self) -> String {
        let mut o = String::from("{");
        o.push_str(&format!("\"evaluations\":{},", self.evaluations));
        o.push_str(&format!("\"distinct_nontrivial\":{},", self.distinct.len()));
        o.push_str(&format!("\"signatures\":{},", self.signatures.len()));
        o.push_str(&format!("\"mismatch_count\":{},", self.mismatch_count));
        let kv = |m: &BTreeMap<String, u64>| {
            let v: Vec<String> = m.iter().map(|(k, v)| format!("{}:{}", json_str(k), v)).collect();
            format!("{{{}}}", v.join(","))
        };
        o.push_str(&format!("\"streams\":{},", kv(&self.streams)));
        o.push_str(&format!("\"histogram\":{},", kv(&self.histogram)));
        let l = |v: &Vec<String>| format!("[{}]", v.iter().map(|s| json_str(s)).collect::<Vec<_>>().join(","));
        o.push_str(&format!("\"samples\":{},", l(&self.samples)));
        o.push_str(&format!("\"exhaustive\":{},", l(&self.exhaustive)));
        o.push_str(&format!("\"notes\":{},", l(&self.notes)));
        let mm: Vec<String> = self
            .mismatches
            .iter()
            .map(|(r, m, i)| format!("{{\"request\":{},\"model\":{},\"impl\":{}}}", json_str(r), json_str(m), json_str(i)))
            .collect();
        o.push_str(&format!("\"mismatches\":[{}],", mm.join(",")));
        let kn: Vec<String> = self
            .known
            .iter()
            .map(|(id, rep, what)| format!("{{\"id\":{},\"reproduces\":{},\"observed\":{}}}", json_str(id), rep, json_str(what)))
            .collect();
        o.push_str(&format!("\"known\":[{}],", kn.join(",")));
        let fl: Vec<String> = self
            .failures
            .iter()
            .map(|(c, w)| format!("{{\"case\":{},\"what\":{}}}", json_str(c), json_str(w)))
            .collect();
        o.push_str(&format!("\"failures\":[{}]", fl.join(",")));
        o.push('}');
        o
    }
}

// ------------------------------------------------------------------ CLI
pub struct Args {
    pub mode: String,
    pub tier: String,
    pub seed: u64,
    pub driver: String,
    pub driver2: String,
    pub out: String,
    pub file: String,
    pub extra: Vec<String>,
}
pub fn parse_args() -> Args {
    let mut a = Args {
        mode: "corr".into(),
        tier: "quick".into(),
        seed: 1,
        driver: String::new(),
        driver2: String::new(),
        out: String::new(),
        file: String::new(),
        extra: vec![],
    };
    let v: Vec<String> = std::env::args().skip(1).collect();
    let mut i = 0;
    while i < v.len() {
        let val = |i: usize| v.get(i + 1).cloned().unwrap_or_default();
        match v[i].as_str() {
            "--mode" => { a.mode = val(i); i += 1 }
            "--tier" => { a.tier = val(i); i += 1 }
            "--seed" => { a.seed = val(i).parse().unwrap_or(1); i += 1 }
            "--driver" => { a.driver = val(i); i += 1 }
            "--driver2" => { a.driver2 = val(i); i += 1 }
            "--out" => { a.out = val(i); i += 1 }
            "--file" => { a.file = val(i); i += 1 }
            other => a.extra.push(other.to_string()),
        }
        i += 1;
    }
    a
}
pub fn finish(args: &Args, rep: &Report) {
    let j = rep.to_json();
    if args.out.is_empty() {
        println!("{}", j);
    } else {
        std::fs::write(&args.out, j).expect("write report");
    }
}

/// the top-level "request" field of a replay file written by the orchestrator ("" if absent)
pub fn replay_request(path: &str) -> String {
    let txt = std::fs::read_to_string(path).unwrap_or_default();
    match serde_json::from_str::<serde_json::Value>(&txt) {
        Ok(v) => v.get("request").and_then(|r| r.as_str()).unwrap_or("").to_string(),
        Err(_) => String::new(),
    }
}

/// run `f` and turn a panic into the outcome "PANIC"
pub fn guarded<F: FnOnce() -> String + std::panic::UnwindSafe>(f: F) -> String {
    match std::panic::catch_unwind(f) {
        Ok(s) => s,
        Err(_) => "PANIC".to_string(),
    }
}
pub fn quiet_panics() {
    std::panic::set_hook(Box::new(|_| {}));
}

/// enumerate all strings over `alphabet` with length <= max_len, calling f on each
pub fn for_all_strings<T: Clone, F: FnMut(&[T])>(alphabet: &[T], max_len: usize, mut f: F) {
    let mut cur: Vec<T> = Vec::new();
    fn rec<T: Clone, F: FnMut(&[T])>(alphabet: &[T], max_len: usize, cur: &mut Vec<T>, f: &mut F) {
        f(cur);
        if cur.len() == max_len {
            return;
        }
        for a in alphabet {
            cur.push(a.clone());
            rec(alphabet, max_len, cur, f);
            cur.pop();
        }
    }
    rec(alphabet, max_len, &mut cur, &mut f);
}

// ---------------------------------------------------------------- Punycode boundary payloads (shared)
fn pb_t(k: u128, bias: u128) -> u128 {
    if k <= bias { 1 } else if k >= bias + 26 { 26 } else { k - bias }
}
fn pb_digit(d: u128) -> char {
    if d < 26 { (b'a' + d as u8) as char } else { (b'0' + (d as u8 - 26)) as char }
}
/// lower-case digits of `delta` as an RFC 3492 generalized variable-length integer under `bias`
pub fn puny_vli_digits(delta: u128, bias: u128) -> String {
    let mut out = String::new();
    let mut q = delta;
    let mut k = 36;
    loop {
        let t = pb_t(k, bias);
        if q < t {
            break;
        }
        out.push(pb_digit(t + (q - t) % (36 - t)));
        q = (q - t) / (36 - t);
        k += 36;
    }
    out.push(pb_digit(q));
    out
}
/// Deterministic decoder inputs (without the "xn--" prefix) whose FIRST delta puts the decoded code point or
/// the insertion index on a boundary: surrogates, char::MAX, and the u32 limits of `i`, of `digit * weight`
/// and of `code_point + i / (length + 1)`; 0..3 basic code points in front; each boundary with offsets -2..+2.
pub fn puny_boundary_payloads() -> Vec<Vec<u8>> {
    let targets: [u128; 16] = [
        0x80, 0xd7ff, 0xd800, 0xdfff, 0xe000, 0x10ffff, 0x110000, (1u128 << 31) - 1, 1u128 << 31,
        (1u128 << 32) - 0x81, (1u128 << 32) - 1, 1u128 << 32, (1u128 << 32) + 0x7f, (1u128 << 32) + 0x80, (1u128 << 33), 45_000_000_000,
    ];
    let mut v = Vec::new();
    for l in 0u128..4 {
        for t in targets {
            for off in -2i128..=2 {
                let base = (t - 0x80) * (l + 1);
                let delta = if off < 0 { base.saturating_sub((-off) as u128) } else { base + off as u128 };
                let mut b: Vec<u8> = (0..l).map(|i| b'a' + i as u8).collect();
                if l > 0 {
                    b.push(b'-');
                }
                b.extend_from_slice(puny_vli_digits(delta, 72).as_bytes());
                v.push(b.clone());
                // a second small delta behind it (bias 0 digits are plain values below 36)
                b.push(b'b');
                v.push(b);
            }
        }
    }
    v
}

/// Host texts for sampling the host / IDNA premises (HostOK, IdnaOK) on the implementation: every ASCII value raw,
/// percent-encoded and as its fullwidth compatibility form, alone, next to a non-ASCII letter on either side, and
/// inside an xn-- label.  Fixed (seed-independent).
pub fn host_premise_pool() -> Vec<String> {
    let mut hosts: Vec<String> = Vec::new();
    for c in 0u8..=0x7f {
        let raw = (c as char).to_string();
        let pct = format!("%{:02X}", c);
        let mut forms = vec![raw, pct];
        if (0x21..=0x7e).contains(&c) {
            forms.push(char::from_u32(0xFF00 + (c as u32 - 0x20)).unwrap().to_string());
        }
        for f in &forms {
            hosts.push(format!("a{}b", f));
            hosts.push(format!("\u{e9}{}", f));
            hosts.push(format!("{}\u{e9}", f));
            hosts.push(format!("caf\u{e9}{}.example", f));
            hosts.push(format!("x.{}\u{4e2d}a", f));
            hosts.push(format!("xn--caf{}-dpa.example", f));
            hosts.push(format!("XN--{}-1ga", f));
        }
    }
    // label-boundary shapes: a combining mark right behind a mapped full stop, labels of 58..64 code points with one
    // non-ASCII letter (no DNS length limit applies to URL hosts), A-labels of more than 63 bytes
    for dot in ["\u{3002}", "\u{ff0e}", "\u{ff61}", "."] {
        hosts.push(format!("www{}\u{301}b.example", dot));
        hosts.push(format!("ab{}\u{301}c", dot));
        hosts.push(format!("a{}b\u{301}.x", dot));
    }
    for n in [57usize, 58, 59, 60, 62, 63, 64, 100] {
        hosts.push(format!("{}\u{fc}.example", "a".repeat(n)));
        hosts.push(format!("x.\u{fc}{}", "b".repeat(n)));
    }
    // a capital letter in every position class of an otherwise plain lower-case label (first, inner, last byte;
    // first / last label), digits and hyphens around it
    for c in ['A', 'E', 'Z'] {
        for h in ["{}xample.com", "ex{}mple.com", "exampl{}.com", "example.co{}", "www.exampl{}", "a-{}", "a1{}", "{}", "a{}", "x.{}.y", "exampl{}.com."] {
            hosts.push(h.replace("{}", &c.to_string()));
        }
    }
    hosts
}
