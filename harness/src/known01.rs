//! Known_C01 - the Rust twin of Model/KnownC01.v `known_c01` (used by c01.rs and, without a base, by the
//! href setter of c07.rs).  The classes are the EXACT exclusions of the proved class theorems of C01:
//!   1 the file scheme is involved (effective scheme `file`), except scheme-less references that are
//!     empty or start with '?' / '#', and except - when R is inside the recogniser `k_file_ok` of the
//!     proved file class (C01_known_file_exact) - "file:" R with no base or a base whose scheme is not
//!     file, "file:" R against a file base when R starts with two '/' '\', and a scheme-less R that starts
//!     with two '/' '\' against a file base (C01_statement_all3); `known_c01_v1` is the predicate before
//!     any narrowing;
//!   2 a ".." (any spelling) would pop a drive-letter-shaped segment in the path the Standard's path
//!     state builds (F-C01-9: parser.rs never pops such a segment, in any scheme);
//!   3 non-special authority: a port number <= 65535 directly followed by '\' (F-C01-8);
//!   4 non-special authority that is exactly ":@" (F-C01-12).
//! Everything is computed on the raw text, cut the way the Standard's states cut it.  The Coq and the
//! Rust version are compared on every differential case.

pub struct KBase<'a> {
    pub scheme: &'a str,
    pub cannot_be_a_base: bool,
    pub path: &'a str,
    /// "://" follows the scheme (Url::has_authority)
    pub has_authority: bool,
}

/// text of the input as the parser sees it: C0/space trimmed, tab/LF/CR removed
pub fn cleaned(input: &str) -> Vec<char> {
    input.trim_matches(|c: char| c <= ' ').chars().filter(|c| !matches!(c, '\t' | '\n' | '\r')).collect()
}
pub fn leading_scheme(t: &[char]) -> Option<String> {
    if t.first().map_or(false, |c| c.is_ascii_alphabetic()) {
        let mut s = String::new();
        for &c in t {
            if c.is_ascii_alphanumeric() || c == '+' || c == '-' || c == '.' {
                s.push(c.to_ascii_lowercase());
            } else if c == ':' {
                return Some(s);
            } else {
                return None;
            }
        }
    }
    None
}
pub fn is_special_scheme(s: &str) -> bool {
    matches!(s, "http" | "https" | "ws" | "wss" | "ftp" | "file")
}
fn is_path_end(c: char) -> bool {
    matches!(c, '/' | '\\' | '?' | '#')
}
/// the segment is drive-letter-shaped: alpha (':' | '|') and then nothing or one of / \ ? #
fn wdl_seg(s: &[char]) -> bool {
    s.len() >= 2 && s[0].is_ascii_alphabetic() && (s[1] == ':' || s[1] == '|') && (s.len() == 2 || is_path_end(s[2]))
}
fn pct2e(a: char, b: char, c: char) -> bool {
    a == '%' && b == '2' && (c == 'e' || c == 'E')
}
fn single_dot(s: &[char]) -> bool {
    match s {
        [a] => *a == '.',
        [a, b, c] => pct2e(*a, *b, *c),
        _ => false,
    }
}
fn double_dot(s: &[char]) -> bool {
    match s {
        [a, b] => *a == '.' && *b == '.',
        [a, b, c, d] => (*a == '.' && pct2e(*b, *c, *d)) || (pct2e(*a, *b, *c) && *d == '.'),
        [a, b, c, d, e, f] => pct2e(*a, *b, *c) && pct2e(*d, *e, *f),
        _ => false,
    }
}
/// end of the authority: / ? # and, for special schemes, \
fn is_ae(sp: bool, c: char) -> bool {
    c == '/' || c == '?' || c == '#' || (sp && c == '\\')
}
fn is_sl(c: char) -> bool {
    c == '/' || c == '\\'
}

/// the Standard's path state on the text `t` (up to '?' / '#'), starting from the segment stack `w`
/// (one flag per segment: drive-letter-shaped or not): does a ".." meet a drive-letter-shaped last segment?
fn path_bad(sp: bool, t: &[char], w0: &[bool]) -> bool {
    let mut w: Vec<bool> = w0.to_vec();
    let mut buf: Vec<char> = vec![];
    let mut i = 0;
    loop {
        let (sep, end) = if i >= t.len() {
            (false, true)
        } else if t[i] == '/' || (sp && t[i] == '\\') {
            (true, false)
        } else if t[i] == '?' || t[i] == '#' {
            (false, true)
        } else {
            buf.push(t[i]);
            i += 1;
            continue;
        };
        if double_dot(&buf) {
            if w.last() == Some(&true) {
                return true;
            }
            w.pop();
            if !sep {
                w.push(false);
            }
        } else if single_dot(&buf) {
            if !sep {
                w.push(false);
            }
        } else {
            w.push(wdl_seg(&buf));
        }
        buf.clear();
        if end {
            return false;
        }
        i += 1;
    }
}

/// the text the host state starts on: behind the last '@' of the authority (if there is one)
fn after_at(sp: bool, t: &[char]) -> &[char] {
    let end = t.iter().position(|&c| is_ae(sp, c)).unwrap_or(t.len());
    match t[..end].iter().rposition(|&c| c == '@') {
        Some(p) => &t[p + 1..],
        None => t,
    }
}
/// the text from the character that ends the host (':' outside brackets, or the end of the authority)
fn host_rest(sp: bool, t: &[char]) -> &[char] {
    let mut br = false;
    for (i, &c) in t.iter().enumerate() {
        if (c == ':' && !br) || is_ae(sp, c) {
            return &t[i..];
        }
        if c == '[' {
            br = true;
        } else if c == ']' {
            br = false;
        }
    }
    &t[t.len()..]
}
/// (text after "host:" if a ':' ends the host, what follows the digits of the port)
fn port_cut(sp: bool, t: &[char]) -> (Option<&[char]>, &[char]) {
    let x = host_rest(sp, after_at(sp, t));
    if x.first() == Some(&':') {
        let pr = &x[1..];
        let n = pr.iter().take_while(|c| c.is_ascii_digit()).count();
        (Some(&pr[..n]), &pr[n..])
    } else {
        (None, x)
    }
}
/// the digits denote a number <= 65535 (the empty string counts as 0)
fn port_small(d: &[char]) -> bool {
    let mut v: u64 = 0;
    for c in d {
        v = v * 10 + (*c as u64 - '0' as u64);
        if v > 65535 {
            return false;
        }
    }
    true
}

/// "//T" of a non-special URL: classes 2, 3, 4
fn auth_known(t: &[char]) -> u32 {
    let (digits, x) = port_cut(false, t);
    if x.first() == Some(&'/') && path_bad(false, &x[1..], &[]) {
        return 2;
    }
    if let Some(d) = digits {
        if port_small(d) && x.first() == Some(&'\\') {
            return 3;
        }
    }
    let end = t.iter().position(|&c| is_ae(false, c)).unwrap_or(t.len());
    if t[..end] == [':', '@'] {
        return 4;
    }
    0
}
/// the text T behind "sch:" + slashes of a special URL: class 2
fn special_known(r: &[char]) -> u32 {
    let n = r.iter().take_while(|c| is_sl(**c)).count();
    let (_, x) = port_cut(true, &r[n..]);
    let starts_aes = x.first().map_or(true, |c| is_ae(true, *c));
    let pt = if x.first().map_or(false, |c| is_sl(*c)) { &x[1..] } else { x };
    if starts_aes && path_bad(true, pt, &[]) {
        2
    } else {
        0
    }
}
/// the drive-letter flags of the segments of a serialized path, without the last segment
fn base_stack(path: &str) -> Vec<bool> {
    let p: Vec<char> = path.chars().collect();
    if p.first() != Some(&'/') {
        return vec![];
    }
    let mut w: Vec<bool> = p[1..].split(|c| *c == '/').map(wdl_seg).collect();
    w.pop();
    w
}

// ---- the file scheme: the recogniser of the proved file class (Model/KnownC01.v kf_* / k_file_ok) ----
// the Standard's file path state (both Windows-drive-letter quirks) on raw segments
fn is_wdl(s: &[char]) -> bool {
    s.len() == 2 && s[0].is_ascii_alphabetic() && (s[1] == ':' || s[1] == '|')
}
fn is_nwdl(s: &[char]) -> bool {
    is_wdl(s) && s[1] == ':'
}
fn kf_pref(b: &[char]) -> bool {
    b.len() >= 2 && b[0].is_ascii_alphabetic() && (b[1] == ':' || b[1] == '|')
}
fn kf_fin(p: &mut Vec<Vec<char>>, b: &[char], sep: bool) {
    if double_dot(b) {
        if !(p.len() == 1 && is_nwdl(&p[0])) {
            p.pop();
        }
        if !sep {
            p.push(vec![]);
        }
    } else if single_dot(b) {
        if !sep {
            p.push(vec![]);
        }
    } else {
        let mut s = b.to_vec();
        if p.is_empty() && is_wdl(&s) {
            s[1] = ':';
        }
        p.push(s);
    }
}
/// (kf_path t [] [], kf_path_ok hh t [] [])
fn kf_run(hh: bool, t: &[char]) -> (Vec<Vec<char>>, bool) {
    let mut p: Vec<Vec<char>> = vec![];
    let mut b: Vec<char> = vec![];
    let mut ok = true;
    let fin_ok = |p: &Vec<Vec<char>>, b: &[char]| {
        // ".." on a drive-letter-shaped last segment - unless it is the sole segment and a normalized drive letter
        !(double_dot(b) && p.last().map_or(false, |s| wdl_seg(s)) && !(p.len() == 1 && is_nwdl(&p[0])))
            && !(hh && p.is_empty() && is_wdl(b))
    };
    for &c in t {
        if is_sl(c) {
            ok &= fin_ok(&p, &b);
            kf_fin(&mut p, &b, true);
            b.clear();
        } else if c == '?' || c == '#' {
            ok &= fin_ok(&p, &b);
            kf_fin(&mut p, &b, false);
            return (p, ok);
        } else {
            if p.is_empty() && kf_pref(&b) {
                ok = false;
            }
            b.push(c);
        }
    }
    ok &= fin_ok(&p, &b);
    kf_fin(&mut p, &b, false);
    (p, ok)
}
fn kf_strip(p: &[Vec<char>]) -> Vec<Vec<char>> {
    let n = p.iter().take_while(|s| s.is_empty()).count();
    if n == p.len() {
        vec![vec![]]
    } else {
        p[n..].to_vec()
    }
}
fn kf_ok(hh: bool, tm: &[char], ts: &[char]) -> bool {
    let (pm, ok) = kf_run(hh, tm);
    let (ps, _) = kf_run(false, ts);
    ok && kf_strip(&pm) == ps
}
/// the text R after "file:" is inside the proved file class
pub fn k_file_ok(r: &[char]) -> bool {
    if r.first().map_or(false, |c| is_sl(*c)) {
        let r1 = &r[1..];
        if r1.first().map_or(false, |c| is_sl(*c)) {
            let t = &r1[1..];
            let end = t.iter().position(|&c| is_ae(true, c)).unwrap_or(t.len());
            let (h, x) = (&t[..end], &t[end..]);
            let xt = if x.first().map_or(false, |c| is_sl(*c)) { &x[1..] } else { x };
            !is_wdl(h) && kf_ok(false, x, xt) && (h.is_empty() || kf_ok(true, xt, xt))
        } else {
            kf_ok(false, r1, r1)
        }
    } else {
        kf_ok(false, r, r)
    }
}
fn k_two_sl(r: &[char]) -> bool {
    r.len() >= 2 && is_sl(r[0]) && is_sl(r[1])
}
/// R inside the proved file class and: "file:" R with no base or a base with another scheme; "file:" R against
/// a file base when R starts with two separators; a scheme-less R that starts with two separators against a
/// file base; R (scheme-less or behind "file:") with ONE leading separator against a file base whose host is
/// kept (one_keep) (Model/KnownC01.v k_file_narrow)
/// Model/KnownC01.v k_one_keep: R = one separator + a text that starts neither with a separator nor with a Windows
/// drive letter; the base has an authority and the first segment of its path is not a normalized drive letter
fn one_keep(b: &KBase, r: &[char]) -> bool {
    if r.is_empty() || !is_sl(r[0]) {
        return false;
    }
    let r1 = &r[1..];
    if r1.first().map_or(false, |c| is_sl(*c)) || wdl_seg(r1) || !b.has_authority {
        return false;
    }
    let p: Vec<char> = b.path.chars().collect();
    if p.first() != Some(&'/') {
        return false;
    }
    let first: Vec<char> = p[1..].split(|c| *c == '/').next().map(|s| s.to_vec()).unwrap_or_default();
    !is_nwdl(&first)
}
fn file_narrow(base: Option<&KBase>, input: &str) -> bool {
    let t = cleaned(input);
    match leading_scheme(&t) {
        Some(s) => {
            let p = t.iter().position(|&c| c == ':').map(|p| p + 1).unwrap_or(t.len());
            let r = &t[p..];
            s == "file"
                && base.map_or(true, |b| b.scheme != "file" || k_two_sl(r) || (!b.cannot_be_a_base && one_keep(b, r)))
                && k_file_ok(r)
        }
        None => base.map_or(false, |b| {
            b.scheme == "file" && !b.cannot_be_a_base && (k_two_sl(&t) || one_keep(b, &t)) && k_file_ok(&t)
        }),
    }
}

/// Known_C01: 0 = not known, 1..4 = class
pub fn known_c01(base: Option<&KBase>, input: &str) -> u32 {
    let k = known_c01_v1(base, input);
    if k == 1 && file_narrow(base, input) {
        0
    } else {
        k
    }
}

/// Known_C01 before class 1 was narrowed (class 1 = the whole file scheme)
pub fn known_c01_v1(base: Option<&KBase>, input: &str) -> u32 {
    let t = cleaned(input);
    let sch = leading_scheme(&t);
    let bscheme = base.map(|b| b.scheme.to_string());
    let eff = sch.clone().or_else(|| bscheme.clone()).unwrap_or_default();
    let rest: &[char] = match &sch {
        Some(_) => {
            let p = t.iter().position(|&c| c == ':').map(|p| p + 1).unwrap_or(0);
            &t[p..]
        }
        None => &t[..],
    };
    // a scheme-less reference that is empty or starts with '?' / '#': resolved without the file states
    let bare = base.is_some() && sch.is_none() && (rest.is_empty() || rest[0] == '?' || rest[0] == '#');
    if (eff == "file" || (bscheme.as_deref() == Some("file") && sch.is_none())) && !bare {
        return 1;
    }
    let sp = is_special_scheme(&eff);
    let two_sl = rest.len() >= 2 && is_sl(rest[0]) && is_sl(rest[1]);
    // does the reference resolve against the base?
    let rel = match (base, &sch) {
        (Some(_), None) => true,
        (Some(_), Some(s)) => sp && Some(s) == bscheme.as_ref() && !two_sl,
        (None, _) => false,
    };
    if !rel {
        if sch.is_none() {
            return 0;
        }
        if sp {
            return special_known(rest);
        }
        return match rest {
            ['/', '/', tt @ ..] => auth_known(tt),
            ['/', x @ ..] => {
                if path_bad(false, x, &[]) {
                    2
                } else {
                    0
                }
            }
            _ => 0,
        };
    }
    let b = base.unwrap();
    if b.cannot_be_a_base || rest.is_empty() || rest[0] == '?' || rest[0] == '#' {
        return 0;
    }
    let bad = |x: bool| if x { 2 } else { 0 };
    if sp {
        if is_sl(rest[0]) {
            if two_sl {
                special_known(&rest[2..])
            } else {
                bad(path_bad(true, &rest[1..], &[]))
            }
        } else {
            bad(path_bad(true, rest, &base_stack(b.path)))
        }
    } else {
        match rest {
            ['/', '/', tt @ ..] => auth_known(tt),
            ['/', x @ ..] => bad(path_bad(false, x, &[])),
            _ => bad(path_bad(false, rest, &base_stack(b.path))),
        }
    }
}

pub fn class_name(k: u32) -> &'static str {
    match k {
        1 => "K1-file-scheme",
        2 => "K2-dotdot-meets-drive-letter-segment",
        3 => "K3-port-then-backslash",
        4 => "K4-authority-colon-at",
        _ => "K?",
    }
}

/// a two-character piece  alpha (':' | '|')  delimited like a path segment, anywhere in the text
/// (Model/KnownC01.v has_drive_segment; used by Known_C07 class 1)
pub fn has_drive_segment(t: &[char]) -> bool {
    (0..t.len()).any(|i| {
        t[i].is_ascii_alphabetic()
            && i + 1 < t.len()
            && (t[i + 1] == ':' || t[i + 1] == '|')
            && (i == 0 || is_path_end(t[i - 1]))
            && (i + 2 == t.len() || is_path_end(t[i + 2]))
    })
}
