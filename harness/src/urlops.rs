//! Mutating operations on `Url` as data: generation, application to the real crate, request lines.
use crate::urlrec::*;
use crate::*;
use std::net::{IpAddr, Ipv4Addr, Ipv6Addr};
use url::Url;

#[derive(Clone, Debug)]
pub enum PsmOp {
    Clear,
    PopIfEmpty,
    Pop,
    Push(String),
    Extend(Vec<String>),
}

#[derive(Clone, Debug)]
pub enum QOp {
    AppendPair(String, String),
    AppendKeyOnly(String),
    ExtendPairs(Vec<(String, String)>),
    Clear,
}

#[derive(Clone, Debug)]
pub enum Op {
    /// `*u = u.join(reference)?` - resolution against the current URL
    Join(String),
    /// query_pairs_mut() session; `true` = ended by an explicit finish(), `false` = by dropping the serializer
    Qpm(bool, Vec<QOp>),
    SetFragment(Option<String>),
    SetQuery(Option<String>),
    SetPath(String),
    SetPort(Option<u16>),
    SetHost(Option<String>),
    SetIpHost(IpAddr),
    SetPassword(Option<String>),
    SetUsername(String),
    SetScheme(String),
    Psm(Vec<PsmOp>),
    Quirk(&'static str, String),
}

fn so(x: &Option<String>) -> String {
    match x {
        None => "~".into(),
        Some(s) => hexs(s),
    }
}

impl Op {
    /// `<name> <args…>` part of the request line
    pub fn token(&self) -> String {
        match self {
            Op::SetFragment(x) => format!("set_fragment {}", so(x)),
            Op::SetQuery(x) => format!("set_query {}", so(x)),
            Op::SetPath(x) => format!("set_path {}", hexs(x)),
            Op::SetPort(p) => format!("set_port {}", opt(p, |v| format!("{:x}", v))),
            Op::SetHost(x) => format!("set_host {}", so(x)),
            Op::SetIpHost(a) => format!(
                "set_ip_host {}",
                match a {
                    IpAddr::V4(a) => format!("4{:x}", u32::from(*a)),
                    IpAddr::V6(a) => format!("6{}", hexl(a.segments().iter().map(|&s| s as u32))),
                }
            ),
            Op::SetPassword(x) => format!("set_password {}", so(x)),
            Op::SetUsername(x) => format!("set_username {}", hexs(x)),
            Op::SetScheme(x) => format!("set_scheme {}", hexs(x)),
            Op::Psm(ops) => {
                let v: Vec<String> = ops
                    .iter()
                    .map(|o| match o {
                        PsmOp::Clear => "c".to_string(),
                        PsmOp::PopIfEmpty => "e".to_string(),
                        PsmOp::Pop => "p".to_string(),
                        PsmOp::Push(s) => format!("u{}", hexs(s)),
                        PsmOp::Extend(ss) => format!("x{}", ss.iter().map(|s| hexs(s)).collect::<Vec<_>>().join(";")),
                    })
                    .collect();
                format!("psm {}", v.join(" "))
            }
            Op::Quirk(name, v) => format!("q_set_{} {}", name, hexs(v)),
            Op::Join(r) => format!("join {}", hexs(r)),
            Op::Qpm(fin, ops) => {
                let v: Vec<String> = ops
                    .iter()
                    .map(|o| match o {
                        QOp::AppendPair(k, v) => format!("a{}={}", hexs(k), hexs(v)),
                        QOp::AppendKeyOnly(k) => format!("k{}", hexs(k)),
                        QOp::ExtendPairs(l) => format!("x{}", l.iter().map(|(k, v)| format!("{}={}", hexs(k), hexs(v))).collect::<Vec<_>>().join(";")),
                        QOp::Clear => "c".to_string(),
                    })
                    .collect();
                format!("qpm {} {}", if *fin { 1 } else { 0 }, v.join(" ")).trim_end().to_string()
            }
        }
    }

    /// inverse of `token`
    pub fn from_token(t: &str) -> Option<Op> {
        let w: Vec<&str> = t.split(' ').collect();
        let oo = |x: &str| if x == "~" { None } else { Some(unhexs(x)) };
        Some(match w[0] {
            "set_fragment" => Op::SetFragment(oo(w[1])),
            "set_query" => Op::SetQuery(oo(w[1])),
            "set_path" => Op::SetPath(unhexs(w[1])),
            "set_port" => Op::SetPort(if w[1] == "~" { None } else { Some(u16::from_str_radix(w[1], 16).ok()?) }),
            "set_host" => Op::SetHost(oo(w[1])),
            "set_ip_host" => {
                let (tag, arg) = w[1].split_at(1);
                if tag == "4" {
                    Op::SetIpHost(IpAddr::V4(Ipv4Addr::from(u32::from_str_radix(arg, 16).ok()?)))
                } else {
                    let p = unhexl(arg);
                    Op::SetIpHost(IpAddr::V6(Ipv6Addr::new(
                        p[0] as u16, p[1] as u16, p[2] as u16, p[3] as u16, p[4] as u16, p[5] as u16, p[6] as u16, p[7] as u16,
                    )))
                }
            }
            "set_password" => Op::SetPassword(oo(w[1])),
            "set_username" => Op::SetUsername(unhexs(w[1])),
            "set_scheme" => Op::SetScheme(unhexs(w[1])),
            "psm" => Op::Psm(
                w[1..]
                    .iter()
                    .map(|o| {
                        let (tag, arg) = o.split_at(1);
                        match tag {
                            "c" => PsmOp::Clear,
                            "e" => PsmOp::PopIfEmpty,
                            "p" => PsmOp::Pop,
                            "u" => PsmOp::Push(unhexs(arg)),
                            _ => PsmOp::Extend(if arg.is_empty() { vec![] } else { arg.split(';').map(unhexs).collect() }),
                        }
                    })
                    .collect(),
            ),
            "join" => Op::Join(unhexs(w[1])),
            "qpm" => {
                let pair = |s: &str| {
                    let mut it = s.split('=');
                    (unhexs(it.next().unwrap_or("-")), unhexs(it.next().unwrap_or("-")))
                };
                Op::Qpm(
                    w[1] == "1",
                    w[2..]
                        .iter()
                        .filter(|o| !o.is_empty())
                        .map(|o| {
                            let (tag, arg) = o.split_at(1);
                            match tag {
                                "a" => {
                                    let (k, v) = pair(arg);
                                    QOp::AppendPair(k, v)
                                }
                                "k" => QOp::AppendKeyOnly(unhexs(arg)),
                                "x" => QOp::ExtendPairs(if arg.is_empty() { vec![] } else { arg.split(';').map(pair).collect() }),
                                _ => QOp::Clear,
                            }
                        })
                        .collect(),
                )
            }
            n if n.starts_with("q_set_") => {
                let name = QUIRK_SETTERS.iter().find(|q| **q == &n[6..])?;
                Op::Quirk(name, unhexs(w[1]))
            }
            _ => return None,
        })
    }

    pub fn kind(&self) -> String {
        match self {
            Op::Quirk(n, _) => format!("q_{}", n),
            Op::Psm(_) => "psm".into(),
            Op::Join(_) => "join".into(),
            Op::Qpm(f, _) => if *f { "qpm_finish".into() } else { "qpm_drop".into() },
            o => o.token().split(' ').next().unwrap().to_string(),
        }
    }

    /// apply to the real crate; returns the status token ("ok", "errunit", "err<code>")
    pub fn apply(&self, u: &mut Url) -> String {
        let unit = |r: Result<(), ()>| if r.is_ok() { "ok".to_string() } else { "errunit".to_string() };
        match self {
            Op::SetFragment(x) => {
                u.set_fragment(x.as_deref());
                "ok".into()
            }
            Op::SetQuery(x) => {
                u.set_query(x.as_deref());
                "ok".into()
            }
            Op::SetPath(x) => {
                u.set_path(x);
                "ok".into()
            }
            Op::SetPort(p) => unit(u.set_port(*p)),
            Op::SetHost(x) => match u.set_host(x.as_deref()) {
                Ok(()) => "ok".into(),
                Err(e) => format!("err{:x}", parse_error_code(e)),
            },
            Op::SetIpHost(a) => unit(u.set_ip_host(*a)),
            Op::SetPassword(x) => unit(u.set_password(x.as_deref())),
            Op::SetUsername(x) => unit(u.set_username(x)),
            Op::SetScheme(x) => unit(u.set_scheme(x)),
            Op::Psm(ops) => match u.path_segments_mut() {
                Err(()) => "errunit".into(),
                Ok(mut p) => {
                    for o in ops {
                        match o {
                            PsmOp::Clear => {
                                p.clear();
                            }
                            PsmOp::PopIfEmpty => {
                                p.pop_if_empty();
                            }
                            PsmOp::Pop => {
                                p.pop();
                            }
                            PsmOp::Push(s) => {
                                p.push(s);
                            }
                            PsmOp::Extend(ss) => {
                                p.extend(ss.iter());
                            }
                        }
                    }
                    "ok".into()
                }
            },
            Op::Join(r) => match u.join(r) {
                Ok(n) => {
                    *u = n;
                    "ok".into()
                }
                Err(e) => format!("err{:x}", parse_error_code(e)),
            },
            Op::Qpm(fin, ops) => {
                let mut s = u.query_pairs_mut();
                for o in ops {
                    match o {
                        QOp::AppendPair(k, v) => {
                            s.append_pair(k, v);
                        }
                        QOp::AppendKeyOnly(k) => {
                            s.append_key_only(k);
                        }
                        QOp::ExtendPairs(l) => {
                            s.extend_pairs(l.iter().map(|(k, v)| (k.as_str(), v.as_str())));
                        }
                        QOp::Clear => {
                            s.clear();
                        }
                    }
                }
                if *fin {
                    let _ = s.finish();
                } else {
                    drop(s);
                }
                "ok".into()
            }
            Op::Quirk(name, v) => match *name {
                "protocol" => unit(url::quirks::set_protocol(u, v)),
                "username" => unit(url::quirks::set_username(u, v)),
                "password" => unit(url::quirks::set_password(u, v)),
                "host" => unit(url::quirks::set_host(u, v)),
                "hostname" => unit(url::quirks::set_hostname(u, v)),
                "port" => unit(url::quirks::set_port(u, v)),
                "pathname" => {
                    url::quirks::set_pathname(u, v);
                    "ok".into()
                }
                "search" => {
                    url::quirks::set_search(u, v);
                    "ok".into()
                }
                "hash" => {
                    url::quirks::set_hash(u, v);
                    "ok".into()
                }
                _ => panic!("unknown quirk setter"),
            },
        }
    }
}

/// apply under catch_unwind: Some((new url, status)) or None on panic
pub fn apply_guarded(op: &Op, u: &Url) -> Option<(Url, String)> {
    let mut c = u.clone();
    let r = std::panic::catch_unwind(std::panic::AssertUnwindSafe(|| {
        let st = op.apply(&mut c);
        st
    }));
    match r {
        Ok(st) => Some((c, st)),
        Err(_) => None,
    }
}

pub fn impl_op_result(op: &Op, u: &Url) -> (String, Option<Url>) {
    match apply_guarded(op, u) {
        Some((c, st)) => (format!("{} {}", url_token(&c), st), Some(c)),
        None => ("panic".to_string(), None),
    }
}

pub const QUIRK_SETTERS: [&str; 9] = ["protocol", "username", "password", "host", "hostname", "port", "pathname", "search", "hash"];

pub fn arg_pool() -> Vec<&'static str> {
    vec![
        "", "a", "/", "//", "\\", "?", "#", "@", ":", "%", "%41", "%2e", "..", ".", "/..", "/a/b", "//x", "/c:", "c:", "C|", "x y", " ",
        "\t", "\n", "a\tb", " x ", "\u{e9}", "\u{5d0}", "\u{1f600}", "\"", "<", ">", "`", "{", "}", "'", "^", "|", "[", "]", "[::1]",
        "[::1]:80", "1.2.3.4", "0x7f.1", "localhost", "h", "h:80", "h:", ":80", "h:x", "H.COM", "ex%41mple.com", "xn--4db", "a@b", "u:p",
        "http", "https", "file", "ws", "a", "non-spec", "http:", "file:x", "1x", "ht tp", "80", "443", "0", "65535", "65536", "8x", "8\t0", "9", "10", "99", "100", "999", "1000", "9999", "10000", "h:10000",
        "?q", "#f", "a=b&c=d", "\u{0}", "\u{7f}", "\u{80}", "a/../b", "a/./b", "/.//x", "a b ", "%00", "&", "=", "+", ";", "~",
        // a '/' behind tab / LF (class of the repaired finding F-C06-6)
        "\t/x", "\n//x", "\t/ y",
        // arguments that equal the DECODED form of a stored component with an escape
        "Alice", "B c",
        // a dot segment behind tab / LF / CR (class of the repaired finding F-C06-7: extend() skipped only the literal "." / "..")
        ".\t.", "\n.", ".\r",
    ]
}

fn pick_s(rng: &mut Rng, pool: &[&'static str]) -> String {
    if rng.chance(1, 12) {
        let a = pool[rng.below(pool.len())];
        let b = pool[rng.below(pool.len())];
        format!("{}{}", a, b)
    } else {
        pool[rng.below(pool.len())].to_string()
    }
}
fn pick_o(rng: &mut Rng, pool: &[&'static str]) -> Option<String> {
    if rng.chance(1, 6) {
        None
    } else {
        Some(pick_s(rng, pool))
    }
}

pub fn random_op(rng: &mut Rng, quirks_only: bool) -> Op {
    let pool = arg_pool();
    if quirks_only || rng.chance(1, 3) {
        return Op::Quirk(QUIRK_SETTERS[rng.below(9)], pick_s(rng, &pool));
    }
    match rng.below(15) {
        0 => Op::SetFragment(pick_o(rng, &pool)),
        1 => Op::SetQuery(pick_o(rng, &pool)),
        2 | 3 => Op::SetPath(pick_s(rng, &pool)),
        4 => Op::SetPort(match rng.below(8) {
            0 => None,
            1 => Some(80),
            2 => Some(443),
            3 => Some(21),
            4 => Some(0),
            5 => Some(65535),
            _ => Some(rng.below(65536) as u16),
        }),
        5 | 6 => Op::SetHost(pick_o(rng, &pool)),
        7 => Op::SetIpHost(if rng.chance(1, 2) {
            IpAddr::V4(Ipv4Addr::from(rng.next() as u32))
        } else {
            let mut p = [0u16; 8];
            for x in p.iter_mut() {
                *x = if rng.chance(1, 2) { 0 } else { rng.next() as u16 };
            }
            IpAddr::V6(Ipv6Addr::new(p[0], p[1], p[2], p[3], p[4], p[5], p[6], p[7]))
        }),
        8 => Op::SetPassword(pick_o(rng, &pool)),
        9 => Op::SetUsername(pick_s(rng, &pool)),
        10 => Op::SetScheme(pick_s(rng, &pool)),
        12 => Op::Join(if rng.chance(1, 2) { pick_s(rng, &pool) } else { random_url_string(rng) }),
        11 => {
            let n = rng.below(4);
            Op::Qpm(
                rng.chance(1, 2),
                (0..n)
                    .map(|_| match rng.below(6) {
                        0 => QOp::Clear,
                        1 => QOp::AppendKeyOnly(pick_s(rng, &pool)),
                        2 => QOp::ExtendPairs((0..rng.below(3)).map(|_| (pick_s(rng, &pool), pick_s(rng, &pool))).collect()),
                        _ => QOp::AppendPair(pick_s(rng, &pool), pick_s(rng, &pool)),
                    })
                    .collect(),
            )
        }
        _ => {
            let n = 1 + rng.below(3);
            Op::Psm(
                (0..n)
                    .map(|_| match rng.below(8) {
                        0 => PsmOp::Clear,
                        1 => PsmOp::PopIfEmpty,
                        2 => PsmOp::Pop,
                        3 => PsmOp::Extend((0..rng.below(4)).map(|_| pick_s(rng, &pool)).collect()),
                        _ => PsmOp::Push(pick_s(rng, &pool)),
                    })
                    .collect(),
            )
        }
    }
}

/// every operation kind with every pool argument (used for the exhaustive op x argument stream)
pub fn all_single_ops() -> Vec<Op> {
    let pool = arg_pool();
    let mut v = Vec::new();
    for a in &pool {
        let s = a.to_string();
        v.push(Op::SetFragment(Some(s.clone())));
        v.push(Op::SetQuery(Some(s.clone())));
        v.push(Op::SetPath(s.clone()));
        v.push(Op::SetHost(Some(s.clone())));
        v.push(Op::SetPassword(Some(s.clone())));
        v.push(Op::SetUsername(s.clone()));
        v.push(Op::SetScheme(s.clone()));
        v.push(Op::Join(s.clone()));
        v.push(Op::Psm(vec![PsmOp::Push(s.clone())]));
        for q in QUIRK_SETTERS {
            v.push(Op::Quirk(q, s.clone()));
        }
    }
    for fin in [false, true] {
        v.push(Op::Qpm(fin, vec![]));
        v.push(Op::Qpm(fin, vec![QOp::Clear]));
        v.push(Op::Qpm(fin, vec![QOp::AppendPair("k".into(), "v".into())]));
        v.push(Op::Qpm(fin, vec![QOp::AppendPair("a b&c=d".into(), "\u{e9}+%#".into()), QOp::AppendKeyOnly("key".into())]));
        v.push(Op::Qpm(fin, vec![QOp::Clear, QOp::ExtendPairs(vec![("x".into(), "1".into()), ("".into(), "".into())])]));
    }
    v.push(Op::SetFragment(None));
    v.push(Op::SetQuery(None));
    v.push(Op::SetHost(None));
    v.push(Op::SetPassword(None));
    for p in [None, Some(0u16), Some(9), Some(10), Some(21), Some(80), Some(99), Some(100), Some(443), Some(999), Some(1000), Some(8080), Some(9999), Some(10000), Some(10001), Some(65535)] {
        v.push(Op::SetPort(p));
    }
    v.push(Op::SetIpHost(IpAddr::V4(Ipv4Addr::new(127, 0, 0, 1))));
    v.push(Op::SetIpHost(IpAddr::V6(Ipv6Addr::new(0, 0, 0, 0, 0, 0, 0, 1))));
    v.push(Op::SetIpHost(IpAddr::V6(Ipv6Addr::new(1, 0, 0, 2, 0, 0, 0, 3))));
    for o in [PsmOp::Clear, PsmOp::Pop, PsmOp::PopIfEmpty] {
        v.push(Op::Psm(vec![o]));
    }
    v.push(Op::Psm(vec![PsmOp::Pop, PsmOp::Push("x".into())]));
    v.push(Op::Psm(vec![PsmOp::PopIfEmpty, PsmOp::Push("y".into())]));
    v.push(Op::Psm(vec![PsmOp::Clear, PsmOp::Extend(vec!["a".into(), "..".into(), "b/c".into(), "".into()])]));
    v.push(Op::Psm(vec![PsmOp::Extend(vec![])]));
    v
}

pub fn start_pool() -> Vec<Url> {
    let mut v: Vec<Url> = base_pool().iter().map(|s| Url::parse(s).expect("start")).collect();
    for s in [
        "http://h",
        "http://h?q",
        "http://h#f",
        "http://u@h:81/p/q/?a=b#c",
        "http://:p@h/",
        "a://h?q",
        "a://host//x",
        "a:/x",
        "a:///x",
        "a://h:80/",
        "foo://",
        "file://h/",
        "file:///c:/",
        "a:b c ",
        "http://%41lice:%42%20c@h/p",
        "http://h:10000/p?q#f",
        "ws://h:9/",
        "a:b  #f",
        "a:b  ?q#f",
        "data:text/plain,two words   #old",
        "a:b#f",
        "a:b?q",
        "a:/..//x",
        "ws://h/a/../b",
        "https://example.com:8443/a%20b/c;d=e?x=%41#%7B",
        "file://127.0.0.1/share/f",
        "file://[::1]/x/y",
        "http://[1:0:0:2:0:0:3:4]:81/p?q#f",
        "ws://h:443/p?q#f",
        "http://h:443/p#f",
    ] {
        v.push(Url::parse(s).expect("start2"));
    }
    v
}

pub fn positions_line(u: &Url) -> String {
    use url::Position::*;
    let all = [
        BeforeScheme, AfterScheme, BeforeUsername, AfterUsername, BeforePassword, AfterPassword, BeforeHost, AfterHost, BeforePort,
        AfterPort, BeforePath, AfterPath, BeforeQuery, AfterQuery, BeforeFragment, AfterFragment,
    ];
    let g = |f: &(dyn Fn() -> String + std::panic::RefUnwindSafe)| match std::panic::catch_unwind(f) {
        Ok(s) => s,
        Err(_) => "panic".to_string(),
    };
    let u = std::panic::AssertUnwindSafe(u);
    let mut out = Vec::new();
    for a in all {
        out.push(g(&|| hexs(&u[a..])));
        out.push(g(&|| hexs(&u[..a])));
        for b in all {
            out.push(g(&|| hexs(&u[a..b])));
        }
    }
    out.join(" ")
}

pub fn quirks_get_line(u: &Url) -> String {
    let g = |f: &(dyn Fn() -> String + std::panic::RefUnwindSafe)| match std::panic::catch_unwind(f) {
        Ok(s) => s,
        Err(_) => "panic".to_string(),
    };
    let u = std::panic::AssertUnwindSafe(u);
    use url::quirks as q;
    [
        g(&|| hexs(q::href(&u))),
        g(&|| hexs(q::protocol(&u))),
        g(&|| hexs(q::username(&u))),
        g(&|| hexs(q::password(&u))),
        g(&|| hexs(q::host(&u))),
        g(&|| hexs(q::hostname(&u))),
        g(&|| hexs(q::port(&u))),
        g(&|| hexs(q::pathname(&u))),
        g(&|| hexs(q::search(&u))),
        g(&|| hexs(q::hash(&u))),
    ]
    .join(" ")
}
