// C05 check binary = harness/src/bin/urlhist.rs + a property-directed search phase.
//
// PART 1 (below, up to the marker) is urlhist.rs VERBATIM except that its three `//!` lines are `//`
// and its `main` is renamed `urlhist_main` (unused).  It cannot be `include!`d (inner doc comments)
// and its functions are private to that bin, hence the copy; regenerate it with
//   tools/mk_c05_bin.py   whenever urlhist.rs changes (the script fails if the copy has drifted).
// PART 2 adds `directed_search` and the `main` that calls it in search mode: when the history search
// finds nothing (a mutated percent-encode set changes the regenerated model exactly as it changes the
// implementation, so the two still agree), prop_c05 is evaluated on the implementation alone for
//   (1) every character of a class alphabet placed in every component of parsed URLs
//       (userinfo, path, query, fragment, opaque path; special, file and non-special schemes),
//   (2) every start URL x every single operation x every pool argument (all mutators),
// skipping the known class F-C02-3 (set_path on an opaque path keeps '?' / '#').
// Failing inputs are reported as histories ("hist <start> ;; op"), which the replay mode re-runs.
// ===== PART 1: urlhist.rs =====
// Histories of mutating operations on Url: correspondence model <-> url crate after every step
// (record, status, accessors, Position slices, quirks getters).  Serves C02, C03, C05, C06:
// `--mode corr|search|known|replay  <Cxx>`.
use url::Url;
use verif_harness::urlops::*;
use verif_harness::urlprops::*;
use verif_harness::urlrec::*;
use verif_harness::*;

struct Ctx {
    drv: Driver,
    rep: Report,
    dbg: &'static str,
    prop: String,
    search: bool,
}

fn hist_case(start: &str, ops: &[Op]) -> String {
    let mut s = format!("hist {}", hexs(start));
    for o in ops {
        s.push_str(" ;; ");
        s.push_str(&o.token());
    }
    s
}

/// evaluate the property `prop` on the implementation for one step (before --op--> after)
fn property_on_step(prop: &str, before: &Url, op: &Op, after: &Url, status: &str) -> Option<String> {
    match prop {
        "C02" => prop_c02(after),
        "C03" => prop_c03(after, Some(before)).or_else(|| if prop_c02(after).is_none() { prop_c03_roundtrips(after) } else { None }),
        "C05" => prop_c05(after),
        "C06" => prop_c06(before, op, after, status),
        "C15" => prop_c15_url(before, op, after),
        _ => None,
    }
}
fn property_on_url(prop: &str, u: &Url) -> Option<String> {
    match prop {
        "C02" => prop_c02(u),
        "C03" => prop_c03(u, None).or_else(|| if prop_c02(u).is_none() { prop_c03_roundtrips(u) } else { None }),
        "C05" => prop_c05(u),
        _ => None,
    }
}

impl Ctx {
    /// one step: compare, return the implementation's new url (None after a panic) and whether it differed
    fn step(&mut self, stream: &str, start: &str, prefix: &[Op], u: &Url, op: &Op) -> (Option<Url>, bool) {
        let req = format!("op {} {} {}", self.dbg, url_token(u), op.token());
        let model = self.drv.ask_with(&req, url_oracle);
        let (imp, nu) = impl_op_result(op, u);
        let status = imp.rsplit(' ').next().unwrap_or("").to_string();
        let sig = format!("{}:{}:{}", op.kind(), status, shape(u));
        self.rep.case(stream, &req, &model, &imp, true, &sig);
        let differs = model != imp;
        if self.search && (differs || std::env::var("VERIF_SEARCH_ALL").is_ok()) {
            let mut ops = prefix.to_vec();
            ops.push(op.clone());
            match &nu {
                None => {
                    if self.rep.failures.len() < 20 {
                        self.rep.failures.push((hist_case(start, &ops), format!("panic in {} (the model of the unchanged code does not panic here)", op.kind())));
                    }
                }
                Some(a) => {
                    if let Some(w) = property_on_step(&self.prop, u, op, a, &status) {
                        if self.rep.failures.len() < 20 {
                            self.rep.failures.push((hist_case(start, &ops), w));
                        }
                    }
                }
            }
        }
        (nu, differs)
    }
    fn observe(&mut self, start: &str, ops: &[Op], u: &Url, full: bool) {
        let tok = url_token(u);
        let mut any = false;
        let req = format!("get {} {}", self.dbg, tok);
        let m = self.drv.ask_with(&req, url_oracle);
        let g = getters_line(u);
        any |= m != g;
        self.rep.case("getters", &req, &m, &g, true, "get");
        let req = format!("qget {} {}", self.dbg, tok);
        let m = self.drv.ask_with(&req, url_oracle);
        let g = quirks_get_line(u);
        any |= m != g;
        self.rep.case("quirks-getters", &req, &m, &g, true, "qget");
        if full {
            let req = format!("ranges {} {}", self.dbg, tok);
            let m = self.drv.ask_with(&req, url_oracle);
            let g = positions_line(u);
            any |= m != g;
            self.rep.case("position-ranges", &req, &m, &g, true, "ranges");
        }
        // the structural invariant the C03 theorems assume, evaluated by the model on the reached record
        let w = self.drv.ask_with(&format!("wf {}", tok), url_oracle);
        self.rep.bump(&format!("wf_b:{}", w));
        if w != "1" {
            let last = ops.last().map(|o| o.kind()).unwrap_or_else(|| "parse".into());
            let key = format!("wf_b-false-after:{}:{}", last, shape(u));
            self.rep.bump(&key);
            if self.rep.histogram.get(&key) == Some(&1) && self.rep.notes.len() < 40 {
                self.rep.notes.push(format!("reached record outside wf_b: {} ({})", u.as_str(), hist_case(start, ops)));
            }
        }
        // C03: the views outside the model's record (socket_addrs, Hash/Eq/Ord/Display, serde form) agree with the
        // serialization - evaluated on records the model finds well-formed, against the previously observed URL
        if self.prop == "C03" && w == "1" {
            thread_local! { static LAST: std::cell::RefCell<Option<Url>> = std::cell::RefCell::new(None); }
            let last = LAST.with(|l| l.borrow().clone());
            let v = prop_c03_views(u, last.as_ref()).unwrap_or_else(|| "agree".into());
            any |= v != "agree";
            self.rep.case("views", &format!("views {} {}", tok, last.as_ref().map(|o| url_token(o)).unwrap_or_else(|| "~".into())), "agree", &v, true, if v == "agree" { "views:agree" } else { "views:disagree" });
            LAST.with(|l| *l.borrow_mut() = Some(u.clone()));
        }
        if self.search && any {
            if let Some(wh) = property_on_url(&self.prop, u) {
                if self.rep.failures.len() < 20 {
                    self.rep.failures.push((hist_case(start, ops), wh));
                }
            }
        }
    }
}

fn shape(u: &Url) -> String {
    let g = std::panic::catch_unwind(std::panic::AssertUnwindSafe(|| {
        format!(
            "{}{}{}{}{}{}",
            if u.cannot_be_a_base() { "o" } else if u.scheme() == "file" { "f" } else if u.is_special() { "s" } else { "n" },
            if u.has_authority() { "A" } else { "-" },
            if !u.username().is_empty() || u.password().is_some() { "C" } else { "-" },
            if u.port().is_some() { "P" } else { "-" },
            if u.query().is_some() { "Q" } else { "-" },
            if u.fragment().is_some() { "F" } else { "-" }
        )
    }));
    g.unwrap_or_else(|_| "broken".into())
}

fn run_streams(args: &Args, search: bool) -> Report {
    let dbg = if cfg!(debug_assertions) { "1" } else { "0" };
    let prop = args.extra.first().cloned().unwrap_or_else(|| "C02".into());
    let mut cx = Ctx { drv: Driver::spawn(&args.driver), rep: Report::new(), dbg, prop: prop.clone(), search };
    let thorough = args.tier == "thorough" || search;
    let mut rng = Rng::new(args.seed ^ fnv_str(&prop));
    let starts = start_pool();

    // corpus of histories (minimised past failures): "hist <start> ;; op ;; op"
    if let Ok(txt) = std::fs::read_to_string(format!("{}/{}/cases.txt", args.file, prop)) {
        for l in txt.lines().filter(|l| l.starts_with("hist ")) {
            replay_history(&mut cx, "corpus", l);
        }
    }
    // after a break: the differing requests found by the quick run come first
    if search {
        if let Ok(txt) = std::fs::read_to_string(&args.file) {
            for l in txt.lines().filter(|l| l.starts_with("hist ")) {
                replay_history(&mut cx, "differing", l);
            }
        }
    }

    // C03: every ordered pair of the ordering pool (schemes in prefix relation, components vs serialization order)
    if prop == "C03" {
        let pool = ord_pool();
        for a in &pool {
            for b in &pool {
                let v = prop_c03_views(a, Some(b)).unwrap_or_else(|| "agree".into());
                cx.rep.case("views-ord-pool", &format!("views {} {}", url_token(a), url_token(b)), "agree", &v, true, if v == "agree" { "views:agree" } else { "views:disagree" });
            }
        }
    }
    // exhaustive: every start x every single operation x every pool argument
    let singles = all_single_ops();
    for u in &starts {
        cx.observe(u.as_str(), &[], u, true);
        for op in &singles {
            let (nu, differs) = cx.step("exh-start-x-op-x-arg", u.as_str(), &[], u, op);
            if let Some(nu) = nu {
                if differs || cx.rep.evaluations % 7 == 0 {
                    let full = differs || cx.rep.evaluations % 49 == 0;
                    cx.observe(u.as_str(), std::slice::from_ref(op), &nu, full);
                }
            }
        }
    }
    cx.rep.exhaustive.push(format!(
        "{} start URLs x {} single operations (every operation kind x every pool argument)",
        starts.len(),
        singles.len()
    ));

    // histories
    let n = if thorough { 120_000 } else { 8_000 };
    for _ in 0..n {
        if search && cx.rep.failures.len() >= 20 {
            break;
        }
        let (start, mut u) = if rng.chance(1, 2) {
            let u = starts[rng.below(starts.len())].clone();
            (u.as_str().to_string(), u)
        } else {
            let s = random_url_string(&mut rng);
            match Url::parse(&s) {
                Ok(u) => (s, u),
                Err(_) => {
                    let u = starts[rng.below(starts.len())].clone();
                    (u.as_str().to_string(), u)
                }
            }
        };
        let len = 1 + rng.below(8);
        let mut ops: Vec<Op> = Vec::new();
        for k in 0..len {
            let op = random_op(&mut rng, false);
            let (nu, differs) = cx.step("history", &start, &ops, &u, &op);
            ops.push(op);
            match nu {
                Some(nu) => u = nu,
                None => break,
            }
            if differs || k == len - 1 || rng.chance(1, 4) {
                cx.observe(&start, &ops, &u, differs || rng.chance(1, 6));
            }
        }
    }
    cx.rep.failures.sort_by_key(|(c, _)| c.len());
    cx.rep
}

fn fnv_str(s: &str) -> u64 {
    s.bytes().fold(0xcbf29ce484222325u64, |h, b| (h ^ b as u64).wrapping_mul(0x100000001b3))
}

fn parse_history(line: &str) -> Option<(String, Vec<Op>)> {
    let mut parts = line.split(" ;; ");
    let head = parts.next()?;
    let start = unhexs(head.strip_prefix("hist ")?);
    let ops: Option<Vec<Op>> = parts.map(Op::from_token).collect();
    Some((start, ops?))
}

fn replay_history(cx: &mut Ctx, stream: &str, line: &str) -> Option<Url> {
    let (start, ops) = parse_history(line)?;
    let mut u = Url::parse(&start).ok()?;
    let mut done: Vec<Op> = Vec::new();
    for op in &ops {
        let (nu, _) = cx.step(stream, &start, &done, &u, op);
        done.push(op.clone());
        u = nu?;
        cx.observe(&start, &done, &u, true);
    }
    Some(u)
}

fn run_known(args: &Args) -> Report {
    let mut rep = Report::new();
    let prop = args.extra.first().cloned().unwrap_or_default();
    let g = |f: &(dyn Fn() -> String + std::panic::RefUnwindSafe)| guarded(f);
    if prop == "C03" || prop == "C06" {
        // fixed: set_host(None) left the host kind set
        let r = g(&|| {
            let mut u = Url::parse("file://1.2.3.4/").unwrap();
            let _ = u.set_host(None);
            format!("{} has_host={} host_str={:?}", u, u.has_host(), u.host_str())
        });
        rep.known.push(("F-C06-3".into(), r.contains("has_host=true") || r == "PANIC", r));
    }
    if prop == "C03" {
        let r = g(&|| {
            let u = Url::parse("foo://").unwrap();
            let a = format!("{:?}", &u[url::Position::BeforePassword..]);
            let v = Url::parse("http://user@host/").unwrap();
            format!("{} {:?}", a, &v[url::Position::BeforePassword..url::Position::AfterPassword])
        });
        rep.known.push(("F-C03-1".into(), r == "PANIC" || r.contains('@'), r));
        let r = g(&|| {
            let u = Url::parse("a://h").unwrap();
            format!("cannot_be_a_base={} path_segments_is_none={}", u.cannot_be_a_base(), u.path_segments().is_none())
        });
        rep.known.push(("F-C03-4".into(), r == "cannot_be_a_base=false path_segments_is_none=true", r));
    }
    // open findings shared by C02/C03/C05/C06: each is replayed for every property it is listed under
    let wit = |rep: &mut Report, id: &str, props: &[&str], start: &str, op: Op, bad: &(dyn Fn(&Url) -> bool + std::panic::RefUnwindSafe)| {
        if !props.contains(&prop.as_str()) {
            return;
        }
        let start_s = start.to_string();
        let opc = op.clone();
        let r = std::panic::catch_unwind(std::panic::AssertUnwindSafe(|| {
            let mut u = Url::parse(&start_s).unwrap();
            let _ = opc.apply(&mut u);
            u
        }));
        match r {
            Ok(u) => rep.known.push((id.to_string(), bad(&u), format!("{} -> {} -> {}", start, op.kind(), u.as_str()))),
            Err(_) => rep.known.push((id.to_string(), true, format!("{} -> {} -> panic", start, op.kind()))),
        }
    };
    wit(&mut rep, "F-C03-5", &["C02", "C03", "C06"], "non-spec:/.//double",
        Op::SetIpHost(std::net::IpAddr::V4(std::net::Ipv4Addr::new(127, 0, 0, 1))),
        &|u| u.as_str() == "non-spec://127.0.0.1/.//double" && u.path() == "//double");
    wit(&mut rep, "F-C02-3", &["C02", "C03", "C05", "C06"], "about:blank", Op::SetPath("#f".into()),
        &|u| u.as_str() == "about:#f" && u.fragment().is_none());
    wit(&mut rep, "F-C02-2", &["C02", "C03", "C06"], "a://host//x", Op::SetHost(None), &|u| u.as_str() == "a://x");
    wit(&mut rep, "F-C02-8", &["C02", "C03", "C06"], "a:/p", Op::SetPath("//x".into()), &|u| u.as_str() == "a://x");
    // fixed (0cfc9d8): set_path on a cannot-be-a-base URL tested for the leading '/' before tab/LF/CR removal
    wit(&mut rep, "F-C06-6", &["C02", "C03", "C05", "C06"], "a:b", Op::SetPath("\t/ y".into()),
        &|u| !u.cannot_be_a_base() || u.as_str() == "a:/ y");
    // fixed (9cd6187): push(".<TAB>.") was not skipped by extend() (only the literal "." / ".." were), the parser's input
    // dropped the TAB and the path state read "..": the last segment was popped
    wit(&mut rep, "F-C06-7", &["C06"], "http://h/a/b", Op::Psm(vec![PsmOp::Push(".\t.".into())]),
        &|u| u.as_str() == "http://h/a/");
    rep
}

fn run_replay(args: &Args) -> Report {
    let dbg = if cfg!(debug_assertions) { "1" } else { "0" };
    let prop = args.extra.first().cloned().unwrap_or_else(|| "C02".into());
    let req = replay_request(&args.file);
    let mut cx = Ctx { drv: Driver::spawn(&args.driver), rep: Report::new(), dbg, prop: prop.clone(), search: false };
    if req.is_empty() {
        cx.rep.notes.push("replay file has no request (no-failing-input-found replay): nothing to re-run".into());
        return cx.rep;
    }
    if let Some((start, ops)) = parse_history(&req) {
        cx.rep.notes.push(format!("start: {:?}", start));
        if let Ok(mut u) = Url::parse(&start) {
            if ops.is_empty() {
                if let Some(w) = property_on_url(&prop, &u) {
                    cx.rep.failures.push((req.clone(), w));
                }
            }
            for (i, op) in ops.iter().enumerate() {
                let before = u.clone();
                let mreq = format!("op {} {} {}", dbg, url_token(&u), op.token());
                let model = cx.drv.ask_with(&mreq, url_oracle);
                let (imp, nu) = impl_op_result(op, &u);
                cx.rep.notes.push(format!("step {} {}: implementation {} | model {}", i + 1, op.token(), imp, model));
                match nu {
                    None => {
                        cx.rep.failures.push((req.clone(), format!("panic in {}", op.kind())));
                        break;
                    }
                    Some(a) => {
                        let status = imp.rsplit(' ').next().unwrap_or("").to_string();
                        if i + 1 == ops.len() {
                            if let Some(w) = property_on_step(&prop, &before, op, &a, &status) {
                                cx.rep.failures.push((req.clone(), w));
                            }
                        }
                        u = a;
                    }
                }
            }
            cx.rep.notes.push(format!("final: {:?}", u.as_str()));
        }
    }
    cx.rep.evaluations = 1;
    cx.rep
}

#[allow(dead_code)]
fn urlhist_main() {
    quiet_panics();
    let args = parse_args();
    let rep = match args.mode.as_str() {
        "corr" => run_streams(&args, false),
        "search" => run_streams(&args, true),
        "known" => run_known(&args),
        "replay" => run_replay(&args),
        m => panic!("unknown mode {}", m),
    };
    finish(&args, &rep);
}

// ===== PART 2: C05 directed search =====


fn char_alphabet() -> Vec<char> {
    let mut v: Vec<char> = (0u8..=0x7f).map(|b| b as char).collect();
    v.extend(['\u{80}', '\u{e9}', '\u{5d0}', '\u{2028}', '\u{fffd}', '\u{1f600}']);
    v
}

fn known_c02_3(before: &Url, op: &Op, what: &str) -> bool {
    matches!(op, Op::SetPath(_)) && before.cannot_be_a_base() && what.starts_with("opaque path contains")
}

fn directed_search(rep: &mut Report) {
    // (1) parser: one character in one component
    let templates: [(&str, &str); 14] = [
        ("http://u", "@h/p"),
        ("http://u:p", "@h/p"),
        ("http://h/p", "x"),
        ("http://h/?q", "x"),
        ("http://h/#f", "x"),
        ("file:///p", "x"),
        ("file:///?q", "x"),
        ("a://u", ":w@h/p"),
        ("a://u:p", "@h/p"),
        ("a://h/p", "x"),
        ("a://h/?q", "x"),
        ("a://h/#f", "x"),
        ("a:o", "x"),
        ("a:o?q", "x#f"),
    ];
    for (pre, post) in templates.iter() {
        for c in char_alphabet() {
            let s = format!("{}{}{}", pre, c, post);
            rep.evaluations += 1;
            if let Ok(u) = Url::parse(&s) {
                if let Some(w) = prop_c05(&u) {
                    if rep.failures.len() < 20 {
                        rep.failures.push((format!("hist {}", hexs(&s)), w));
                    }
                }
            }
        }
    }
    // (2) every mutator with every pool argument on every start URL
    let starts = start_pool();
    let singles = all_single_ops();
    for u in &starts {
        for op in &singles {
            rep.evaluations += 1;
            let (imp, nu) = impl_op_result(op, u);
            if let Some(a) = nu {
                let status = imp.rsplit(' ').next().unwrap_or("").to_string();
                if let Some(w) = property_on_step("C05", u, op, &a, &status) {
                    if !known_c02_3(u, op, &w) && rep.failures.len() < 20 {
                        rep.failures.push((hist_case(u.as_str(), std::slice::from_ref(op)), w));
                    }
                }
            }
        }
    }
    rep.exhaustive.push(format!(
        "directed: {} templates x {} characters parsed; {} start URLs x {} single operations, property evaluated on the implementation",
        templates.len(), char_alphabet().len(), starts.len(), singles.len()));
    rep.failures.sort_by_key(|(c, _)| c.len());
}

/// HostOK sampling (corr mode): the whole-history alphabet theorems of C05 are relative to `HostOK` - the text
/// that the host parser hands to the serialization is printable ASCII, and for special schemes lower-case and
/// free of forbidden host code points.  The host functions are answered by the real crate in the
/// correspondence, so model and implementation cannot disagree about them; this stream evaluates the premise
/// itself on the implementation for a structured host pool (every ASCII value raw, percent-encoded and as its
/// fullwidth compatibility form, alone, next to a non-ASCII letter on either side, and inside an xn-- label)
/// through the parser and through set_host.  A premise violation is reported as a differing request
/// ("hist <url>"), so that the search phase replays it and reports the failing URL.
fn hostok_stream(rep: &mut Report) {
    let hosts = host_premise_pool();
    let file = Url::parse("file:///p").unwrap();
    let http = Url::parse("http://h/p").unwrap();
    let mut n = 0u64;
    for h in &hosts {
        for pre in ["http://", "ws://u@", "file://"] {
            let s = format!("{}{}/p", pre, h);
            n += 1;
            if let Ok(u) = Url::parse(&s) {
                let imp = prop_c05(&u).unwrap_or_else(|| "HostOK".into());
                rep.case("hostok", &format!("hist {}", hexs(&s)), "HostOK", &imp, true, if imp == "HostOK" { "hostok:ok" } else { "hostok:violated" });
            }
        }
        for start in [&file, &http] {
            let mut u = start.clone();
            n += 1;
            if u.set_host(Some(h)).is_ok() {
                let imp = prop_c05(&u).unwrap_or_else(|| "HostOK".into());
                let op = Op::SetHost(Some(h.clone()));
                rep.case("hostok", &hist_case(start.as_str(), std::slice::from_ref(&op)), "HostOK", &imp, true, if imp == "HostOK" { "hostok:ok" } else { "hostok:violated" });
            }
        }
    }
    rep.exhaustive.push(format!("hostok: {} hosts ({} parse / set_host attempts): HostOK premise evaluated on the implementation", hosts.len(), n));
}

fn main() {
    quiet_panics();
    let args = parse_args();
    let rep = match args.mode.as_str() {
        "corr" => {
            let mut rep = run_streams(&args, false);
            if args.extra.first().map(|s| s.as_str()) == Some("C05") {
                hostok_stream(&mut rep);
            }
            rep
        }
        "search" => {
            let mut rep = run_streams(&args, true);
            if rep.failures.is_empty() {
                directed_search(&mut rep);
            }
            rep
        }
        "known" => run_known(&args),
        "replay" => run_replay(&args),
        m => panic!("unknown mode {}", m),
    };
    finish(&args, &rep);
}
