//! Histories of mutating operations on Url: correspondence model <-> url crate after every step
//! (record, status, accessors, Position slices, quirks getters).  Shared by C02/C03/C05/C06/C07.
use url::Url;
use verif_harness::urlops::*;
use verif_harness::urlrec::*;
use verif_harness::*;

struct Ctx {
    drv: Driver,
    rep: Report,
    dbg: &'static str,
}

impl Ctx {
    /// one step: compare, return the implementation's new url (None after a panic)
    fn step(&mut self, stream: &str, u: &Url, op: &Op) -> Option<Url> {
        let req = format!("op {} {} {}", self.dbg, url_token(u), op.token());
        let model = self.drv.ask_with(&req, url_oracle);
        let (imp, nu) = impl_op_result(op, u);
        let status = imp.rsplit(' ').next().unwrap_or("").to_string();
        let sig = format!("{}:{}:{}", op.kind(), status, shape(u));
        self.rep.case(stream, &req, &model, &imp, true, &sig);
        nu
    }
    fn observe(&mut self, u: &Url, full: bool) {
        let tok = url_token(u);
        let req = format!("get {} {}", self.dbg, tok);
        let m = self.drv.ask_with(&req, url_oracle);
        self.rep.case("getters", &req, &m, &getters_line(u), true, "get");
        let req = format!("qget {} {}", self.dbg, tok);
        let m = self.drv.ask_with(&req, url_oracle);
        self.rep.case("quirks-getters", &req, &m, &quirks_get_line(u), true, "qget");
        if full {
            let req = format!("ranges {} {}", self.dbg, tok);
            let m = self.drv.ask_with(&req, url_oracle);
            self.rep.case("position-ranges", &req, &m, &positions_line(u), true, "ranges");
        }
    }
}

fn shape(u: &Url) -> String {
    format!(
        "{}{}{}{}{}{}",
        if u.cannot_be_a_base() { "o" } else if u.scheme() == "file" { "f" } else if u.is_special() { "s" } else { "n" },
        if u.has_authority() { "A" } else { "-" },
        if !u.username().is_empty() || u.password().is_some() { "C" } else { "-" },
        if u.port().is_some() { "P" } else { "-" },
        if u.query().is_some() { "Q" } else { "-" },
        if u.fragment().is_some() { "F" } else { "-" }
    )
}

fn run_corr(args: &Args) -> Report {
    let dbg = if cfg!(debug_assertions) { "1" } else { "0" };
    let mut cx = Ctx { drv: Driver::spawn(&args.driver), rep: Report::new(), dbg };
    let thorough = args.tier == "thorough";
    let quirks_only = args.extra.iter().any(|e| e == "quirks");
    let mut rng = Rng::new(args.seed);
    let starts = start_pool();

    // exhaustive: every start x every single operation x every pool argument
    let singles = all_single_ops();
    for u in &starts {
        cx.observe(u, true);
        for op in &singles {
            if quirks_only && !matches!(op, Op::Quirk(..)) {
                continue;
            }
            if let Some(nu) = cx.step("exh-start-x-op-x-arg", u, op) {
                if cx.rep.evaluations % 7 == 0 {
                    cx.observe(&nu, cx.rep.evaluations % 49 == 0);
                }
            }
        }
    }
    cx.rep.exhaustive.push(format!("{} start URLs x {} single operations (every operation kind x every pool argument)", starts.len(), singles.len()));

    // histories
    let n = if thorough { 120_000 } else { 8_000 };
    for _ in 0..n {
        let mut u = if rng.chance(1, 2) {
            starts[rng.below(starts.len())].clone()
        } else {
            let s = random_url_string(&mut rng);
            match Url::parse(&s) {
                Ok(u) => u,
                Err(_) => starts[rng.below(starts.len())].clone(),
            }
        };
        let len = 1 + rng.below(8);
        for k in 0..len {
            let op = random_op(&mut rng, quirks_only);
            match cx.step("history", &u, &op) {
                Some(nu) => u = nu,
                None => break,
            }
            if k == len - 1 || rng.chance(1, 4) {
                cx.observe(&u, rng.chance(1, 6));
            }
        }
    }
    cx.rep
}

fn main() {
    quiet_panics();
    let args = parse_args();
    let rep = match args.mode.as_str() {
        "corr" => run_corr(&args),
        m => panic!("unknown mode {}", m),
    };
    finish(&args, &rep);
}
