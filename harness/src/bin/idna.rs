//! Correspondence harness for C10, C11, C12 (UTS #46 processing: idna/src/uts46.rs + wrappers).
//! The first extra argument (C10 | C11 | C12) selects the property evaluated in `search` / `known`.
use idna::uts46::{AsciiDenyList, DnsLength, ErrorPolicy, Hyphens, ProcessingError, ProcessingSuccess, Uts46};
use std::borrow::Cow;
use std::fmt::Write as _;
use verif_harness::*;

const CFG: &str = if cfg!(debug_assertions) { "1" } else { "0" };
const CUSTOM: &str = "C:1:5f";

// ---------------------------------------------------------------- oracle: the real idna_adapter
fn chars_of(arg: &str) -> Vec<char> {
    unhexl(arg).into_iter().map(|x| char::from_u32(x).unwrap_or('\u{FFFD}')).collect()
}
fn oracle(name: &str, arg: &str) -> String {
    let ad = idna_adapter::Adapter::new();
    match name {
        "mapnorm" => hexl(ad.map_normalize(chars_of(arg).into_iter()).map(|c| c as u32)),
        "normval" => hexl(ad.normalize_validate(chars_of(arg).into_iter()).map(|c| c as u32)),
        "bc" => {
            let c = chars_of(arg)[0];
            let bc = ad.bidi_class(c);
            let m = bc.to_mask();
            let bits = [
                m.intersects(idna_adapter::FIRST_BC_MASK),
                bc.is_ltr(),
                bc.is_nonspacing_mark(),
                m.intersects(idna_adapter::LAST_LTR_MASK),
                m.intersects(idna_adapter::LAST_RTL_MASK),
                m.intersects(idna_adapter::MIDDLE_LTR_MASK),
                m.intersects(idna_adapter::MIDDLE_RTL_MASK),
                bc.is_european_number(),
                bc.is_arabic_number(),
                m.intersects(idna_adapter::RTL_MASK),
            ];
            let mut v = 0u32;
            for (i, b) in bits.iter().enumerate() {
                if *b {
                    v |= 1 << i;
                }
            }
            format!("{:x}", v)
        }
        "jt" => {
            let c = chars_of(arg)[0];
            let jt = ad.joining_type(c);
            let m = jt.to_mask();
            let mut v = 0u32;
            if m.intersects(idna_adapter::LEFT_OR_DUAL_JOINING_MASK) {
                v |= 1;
            }
            if m.intersects(idna_adapter::RIGHT_OR_DUAL_JOINING_MASK) {
                v |= 2;
            }
            if jt.is_transparent() {
                v |= 4;
            }
            format!("{:x}", v)
        }
        "mark" => (ad.is_mark(chars_of(arg)[0]) as u8).to_string(),
        "virama" => (ad.is_virama(chars_of(arg)[0]) as u8).to_string(),
        _ => "~".to_string(),
    }
}

// ---------------------------------------------------------------- option codecs
fn deny_of(s: &str) -> AsciiDenyList {
    match s {
        "E" => AsciiDenyList::EMPTY,
        "S" => AsciiDenyList::STD3,
        "U" => AsciiDenyList::URL,
        _ => {
            let p: Vec<&str> = s.split(':').collect();
            let bytes = unhexb(p[2]);
            let st = String::from_utf8_lossy(&bytes).into_owned();
            AsciiDenyList::new(p[1] == "1", &st)
        }
    }
}
fn hy_of(s: &str) -> Hyphens {
    match s {
        "a" => Hyphens::Allow,
        "f" => Hyphens::CheckFirstLast,
        _ => Hyphens::Check,
    }
}
fn dns_of(s: &str) -> DnsLength {
    match s {
        "i" => DnsLength::Ignore,
        "r" => DnsLength::VerifyAllowRootDot,
        _ => DnsLength::Verify,
    }
}
fn policy(p: &str) -> impl FnMut(&[char], &[char], bool) -> bool {
    let p = p.to_string();
    move |label: &[char], tld: &[char], bidi: bool| match p.as_str() {
        "0" => false,
        "1" => true,
        "2" => label.len() % 2 == 0,
        _ => (label.len() + tld.len() + bidi as usize) % 2 == 0,
    }
}

/// a fmt::Write that fails at its k-th call
struct CountSink {
    buf: String,
    calls: usize,
    fail_at: Option<usize>,
}
impl CountSink {
    fn new(fail_at: Option<usize>) -> Self {
        CountSink { buf: String::new(), calls: 0, fail_at }
    }
    fn tick(&mut self) -> std::fmt::Result {
        let n = self.calls;
        self.calls += 1;
        if Some(n) == self.fail_at {
            Err(std::fmt::Error)
        } else {
            Ok(())
        }
    }
}
impl std::fmt::Write for CountSink {
    fn write_str(&mut self, s: &str) -> std::fmt::Result {
        self.tick()?;
        self.buf.push_str(s);
        Ok(())
    }
    fn write_char(&mut self, c: char) -> std::fmt::Result {
        self.tick()?;
        self.buf.push(c);
        Ok(())
    }
}

// ---------------------------------------------------------------- the implementation side
fn show_ta(r: Result<Cow<'_, str>, idna::Errors>) -> String {
    match r {
        Ok(c) => format!("ok:{}:{}", matches!(c, Cow::Borrowed(_)) as u8, hexs(&c)),
        Err(_) => "err".into(),
    }
}
fn show_str(r: Result<String, idna::Errors>) -> String {
    match r {
        Ok(c) => format!("ok:{}", hexs(&c)),
        Err(_) => "err".into(),
    }
}
fn show_ui(r: (Cow<'_, str>, Result<(), idna::Errors>)) -> String {
    format!("{}:{}:{}", matches!(r.0, Cow::Borrowed(_)) as u8, hexs(&r.0), r.1.is_err() as u8)
}
fn ta(d: &str, h: &str, n: &str, b: &[u8]) -> String {
    let (d, h, n, b) = (d.to_string(), h.to_string(), n.to_string(), b.to_vec());
    guarded(move || show_ta(Uts46::new().to_ascii(&b, deny_of(&d), hy_of(&h), dns_of(&n))))
}
fn ui(d: &str, h: &str, p: &str, b: &[u8]) -> String {
    let (d, h, p, b) = (d.to_string(), h.to_string(), p.to_string(), b.to_vec());
    guarded(move || {
        if p == "1" {
            // to_unicode is to_user_interface with the constant-true policy; call the entry point itself
            show_ui(Uts46::new().to_unicode(&b, deny_of(&d), hy_of(&h)))
        } else {
            show_ui(Uts46::new().to_user_interface(&b, deny_of(&d), hy_of(&h), policy(&p)))
        }
    })
}
fn k_of(s: &str) -> Option<usize> {
    if s == "~" {
        None
    } else {
        s.parse().ok()
    }
}
#[allow(clippy::too_many_arguments)]
fn procr(d: &str, h: &str, ff: &str, p: &str, k1: &str, k2: &str, asink: &str, b: &[u8]) -> String {
    let (d, h, ff, p, k1, k2, asink, b) =
        (d.to_string(), h.to_string(), ff == "1", p.to_string(), k_of(k1), k_of(k2), asink == "1", b.to_vec());
    guarded(move || {
        let mut s1 = CountSink::new(k1);
        let mut s2 = CountSink::new(k2);
        let pol = if ff { ErrorPolicy::FailFast } else { ErrorPolicy::MarkErrors };
        let r = Uts46::new().process(&b, deny_of(&d), hy_of(&h), pol, policy(&p), &mut s1, if asink { Some(&mut s2) } else { None });
        let st = match r {
            Ok(ProcessingSuccess::Passthrough) => "pass",
            Ok(ProcessingSuccess::WroteToSink) => "wrote",
            Err(ProcessingError::ValidityError) => "invalid",
            Err(ProcessingError::SinkError) => "sinkerr",
        };
        format!("{}:{}:{}", st, hexs(&s1.buf), hexs(&s2.buf))
    })
}
fn vdl(al: bool, b: &[u8]) -> String {
    let b = b.to_vec();
    guarded(move || match std::str::from_utf8(&b) {
        Ok(s) => (idna::uts46::verify_dns_length(s, al) as u8).to_string(),
        Err(_) => "?".into(),
    })
}
fn wrap_results(b: &[u8]) -> Vec<String> {
    let s = String::from_utf8(b.to_vec()).expect("wrap: valid UTF-8 only");
    let mut out = Vec::new();
    for d in ["E", "S", "U"] {
        let bb = b.to_vec();
        out.push(guarded(move || show_ta(idna::domain_to_ascii_cow(&bb, deny_of(d)))));
    }
    let s1 = s.clone();
    out.push(guarded(move || show_str(idna::domain_to_ascii(&s1))));
    let s2 = s.clone();
    out.push(guarded(move || show_str(idna::domain_to_ascii_strict(&s2))));
    out.push(guarded(move || {
        let (t, r) = idna::domain_to_unicode(&s);
        format!("0:{}:{}", hexs(&t), r.is_err() as u8)
    }));
    out
}
#[allow(deprecated)]
fn config_of(f: &str) -> idna::Config {
    let bit = |i: usize| f.as_bytes().get(i) == Some(&b'1');
    idna::Config::default()
        .use_std3_ascii_rules(bit(0))
        .transitional_processing(bit(1))
        .verify_dns_length(bit(2))
        .check_hyphens(bit(3))
}
#[allow(deprecated)]
fn dep_results(f: &str, out0: &[u8], b: &[u8]) -> Vec<String> {
    let s = String::from_utf8(b.to_vec()).expect("dep: valid UTF-8 only");
    let o = String::from_utf8(out0.to_vec()).expect("dep: valid UTF-8 only");
    let (f1, s1, o1) = (f.to_string(), s.clone(), o.clone());
    let a = guarded(move || {
        let mut out = o1;
        if out.is_empty() {
            // Config::to_ascii is Idna::to_ascii on an empty String
            return show_str(config_of(&f1).to_ascii(&s1));
        }
        match idna::Idna::new(config_of(&f1)).to_ascii(&s1, &mut out) {
            Ok(()) => format!("ok:{}", hexs(&out)),
            Err(_) => "err".into(),
        }
    });
    let f2 = f.to_string();
    let u = guarded(move || {
        let mut out = o;
        if out.is_empty() {
            let (t, r) = config_of(&f2).to_unicode(&s);
            return format!("{}:{}", hexs(&t), r.is_err() as u8);
        }
        let r = idna::Idna::new(config_of(&f2)).to_unicode(&s, &mut out);
        format!("{}:{}", hexs(&out), r.is_err() as u8)
    });
    vec![a, u]
}
fn all_flags() -> Vec<String> {
    let mut v = Vec::new();
    for x in 0..16 {
        v.push(format!("{}{}{}{}", (x >> 3) & 1, (x >> 2) & 1, (x >> 1) & 1, x & 1));
    }
    v
}
const DENIES: [&str; 4] = ["E", "S", "U", CUSTOM];
const HYS: [&str; 3] = ["a", "f", "c"];
const DNSS: [&str; 3] = ["i", "r", "v"];

fn full_results(b: &[u8]) -> String {
    let mut r: Vec<String> = Vec::new();
    for d in DENIES {
        for h in HYS {
            for n in DNSS {
                r.push(ta(d, h, n, b));
            }
        }
    }
    for d in DENIES {
        for h in HYS {
            r.push(ui(d, h, "1", b));
        }
    }
    for p in ["0", "2", "3"] {
        for d in ["E", "U"] {
            for h in ["a", "c"] {
                r.push(ui(d, h, p, b));
            }
        }
    }
    for p in ["1", "2", "3"] {
        r.push(procr("U", "a", "0", p, "~", "~", "1", b));
    }
    r.push(procr("U", "a", "1", "0", "~", "~", "1", b));
    r.push(procr("E", "f", "1", "2", "~", "~", "0", b));
    if b.is_ascii() {
        r.push(vdl(true, b));
        r.push(vdl(false, b));
    }
    if std::str::from_utf8(b).is_ok() {
        r.extend(wrap_results(b));
        for f in all_flags() {
            r.extend(dep_results(&f, &[], b));
        }
    }
    r.join(" ")
}

fn impl_request(req: &str) -> String {
    let w: Vec<&str> = req.split(' ').collect();
    match w[0] {
        "ta" => ta(w[2], w[3], w[4], &unhexb(w[5])),
        "ui" => ui(w[2], w[3], w[4], &unhexb(w[5])),
        "proc" => procr(w[2], w[3], w[4], w[5], w[6], w[7], w[8], &unhexb(w[9])),
        "vdl" => vdl(w[2] == "1", &unhexb(w[3])),
        "wrap" => wrap_results(&unhexb(w[2])).join(" "),
        "dep" => dep_results(w[2], &unhexb(w[3]), &unhexb(w[4])).join(" "),
        "dnew" => {
            let (g, l) = (w[1] == "1", unhexb(w[2]));
            guarded(move || {
                let s = String::from_utf8_lossy(&l).into_owned();
                let _ = AsciiDenyList::new(g, &s);
                "ok".into()
            })
        }
        "full" => full_results(&unhexb(w[2])),
        "known11" => (known11(&unhexb(w[4]), w[2], w[3]) as u8).to_string(),
        "known12" => (known12(&unhexb(w[4]), w[2], w[3]) as u8).to_string(),
        _ => "?".into(),
    }
}

// ---------------------------------------------------------------- comparison
fn bucket(n: usize) -> &'static str {
    match n {
        0 => "0",
        1..=3 => "1-3",
        4..=15 => "4-15",
        16..=63 => "16-63",
        64..=255 => "64-255",
        _ => "256+",
    }
}
fn signature(req: &str, out: &str) -> (bool, String) {
    let w: Vec<&str> = req.split(' ').collect();
    let input = unhexb(w.last().copied().unwrap_or("-"));
    let nontrivial = !input.is_empty();
    // coarse outcome class: request kind, input shape, how many of the results are ok / err / panic
    let mut ok = 0;
    let mut err = 0;
    let mut pan = 0;
    let mut borrowed = 0;
    for r in out.split(' ') {
        if r == "PANIC" {
            pan += 1
        } else if r == "err" || r.ends_with(":1") || r.starts_with("invalid") {
            err += 1
        } else {
            ok += 1
        }
        if r.starts_with("ok:1:") || r.starts_with("1:") || r.starts_with("pass") {
            borrowed += 1
        }
    }
    let shape = format!(
        "{}{}{}{}{}",
        if input.is_ascii() { "A" } else { "U" },
        if std::str::from_utf8(&input).is_ok() { "" } else { "!" },
        if input.windows(4).any(|x| x.eq_ignore_ascii_case(b"xn--")) { "x" } else { "" },
        if input.contains(&b'.') { "." } else { "" },
        if input.iter().any(|b| b.is_ascii_uppercase()) { "^" } else { "" }
    );
    let q = |n: usize| if n == 0 { 0 } else if n * 3 < ok + err + pan { 1 } else if n * 3 < 2 * (ok + err + pan) { 2 } else { 3 };
    (nontrivial, format!("{}|{}|{}|o{}e{}p{}b{}", w[0], shape, bucket(input.len()), q(ok), q(err), q(pan), q(borrowed)))
}
fn compare(drv: &mut Driver, rep: &mut Report, stream: &str, req: &str) {
    let model = drv.ask_with(req, oracle);
    let imp = impl_request(req);
    let (nt, sig) = signature(req, &imp);
    rep.case(stream, req, &model, &imp, nt, &sig);
}
fn full_req(b: &[u8]) -> String {
    format!("full {} {}", CFG, hexb(b))
}

// ---------------------------------------------------------------- generators
fn enc(s: &str) -> Vec<u8> {
    s.as_bytes().to_vec()
}
/// the class alphabet of the exhaustive stream
fn alphabet() -> Vec<Vec<u8>> {
    vec![
        enc("a"), enc("A"), enc("-"), enc("."), enc("x"), enc("n"), enc("0"),
        enc("\u{DF}"), enc("\u{E9}"), enc("\u{200D}"), enc("\u{94D}"), enc("\u{5D0}"), enc("\u{661}"),
        enc("\u{3002}"), enc("\u{AD}"), enc("\u{FFFD}"), vec![0xFF],
    ]
}
fn unescape(input: &str) -> Option<String> {
    let mut out = String::new();
    let mut it = input.chars();
    while let Some(c) = it.next() {
        if c == '\\' {
            match it.next()? {
                '\\' => out.push('\\'),
                'u' => {
                    let mut v = 0u32;
                    for _ in 0..4 {
                        v = v * 16 + it.next()?.to_digit(16)?;
                    }
                    match char::from_u32(v) {
                        Some(c) => out.push(c),
                        None => write!(&mut out, "\\u{:04X}", v).ok()?,
                    }
                }
                _ => return None,
            }
        } else {
            out.push(c);
        }
    }
    Some(out)
}
fn idna_test_sources(repo: &str) -> Vec<String> {
    let mut v = Vec::new();
    if let Ok(txt) = std::fs::read_to_string(format!("{}/idna/tests/IdnaTestV2.txt", repo)) {
        for line in txt.lines() {
            if line.is_empty() || line.starts_with('#') {
                continue;
            }
            let line = line.split('#').next().unwrap_or("");
            if let Some(src) = line.split(';').next() {
                if let Some(s) = unescape(src.trim()) {
                    v.push(s);
                }
            }
        }
    }
    v
}
fn puny(label: &str) -> String {
    let cs: Vec<char> = label.chars().collect();
    match idna::punycode::encode(&cs) {
        Some(p) => format!("xn--{}", p),
        None => "xn--".into(),
    }
}
const MAPPED: [&str; 6] = ["\u{C0}", "\u{FF21}", "\u{2160}", "\u{1E9E}", "\u{33A7}", "\u{212B}"];
const IGNORED: [&str; 3] = ["\u{AD}", "\u{200B}", "\u{FE0F}"];
const DISALLOWED: [&str; 5] = ["\u{378}", "\u{E000}", "\u{2FF0}", "\u{200F}", "\u{80}"];
const DEVIATION: [&str; 4] = ["\u{DF}", "\u{3C2}", "\u{200C}", "\u{200D}"];
const MARKS: [&str; 4] = ["\u{301}", "\u{903}", "\u{20DD}", "\u{5B0}"];
const RTL: [&str; 6] = ["\u{5D0}", "\u{5D1}", "\u{627}", "\u{628}", "\u{7C0}", "\u{10800}"];
const PLAIN: [&str; 8] = ["\u{E9}", "\u{FC}", "\u{4E2D}", "\u{3042}", "\u{1F600}", "\u{10400}", "\u{915}", "\u{AC00}"];

fn label_atom(rng: &mut Rng) -> String {
    let ldh = |rng: &mut Rng, lo: usize, span: usize| -> String {
        let n = lo + rng.below(span);
        (0..n).map(|_| *rng.pick(b"abcxnz019-") as char).collect()
    };
    match rng.below(24) {
        0 | 1 => ldh(rng, 1, 6),
        2 => ldh(rng, 1, 4).to_uppercase(),
        3 => {
            let mut s = ldh(rng, 1, 4);
            s.push(*rng.pick(b"ABXN") as char);
            s.push_str(&ldh(rng, 0, 3));
            s
        }
        4 => {
            // valid punycode of a plain or RTL label
            let mut l = String::new();
            for _ in 0..1 + rng.below(3) {
                l.push_str(if rng.chance(1, 4) { *rng.pick(&RTL) } else { *rng.pick(&PLAIN) });
            }
            if rng.chance(1, 2) {
                l.push_str(&ldh(rng, 0, 3));
            }
            let p = puny(&l);
            if rng.chance(1, 4) {
                p.to_uppercase()
            } else if rng.chance(1, 4) {
                let mut b: Vec<char> = p.chars().collect();
                let i = rng.below(b.len());
                b[i] = b[i].to_ascii_uppercase();
                b.into_iter().collect()
            } else {
                p
            }
        }
        5 => format!("xn--{}", ldh(rng, 0, 6)),
        6 => {
            // punycode of something that is not in mapped form / has an invalid code point
            let src = [*rng.pick(&MAPPED), *rng.pick(&DISALLOWED), *rng.pick(&IGNORED), "A\u{E9}", "xn--\u{2EF}\u{2EF}ss", "a.b\u{E9}", "\u{301}a"];
            { let pk: &str = src[rng.below(src.len())]; puny(pk) }
        }
        7 => format!("{}{}", ldh(rng, 0, 3), rng.pick(&MAPPED)),
        8 => format!("{}{}{}", ldh(rng, 0, 3), rng.pick(&IGNORED), ldh(rng, 0, 2)),
        9 => format!("{}{}", ldh(rng, 0, 3), rng.pick(&DISALLOWED)),
        10 => format!("{}{}{}", ldh(rng, 0, 3), rng.pick(&DEVIATION), ldh(rng, 0, 2)),
        11 => format!("{}{}", rng.pick(&MARKS), ldh(rng, 0, 3)),
        12 => format!("{}\u{94D}{}{}", rng.pick(&["\u{915}", "a", ""]), rng.pick(&["\u{200D}", "\u{200C}"]), rng.pick(&["\u{937}", "", "b"])),
        13 => format!("{}\u{200C}{}", rng.pick(&["\u{628}", "\u{644}", "a", "\u{628}\u{64B}"]), rng.pick(&["\u{628}", "\u{627}", "b", "\u{64B}\u{628}"])),
        14 => {
            let mut s = String::new();
            for _ in 0..1 + rng.below(4) {
                s.push_str(match rng.below(6) {
                    0 => "1",
                    1 => "\u{661}",
                    2 => "a",
                    3 => "\u{301}",
                    _ => *rng.pick(&RTL),
                });
            }
            s
        }
        15 => format!("{}{}", rng.pick(&["1", "a1", "1a", "a", "_", "a-"]), if rng.chance(1, 3) { *rng.pick(&RTL) } else { "" }),
        16 => format!("{}{}", rng.pick(&PLAIN), ldh(rng, 0, 4)),
        17 => format!("{}{}{}", ldh(rng, 1, 2), rng.pick(&PLAIN), rng.pick(&MARKS)),
        18 => format!("xn--{}{}", ldh(rng, 0, 3), rng.pick(&PLAIN)),
        19 => format!("{}{}", rng.pick(&["ab--c", "--", "-a", "a-", "ab--", "xn--", "xn---", "XN--", "xN--a-", "xn--a"]), if rng.chance(1, 4) { *rng.pick(&PLAIN) } else { "" }),
        20 => rng.pick(&["_", "a_b", " ", "a b", "%", "a/b", "a:b", "[", "~", "\u{7F}", "\u{1}", "a@b", "!"]).to_string(),
        21 => String::new(),
        22 => format!("{}{}", rng.pick(&["\u{DF}", "\u{1E9E}", "\u{3C2}", "\u{200C}a", "a\u{200D}"]), ldh(rng, 0, 3)),
        _ => format!("{}{}{}", rng.pick(&PLAIN), rng.pick(&["\u{3002}", "\u{FF0E}", "\u{FF61}", "."]), rng.pick(&PLAIN)),
    }
}
fn random_domain(rng: &mut Rng) -> Vec<u8> {
    let n = 1 + rng.below(4);
    let mut s = String::new();
    for i in 0..n {
        if i > 0 {
            s.push_str(if rng.chance(1, 10) { *rng.pick(&["\u{3002}", "\u{FF0E}", "\u{FF61}"]) } else { "." });
        }
        s.push_str(&label_atom(rng));
    }
    if rng.chance(1, 6) {
        s.push('.');
    }
    s.into_bytes()
}
fn long_domains(rng: &mut Rng) -> Vec<Vec<u8>> {
    let mut v: Vec<String> = Vec::new();
    let a = |n: usize| "a".repeat(n);
    for n in [62, 63, 64] {
        v.push(a(n));
        v.push(format!("{}.b", a(n)));
        v.push(format!("A{}", a(n - 1)));
        v.push(format!("1{}", a(n - 1)));
    }
    // 253 / 254 totals out of 63-char labels
    let l63 = a(63);
    v.push(format!("{0}.{0}.{0}.{1}", l63, a(61)));
    v.push(format!("{0}.{0}.{0}.{1}", l63, a(62)));
    v.push(format!("{0}.{0}.{0}.{1}.", l63, a(61)));
    v.push(format!("{0}.{0}.{0}.{1}.", l63, a(62)));
    v.push(format!("{0}.{0}.{0}.{1}", l63, a(61)).to_uppercase());
    v.push(format!("1{0}.{1}.{1}.{2}", a(62), l63, a(62)));
    // unicode labels whose punycode crosses 63
    for n in [50, 56, 57, 58, 59, 60] {
        v.push(format!("\u{E9}{}", a(n)));
    }
    // encode / decode caps
    for n in [999, 1000, 1001] {
        v.push(format!("\u{E9}{}", a(n - 1)));
        v.push(format!("{}\u{E9}", a(n - 1)));
    }
    // F-C10-1: at most 1000 scalar values, Punycode form longer than 2000 bytes (accepted; the result is rejected)
    v.push(long_label_witness());
    v.push(format!("a.{}", long_label_witness()));
    for n in [1996, 1999, 2000, 2001, 2004] {
        v.push(format!("xn--{}", a(n)));
        v.push(format!("xn--{}\u{E9}", a(n)));
        v.push(format!("XN--{}", a(n)));
    }
    // VALID Punycode labels whose ASCII form is exactly 1996..2008 bytes long (decode cap 2000 applies to
    // len - 4 on both the all-ASCII fast path and the slow path): distinct CJK ideographs plus 'a' filler;
    // lower-case, upper-case prefix, mapped (fullwidth) first letter so that the slow path is taken, and
    // a second label in front
    {
        let mk = |m: u32| -> String { (0..m).map(|i| char::from_u32(0x4E00 + i).unwrap()).collect() };
        let mut by_len: std::collections::BTreeMap<usize, String> = std::collections::BTreeMap::new();
        for m in [900u32, 925, 940] {
            let cjk = mk(m);
            for fill in 0..(1000 - m as usize) {
                let lab = puny(&format!("{}{}", a(fill), cjk));
                if lab.len() > 2010 {
                    break;
                }
                if lab.len() >= 1996 {
                    by_len.entry(lab.len()).or_insert(lab);
                }
            }
        }
        for (_, lab) in by_len {
            v.push(lab.clone());
            v.push(format!("XN--{}", &lab[4..]));
            v.push(format!("b.{}", lab));
            v.push(format!("\u{FF58}n--{}", &lab[4..]));
        }
    }
    // labels longer than the 1000-scalar encode cap that contain non-ASCII in the source but map entirely to ASCII
    // (the cap applies to non-ASCII labels only: fail-fast and mark-errors must agree on which)
    for n in [999usize, 1000, 1001, 1002] {
        v.push("\u{FF41}".repeat(n));
        v.push(format!("{}\u{3002}", a(n)));
        v.push(format!("{}\u{FF41}", a(n - 1)));
        v.push(format!("b.{}\u{AD}", a(n)));
    }
    // an over-long xn-- label behind more than 2004 code units of earlier labels (marker index must be absolute)
    v.push(format!("{}.xn--{}", "B".repeat(2100), a(2001)));
    v.push(format!("{}.{}.xn--{}", a(1500), "b1".repeat(400), a(2001)));
    // the lowest non-ASCII code point twice with many basic code points between (bias adaptation inside one scan)
    for n in [30usize, 33, 35, 40, 60] {
        v.push(format!("\u{e9}{}\u{e9}\u{fc}", a(n)));
        v.push(format!("x.\u{e9}{}\u{e9}\u{4e2d}", a(n)));
    }
    // Unicode spelling longer than 254 bytes whose ASCII form is DNS-valid
    let l50 = "\u{65e5}".repeat(50);
    v.push(format!("{0}.{0}.{0}", l50));
    v.push(format!("{0}.{0}.{0}.", l50));
    let big: String = (0..990).map(|_| *rng.pick(&["\u{E9}", "\u{4E2D}", "a"])).collect();
    v.push(puny(&big));
    v.push(big);
    v.into_iter().map(|s| s.into_bytes()).collect()
}

/// "xn--" labels whose ASCII spelling itself needs mapping (so that the Punycode label is decoded on the slow,
/// non-ASCII path): the Punycode form of one label per validity check (leading combining mark, ContextJ,
/// bidi, hyphens, not NFC, deviation, disallowed, plain valid), with one character of the spelling replaced
/// by its fullwidth compatibility form or its upper-case form, or an ignored code point inserted, at every
/// position class (prefix, first payload characters, middle, last).
fn respelled_xn() -> Vec<Vec<u8>> {
    let sources: [&str; 22] = [
        "\u{301}a", "a\u{301}", "\u{903}\u{915}", "\u{e9}", "b\u{fc}cher", "\u{4e2d}\u{6587}", "\u{915}\u{94d}\u{200d}", "a\u{200d}b", "\u{628}\u{200c}\u{628}",
        "\u{5d0}a", "a\u{5d0}", "\u{5d0}1", "1\u{5d0}", "ab--\u{e9}", "-\u{e9}", "\u{e9}-", "e\u{301}", "\u{df}", "\u{3c2}a", "\u{378}a", "A\u{e9}", "xn--\u{e9}",
    ];
    let mut v: Vec<String> = Vec::new();
    for src in sources {
        let p = puny(src);
        let cs: Vec<char> = p.chars().collect();
        let n = cs.len();
        let mut pos: Vec<usize> = vec![0, 1, 2, 3, 4, 5, n / 2, n.saturating_sub(2), n - 1];
        pos.retain(|&i| i < n);
        pos.dedup();
        for &i in &pos {
            let c = cs[i];
            let mut variants: Vec<String> = Vec::new();
            if ('!'..='~').contains(&c) {
                variants.push(char::from_u32(0xFF00 + (c as u32 - 0x20)).unwrap().to_string());
            }
            if c.is_ascii_lowercase() {
                variants.push(c.to_ascii_uppercase().to_string());
            }
            variants.push(format!("\u{ad}{}", c));
            variants.push(format!("{}\u{200b}", c));
            for w in variants {
                let mut t: String = cs[..i].iter().collect();
                t.push_str(&w);
                t.extend(cs[i + 1..].iter());
                v.push(t.clone());
                v.push(format!("a.{}", t));
            }
        }
        v.push(p);
    }
    v.into_iter().map(|s| s.into_bytes()).collect()
}
fn mutate_bytes(rng: &mut Rng, b: &[u8]) -> Vec<u8> {
    let mut v = b.to_vec();
    for _ in 0..1 + rng.below(3) {
        let pos = if v.is_empty() { 0 } else { rng.below(v.len() + 1) };
        match rng.below(6) {
            0 => v.insert(pos.min(v.len()), *rng.pick(&[0x80u8, 0xC3, 0xE2, 0xF0, 0xFF, 0xED, 0xA0, 0xC0])),
            1 => {
                if !v.is_empty() {
                    v.remove(pos.min(v.len() - 1));
                }
            }
            2 => v.insert(pos.min(v.len()), *rng.pick(b".-xnXN-.")),
            3 => {
                if !v.is_empty() {
                    let i = pos.min(v.len() - 1);
                    v[i] ^= 1 << rng.below(8);
                }
            }
            4 => {
                if !v.is_empty() {
                    let i = pos.min(v.len() - 1);
                    let c = v[i];
                    v.insert(i, c);
                }
            }
            _ => v.truncate(pos),
        }
    }
    v
}

fn sink_sweep(drv: &mut Driver, rep: &mut Report, stream: &str, b: &[u8], d: &str, h: &str, ff: &str, p: &str) {
    // every failure position of the first sink, then of the ascii sink
    let mut k = 0;
    loop {
        let req = format!("proc {} {} {} {} {} {} ~ 1 {}", CFG, d, h, ff, p, k, hexb(b));
        let imp = impl_request(&req);
        compare(drv, rep, stream, &req);
        if !imp.starts_with("sinkerr") || k > 80 {
            break;
        }
        k += 1;
    }
    let mut k = 0;
    loop {
        let req = format!("proc {} {} {} {} {} ~ {} 1 {}", CFG, d, h, ff, p, k, hexb(b));
        let imp = impl_request(&req);
        compare(drv, rep, stream, &req);
        if !imp.starts_with("sinkerr") || k > 80 {
            break;
        }
        k += 1;
    }
}

fn run_corr(args: &Args) -> Report {
    let mut rep = Report::new();
    let mut drv = Driver::spawn(&args.driver);
    let thorough = args.tier == "thorough";
    let mut rng = Rng::new(args.seed);
    let repo = std::env::var("VERIF_REPO").unwrap_or_else(|_| "/repo".into());
    let prop = args.extra.first().cloned().unwrap_or_else(|| "C10".into());

    // corpus: recorded request lines (shared by the three properties), IdnaTestV2 sources
    for dir in ["C10", "C11", "C12"] {
        if let Ok(txt) = std::fs::read_to_string(format!("{}/{}/cases.txt", args.file, dir)) {
            for l in txt.lines().filter(|l| !l.is_empty() && !l.starts_with('#')) {
                let l = l.replacen(" @CFG@ ", &format!(" {} ", CFG), 1);
                compare(&mut drv, &mut rep, "corpus", &l);
            }
        }
    }
    let sources = idna_test_sources(&repo);
    let stride = if thorough { 1 } else { 3 };
    let off = match prop.as_str() {
        "C11" => 1,
        "C12" => 2,
        _ => 0,
    };
    for (i, s) in sources.iter().enumerate() {
        // quick tier: each property's check takes every third line, so that the three checks cover the file
        if (i + off) % stride == 0 {
            compare(&mut drv, &mut rep, "idnatest", &full_req(s.as_bytes()));
        }
    }
    rep.notes.push(format!("IdnaTestV2.txt: {} source strings, stride {}", sources.len(), stride));

    // deny-list masks: every ASCII byte alone, after 'a', inside a unicode label, inside a punycode label's text
    for b in 0u8..128 {
        compare(&mut drv, &mut rep, "tab", &full_req(&[b]));
        compare(&mut drv, &mut rep, "tab", &full_req(&[b'a', b]));
        let mut v = vec![b];
        v.extend_from_slice("\u{E9}".as_bytes());
        compare(&mut drv, &mut rep, "tab", &full_req(&v));
        let l: String = format!("{}\u{E9}", b as char);
        compare(&mut drv, &mut rep, "tab", &full_req(puny(&l).as_bytes()));
    }
    for g in ["0", "1"] {
        for b in 0u32..256 {
            let s = char::from_u32(b).unwrap().to_string();
            compare(&mut drv, &mut rep, "dnew", &format!("dnew {} {}", g, hexb(s.as_bytes())));
        }
        compare(&mut drv, &mut rep, "dnew", &format!("dnew {} {}", g, hexb(b"%#/:<>?@[\\]^|")));
        compare(&mut drv, &mut rep, "dnew", &format!("dnew {} {}", g, hexb(b"_$a")));
    }

    // exhaustive small scope
    let alpha = alphabet();
    let maxlen = if thorough { 4 } else { 3 };
    for_all_strings(&alpha, maxlen, |s| {
        let b: Vec<u8> = s.iter().flatten().copied().collect();
        compare(&mut drv, &mut rep, "exh", &full_req(&b));
    });
    let tails: Vec<u8> = b"az-09".to_vec();
    for_all_strings(&tails, 4, |s| {
        let mut b = b"xn--".to_vec();
        b.extend_from_slice(s);
        compare(&mut drv, &mut rep, "exh-xn", &full_req(&b));
        if thorough {
            let mut c = b"a.XN--".to_vec();
            c.extend_from_slice(s);
            compare(&mut drv, &mut rep, "exh-xn", &full_req(&c));
        }
    });
    rep.exhaustive.push(format!(
        "all strings of length <= {} over {{a,A,-,.,x,n,0,U+DF,U+E9,U+200D,U+94D,U+5D0,U+661,U+3002,U+AD,U+FFFD,byte FF}}; xn-- + all strings of length <= 4 over {{a,z,-,0,9}}; every ASCII byte in four contexts; AsciiDenyList::new on every single character below U+0100",
        maxlen
    ));

    // structured random
    let n = if thorough { 30_000 } else { 1_500 };
    for i in 0..n {
        let d = random_domain(&mut rng);
        compare(&mut drv, &mut rep, "rnd", &full_req(&d));
        if i % 10 == 0 {
            let p = ["1", "2", "3", "0"][rng.below(4)];
            let dl = DENIES[rng.below(4)];
            let hy = HYS[rng.below(3)];
            sink_sweep(&mut drv, &mut rep, "rnd-sink", &d, dl, hy, if rng.chance(1, 4) { "1" } else { "0" }, p);
        }
        if i % 5 == 0 {
            // pre-populated `out` of the deprecated Idna API
            if std::str::from_utf8(&d).is_ok() {
                let f = &all_flags()[rng.below(16)];
                compare(&mut drv, &mut rep, "rnd-dep", &format!("dep {} {} {} {}", CFG, f, hexb(rng.pick(&["x.", "y", "\u{E9}"]).as_bytes()), hexb(&d)));
            }
        }
        if i % 3 == 0 {
            let m = mutate_bytes(&mut rng, &d);
            compare(&mut drv, &mut rep, "malformed", &full_req(&m));
        }
    }
    for s in sources.iter().step_by(if thorough { 5 } else { 60 }) {
        let m = mutate_bytes(&mut rng, s.as_bytes());
        compare(&mut drv, &mut rep, "malformed", &full_req(&m));
    }
    for d in long_domains(&mut rng) {
        compare(&mut drv, &mut rep, "long", &format!("ta {} S c v {}", CFG, hexb(&d)));
        compare(&mut drv, &mut rep, "long", &format!("ta {} U a r {}", CFG, hexb(&d)));
        // without DNS length verification the length caps of the label checks are the only limits
        compare(&mut drv, &mut rep, "long", &format!("ta {} E a i {}", CFG, hexb(&d)));
        compare(&mut drv, &mut rep, "long", &format!("ta {} U c i {}", CFG, hexb(&d)));
        compare(&mut drv, &mut rep, "long", &format!("ui {} E a 1 {}", CFG, hexb(&d)));
        compare(&mut drv, &mut rep, "long", &format!("ui {} U f 2 {}", CFG, hexb(&d)));
        if d.is_ascii() {
            compare(&mut drv, &mut rep, "long", &format!("vdl {} 1 {}", CFG, hexb(&d)));
            compare(&mut drv, &mut rep, "long", &format!("vdl {} 0 {}", CFG, hexb(&d)));
        }
    }
    // label-shape cross product: what precedes a mixed-case / already-Punycode label decides which flush path the
    // output walks take (passthrough prefix, digit-first, underscore, lower-case xn--, non-ASCII)
    for first in ["1a", "a_b", "xn--4db", "a", "A", "\u{e9}", "a-", "xn--bcher-kva"] {
        for second in ["xn--Bcher-kva", "xn--bcHer-kva", "XN--BCHER-KVA", "xn--bcher-kva", "xN--4dB", "b\u{fc}cher", "Bcher", "xn--a", "xn--zn7c", "xn--a-q10i", "xn--b-p10i"] {
            for third in ["example", "", "\u{5d0}", "xn--4db"] {
                let d = if third.is_empty() { format!("{}.{}", first, second) } else { format!("{}.{}.{}", first, second, third) };
                compare(&mut drv, &mut rep, "label-shapes", &full_req(d.as_bytes()));
            }
        }
    }
    for d in respelled_xn() {
        compare(&mut drv, &mut rep, "xn-respelled", &format!("ta {} S c v {}", CFG, hexb(&d)));
        compare(&mut drv, &mut rep, "xn-respelled", &format!("ta {} U a r {}", CFG, hexb(&d)));
        compare(&mut drv, &mut rep, "xn-respelled", &format!("ui {} E a 1 {}", CFG, hexb(&d)));
        compare(&mut drv, &mut rep, "xn-respelled", &format!("ui {} U f 2 {}", CFG, hexb(&d)));
    }
    // the adapter premises of the Coq theorems (NvNoTrunc, AdapterOK), sampled on the real idna_adapter
    adapter_facts(&mut rep, &mut rng, thorough, &sources);
    // Known-class predicates: the Rust and the model versions agree
    for _ in 0..(if thorough { 4000 } else { 300 }) {
        let d = random_domain(&mut rng);
        for (which, f) in [("known11", known11 as fn(&[u8], &str, &str) -> bool), ("known12", known12)] {
            let req = format!("{} {} E a {}", which, CFG, hexb(&d));
            let model = drv.ask_with(&req, oracle);
            let mut imp = (f(&d, "E", "a") as u8).to_string();
            // the Rust recognisers are used only to SKIP inputs in search mode: they may over-approximate
            // the model's class (counted), never under-approximate it
            if model == "0" && imp == "1" {
                rep.bump(&format!("{}-overapprox", which));
                imp = "0".into();
            }
            rep.case("known-class", &req, &model, &imp, true, &format!("{}|{}", which, imp));
        }
    }
    rep
}

// ---------------------------------------------------------------- the adapter premises, sampled
/// The Coq theorems of C10 - C12 quantify over an abstract adapter and assume a few facts about it
/// (Proofs/Idna_C10_Inner.v NvNoTrunc, Proofs/Idna_Hyp.v AdapterOK).  They are statements about
/// idna_adapter alone (never about uts46.rs); every run samples them on the real crate.  A violated fact is
/// reported as a mismatch of the stream `adapter` (expected "1").
fn adapter_fact_checks(l: &[char]) -> Vec<(&'static str, bool)> {
    let ad = idna_adapter::Adapter::new();
    let nv = |t: &[char]| -> Vec<char> { ad.normalize_validate(t.iter().copied()).collect() };
    let mn = |t: &[char]| -> Vec<char> { ad.map_normalize(t.iter().copied()).collect() };
    let mut out: Vec<(&'static str, bool)> = Vec::new();
    // NvNoTrunc: normalize_validate(l) is never a proper prefix of l
    let n = nv(l);
    out.push(("nvnotrunc", !(n.len() < l.len() && l[..n.len()] == n[..])));
    // NvNoGrow (Proofs/Idna_C12d_Round.v): l is never a proper prefix of normalize_validate(l).  after_punycode_decode
    // compares the normalised text with the decoded one by a zip that stops at the shorter: NvNoTrunc and NvNoGrow
    // together make an accepted decoded label equal to the text that is displayed and re-encoded.
    out.push(("nvnogrow", !(n.len() > l.len() && n[..l.len()] == l[..])));
    // AdapterNP (Proofs/C04_Uts46_Inner.v): neither normalizer ever returns U+200F (chars are below 2^32 by type)
    {
        let m0 = mn(l);
        out.push(("adapternp", !n.contains(&'\u{200F}') && !m0.contains(&'\u{200F}')));
        // AdapterUSV (Proofs/Idna_WalkEnc.v): both normalizers yield Unicode scalar values (true by type: `char`)
        let usv = |c: &char| { let u = *c as u32; u < 0xD800 || (0xE000..0x11_0000).contains(&u) };
        out.push(("adapterusv", n.iter().all(usv) && m0.iter().all(usv)));
    }
    // H1 (ok_ascii): on ASCII text map_normalize is ASCII lower-casing
    if l.iter().all(|c| c.is_ascii()) {
        let low: Vec<char> = l.iter().map(|c| c.to_ascii_lowercase()).collect();
        out.push(("ok_ascii", mn(l) == low));
    }
    // ok_case: map_normalize does not depend on the case of ASCII letters
    let m = mn(l);
    let up: Vec<char> = l.iter().map(|c| c.to_ascii_uppercase()).collect();
    let lo: Vec<char> = l.iter().map(|c| c.to_ascii_lowercase()).collect();
    out.push(("ok_case", mn(&up) == m && mn(&lo) == m));
    // H2 (ok_stable): normalize_validate is the identity on the dot-separated pieces of error-free map_normalize output
    if !m.contains(&'\u{FFFD}') {
        out.push(("ok_stable", m.split(|c| *c == '.').all(|piece| nv(piece) == piece)));
        // ok_mn_idem: map_normalize is the identity on its own error-free output
        out.push(("ok_mn_idem", mn(&m) == m));
    }
    // H3 (ok_fffd): normalize_validate introduces U+FFFD only when it changes the text
    if !l.contains(&'\u{FFFD}') && n.contains(&'\u{FFFD}') {
        out.push(("ok_fffd", n != l));
    }
    // ok_nv_idem: normalize_validate is the identity on its own error-free output
    if !n.contains(&'\u{FFFD}') {
        out.push(("ok_nv_idem", nv(&n) == n));
    }
    // ok_nv_mapfix (NvMapFix of Proofs/Idna_C12c_Stmt4.v): a text that normalize_validate accepts - returns unchanged and
    // without U+FFFD - is a fixed point of map_normalize (every character valid, the text NFC).  The premise that the
    // clauses of C12 about the Unicode form need: ToASCII maps the Unicode form that ToUnicode displayed.
    if !n.contains(&'\u{FFFD}') && n[..] == *l {
        out.push(("ok_nv_mapfix", m[..] == *l));
    }
    // ok_map_prefix (MapPrefix of Proofs/Idna_C10c_Drun.v): for an ASCII text a and a text that starts with an ASCII
    // character, map_normalize(a ++ rest) = lower-cased a ++ map_normalize(rest).  uts46.rs hands map_normalize only
    // the part of a label that starts at the last ASCII character before the first non-ASCII one; the ASCII prefix is
    // copied into the buffer.  Every split point inside the leading ASCII run of the text (at most 12 of them, the
    // one uts46.rs uses always among them) is checked.
    {
        let k = l.iter().position(|c| !c.is_ascii()).unwrap_or(l.len());
        if k >= 2 {
            let mut holds = true;
            let mut js: Vec<usize> = (1..k).take(11).collect();
            if !js.contains(&(k - 1)) {
                js.push(k - 1);
            }
            for j in js {
                let mut expect: Vec<char> = l[..j].iter().map(|c| c.to_ascii_lowercase()).collect();
                expect.extend(mn(&l[j..]));
                if expect != m {
                    holds = false;
                }
            }
            out.push(("ok_map_prefix", holds));
        }
    }
    out
}
fn adapter_facts(rep: &mut Report, rng: &mut Rng, thorough: bool, sources: &[String]) {
    let mut texts: Vec<Vec<char>> = vec![vec![]];
    // U+200F (RLM) and its neighbours in several contexts (AdapterNP)
    for c in ['\u{200E}', '\u{200F}', '\u{200C}', '\u{200D}', '\u{61C}'] {
        texts.push(vec![c]);
        texts.push(vec!['a', c]);
        texts.push(vec![c, 'a']);
        texts.push(vec!['\u{5D0}', c, '\u{5D0}']);
        texts.push(vec![c, c]);
    }
    let add_name = |texts: &mut Vec<Vec<char>>, bytes: &[u8]| {
        let s = String::from_utf8_lossy(bytes).into_owned();
        let cs: Vec<char> = s.chars().collect();
        texts.push(cs.clone());
        for lab in s.split(|c| c == '.' || c == '\u{3002}' || c == '\u{FF0E}' || c == '\u{FF61}') {
            texts.push(lab.chars().collect());
            // the decoded text of a Punycode label is what normalize_validate is applied to
            if lab.len() >= 4 && lab.is_char_boundary(4) && lab[..4].eq_ignore_ascii_case("xn--") {
                if let Some(d) = idna::punycode::decode(&lab[4..]) {
                    texts.push(d);
                }
            }
        }
    };
    for _ in 0..(if thorough { 8000 } else { 500 }) {
        let d = random_domain(rng);
        add_name(&mut texts, &d);
    }
    for s in sources.iter().step_by(if thorough { 1 } else { 7 }) {
        add_name(&mut texts, s.as_bytes());
    }
    // every k-th scalar value alone, after 'a', before a combining acute, after a virama
    let step = if thorough { 1 } else { 53 };
    let mut cp = 0u32;
    while cp < 0x110000 {
        if let Some(c) = char::from_u32(cp) {
            texts.push(vec![c]);
            texts.push(vec!['a', c]);
            texts.push(vec![c, '\u{301}']);
            texts.push(vec!['\u{915}', '\u{94D}', c]);
            // an ASCII prefix of two characters in front of it (MapPrefix: split after the first)
            texts.push(vec!['X', 'a', c]);
            texts.push(vec!['x', 'n', c, '\u{301}']);
        }
        cp += step;
    }
    // premises of the corrected idempotence / case statements (Proofs/Idna_C10b_Stmt.v): no ASCII character is a
    // combining mark (AsciiNoMark); the characters of a pass-through label have the bidi classes under which the bidi
    // rule accepts every such label (PassBidi: a-z can start, continue and end an LTR label and are not NSM, 0-9 can
    // continue and end one, '-' can continue one)
    {
        let ad = idna_adapter::Adapter::new();
        for c in 0u8..128 {
            let ch = c as char;
            let req = format!("adapter ok_ascii_nomark {:x}", c);
            rep.case("adapter", &req, "1", if !ad.is_mark(ch) { "1" } else { "0" }, true, "adapter|ok_ascii_nomark");
            let need: u32 = if ch.is_ascii_lowercase() {
                0b101011
            } else if ch.is_ascii_digit() {
                0b101000
            } else if ch == '-' {
                0b100000
            } else {
                continue;
            };
            let bits = u32::from_str_radix(&oracle("bc", &hexl([c as u32])), 16).unwrap_or(0);
            let holds = bits & need == need && bits & 0b100 == 0;
            let req = format!("adapter ok_pass_bidi {:x}", c);
            rep.case("adapter", &req, "1", if holds { "1" } else { "0" }, true, "adapter|ok_pass_bidi");
        }
    }
    let mut n = 0u64;
    for t in &texts {
        for (fact, holds) in adapter_fact_checks(t) {
            n += 1;
            let req = format!("adapter {} {}", fact, hexl(t.iter().map(|c| *c as u32)));
            rep.case("adapter", &req, "1", if holds { "1" } else { "0" }, !t.is_empty(), &format!("adapter|{}", fact));
        }
    }
    rep.notes.push(format!(
        "adapter premises sampled on the real idna_adapter: {} texts, {} fact instances (nvnotrunc, nvnogrow, adapternp, adapterusv, ok_ascii, ok_case, ok_stable, ok_mn_idem, ok_fffd, ok_nv_idem, ok_nv_mapfix, ok_map_prefix, and on the 128 ASCII characters ok_ascii_nomark, ok_pass_bidi; H0 = the empty text is among them)",
        texts.len(),
        n
    ));
}

// ---------------------------------------------------------------- Known classes on the implementation
/// Known_C11 (F-C11-1, F-C11-2): a bidi domain name with an all-ASCII non-Punycode label that the
/// bidi rule rejects.  Decided from the implementation's own display output: the mark-errors text of
/// ToUnicode keeps ASCII labels; the class is recognised through the adapter's bidi data.
fn is_rtl(c: char) -> bool {
    let ad = idna_adapter::Adapter::new();
    ad.bidi_class(c).to_mask().intersects(idna_adapter::RTL_MASK)
}
/// is the name a bidi domain name: some character of the mapped text, or of the decoded form of one
/// of its Punycode labels, has an RTL class (independent of the crate: adapter + punycode::decode)
fn bidi_guess(d: &[u8]) -> bool {
    let ad = idna_adapter::Adapter::new();
    let lossy = String::from_utf8_lossy(d).into_owned();
    let mut all: Vec<char> = Vec::new();
    for label in lossy.split('.') {
        let mapped: String = ad.map_normalize(label.chars()).collect();
        for l in mapped.split('.') {
            all.extend(l.chars());
            let low = l.to_ascii_lowercase();
            if let Some(rest) = low.strip_prefix("xn--") {
                if rest.is_ascii() {
                    if let Some(dec) = idna::punycode::decode(rest) {
                        all.extend(ad.normalize_validate(dec.iter().copied()));
                        all.extend(dec);
                    }
                }
            }
        }
    }
    all.into_iter().any(|c| {
        let u = c as u32;
        u >= 0x590
            && !(0x900..=0xFB1C).contains(&u)
            && !(0x1F000..=0x3FFFF).contains(&u)
            && !(0xFF00..=0x107FF).contains(&u)
            && !(0x11000..=0x1E7FF).contains(&u)
            && is_rtl(c)
    })
}
fn ascii_label_bidi_error(l: &str) -> bool {
    // the bidi rule of an LTR label restricted to ASCII text, through the adapter
    let ad = idna_adapter::Adapter::new();
    let cs: Vec<char> = l.chars().collect();
    if cs.is_empty() {
        return false;
    }
    let f = ad.bidi_class(cs[0]);
    if !f.to_mask().intersects(idna_adapter::FIRST_BC_MASK) {
        return true;
    }
    let mut end = cs.len();
    while end > 1 && ad.bidi_class(cs[end - 1]).is_nonspacing_mark() {
        end -= 1;
    }
    if end <= 1 {
        return false;
    }
    let last = ad.bidi_class(cs[end - 1]);
    let ltr = f.is_ltr();
    let lm = if ltr { idna_adapter::LAST_LTR_MASK } else { idna_adapter::LAST_RTL_MASK };
    if !last.to_mask().intersects(lm) {
        return true;
    }
    cs[1..end - 1].iter().any(|&c| {
        let m = ad.bidi_class(c).to_mask();
        !m.intersects(if ltr { idna_adapter::MIDDLE_LTR_MASK } else { idna_adapter::MIDDLE_RTL_MASK })
    })
}
fn known11(d: &[u8], deny: &str, hy: &str) -> bool {
    let (dd, hh, b) = (deny.to_string(), hy.to_string(), d.to_vec());
    let r = std::panic::catch_unwind(move || {
        let (t, _) = Uts46::new().to_unicode(&b, deny_of(&dd), hy_of(&hh));
        t.into_owned()
    });
    let t = match r {
        Ok(t) => t,
        Err(_) => return false, // a panic is never inside a Known class by itself
    };
    if !bidi_guess(d) {
        return false;
    }
    // labels of the display text that are pure ASCII, do not contain U+FFFD and do not start with xn--
    t.split('.').any(|l| l.is_ascii() && !l.is_empty() && !l.to_ascii_lowercase().starts_with("xn--") && ascii_label_bidi_error(&l.to_ascii_lowercase()))
}
/// Known_C12 (F-C12-1): some label of the ToUnicode display text begins with "xn--"
fn known12(d: &[u8], deny: &str, hy: &str) -> bool {
    let (dd, hh, b) = (deny.to_string(), hy.to_string(), d.to_vec());
    let r = std::panic::catch_unwind(move || {
        let (t, _) = Uts46::new().to_unicode(&b, deny_of(&dd), hy_of(&hh));
        t.into_owned()
    });
    match r {
        Ok(t) => t.split('.').any(|l| l.starts_with("xn--")),
        Err(_) => false,
    }
}

/// Known_C10_long (F-C10-1; Coq: Proofs/Idna_C10b_Long.v): some dot-separated label of a ToASCII RESULT starts with
/// xn-- (any case) and has more than 2000 (PUNYCODE_DECODE_MAX_INPUT_LENGTH) bytes after it.  check_label caps a
/// non-ASCII label at 1000 scalar values only, whose Punycode form can be longer; such a result is rejected when fed back.
fn known10_long(r: &str) -> bool {
    r.split('.').any(|l| {
        let b = l.as_bytes();
        b.len() > 4 + 2000 && b[..4].eq_ignore_ascii_case(b"xn--")
    })
}
/// the 1000 ideographs U+4E00 + 20*i: the witness of F-C10-1
fn long_label_witness() -> String {
    (0..1000u32).map(|i| char::from_u32(0x4E00 + 20 * i).unwrap()).collect()
}

// ---------------------------------------------------------------- the properties on the implementation
fn deny_members(d: &str) -> Vec<u8> {
    // reference membership, independent of the implementation: what the documentation of the
    // three constants and of AsciiDenyList::new says (upper case is always a member)
    (0u8..128)
        .filter(|&b| {
            let upper = b.is_ascii_uppercase();
            let glyphless = b <= b' ' || b == 0x7F;
            match d {
                "E" => upper,
                "S" => !(b.is_ascii_lowercase() || b.is_ascii_digit() || b == b'-' || b == b'.'),
                "U" => upper || glyphless || b"%#/:<>?@[\\]^|".contains(&b),
                _ => upper || glyphless || b == b'_',
            }
        })
        .collect()
}
fn dns_ok(r: &str, allow_root: bool) -> bool {
    let w = if let Some(w) = r.strip_suffix('.') {
        if !allow_root {
            return false;
        }
        w
    } else {
        r
    };
    w.len() <= 253 && w.split('.').all(|l| !l.is_empty() && l.len() <= 63)
}
fn swap_case(b: &[u8], rng: &mut Rng) -> Vec<u8> {
    b.iter().map(|&c| if c.is_ascii_alphabetic() && rng.chance(1, 2) { c ^ 0x20 } else { c }).collect()
}
fn prop_c10(b: &[u8], rng: &mut Rng) -> Option<String> {
    for d in DENIES {
        let members = deny_members(d);
        for h in HYS {
            for n in DNSS {
                let r = std::panic::catch_unwind(|| Uts46::new().to_ascii(b, deny_of(d), hy_of(h), dns_of(n)).map(|c| (matches!(c, Cow::Borrowed(_)), c.into_owned())));
                let r = match r {
                    Ok(r) => r,
                    Err(_) => return Some(format!("to_ascii({},{},{}) panics", d, h, n)),
                };
                if let Ok((borrowed, r)) = r {
                    if !r.is_ascii() || r.bytes().any(|c| c.is_ascii_uppercase()) {
                        return Some(format!("to_ascii({},{},{}) = {:?}: not lower-case ASCII", d, h, n, r));
                    }
                    if r.bytes().any(|c| members.contains(&c)) {
                        return Some(format!("to_ascii({},{},{}) = {:?}: contains a deny-list member", d, h, n, r));
                    }
                    if n != "i" && !dns_ok(&r, n == "r") {
                        return Some(format!("to_ascii({},{},{}) = {:?}: DNS length limits", d, h, n, r));
                    }
                    if borrowed && r.as_bytes() != b {
                        return Some(format!("to_ascii({},{},{}): borrowed result differs from the input", d, h, n));
                    }
                    if !known10_long(&r) {
                        match Uts46::new().to_ascii(r.as_bytes(), deny_of(d), hy_of(h), dns_of(n)) {
                            Ok(r2) if r2 == r => {}
                            other => return Some(format!("to_ascii({},{},{}) = {:?} is not a fixed point: {:?}", d, h, n, r, other.map(|c| c.into_owned()).ok())),
                        }
                    }
                    let v = swap_case(b, rng);
                    match Uts46::new().to_ascii(&v, deny_of(d), hy_of(h), dns_of(n)) {
                        Ok(r2) if r2 == r => {}
                        other => return Some(format!("to_ascii({},{},{}): ASCII case variant {:?} gives {:?} instead of {:?}", d, h, n, String::from_utf8_lossy(&v), other.map(|c| c.into_owned()).ok(), r)),
                    }
                }
            }
        }
    }
    // entry points
    let base = |d: &str| Uts46::new().to_ascii(b, deny_of(d), Hyphens::Allow, DnsLength::Ignore).map(|c| c.into_owned()).ok();
    for d in ["E", "S", "U"] {
        if idna::domain_to_ascii_cow(b, deny_of(d)).map(|c| c.into_owned()).ok() != base(d) {
            return Some(format!("domain_to_ascii_cow({}) differs from Uts46::to_ascii", d));
        }
        let mut s = String::new();
        let p = Uts46::new().process(b, deny_of(d), Hyphens::Allow, ErrorPolicy::FailFast, |_, _, _| false, &mut s, None);
        let via = match p {
            Ok(ProcessingSuccess::Passthrough) => Some(String::from_utf8_lossy(b).into_owned()),
            Ok(ProcessingSuccess::WroteToSink) => Some(s),
            Err(_) => None,
        };
        if via != base(d) {
            return Some(format!("process(FailFast, {}) differs from Uts46::to_ascii", d));
        }
    }
    if let Ok(s) = std::str::from_utf8(b) {
        if idna::domain_to_ascii(s).ok() != base("E") {
            return Some("domain_to_ascii differs from Uts46::to_ascii(EMPTY, Allow, Ignore)".into());
        }
        let strict = Uts46::new().to_ascii(b, AsciiDenyList::STD3, Hyphens::Check, DnsLength::Verify).map(|c| c.into_owned()).ok();
        if idna::domain_to_ascii_strict(s).ok() != strict {
            return Some("domain_to_ascii_strict differs from Uts46::to_ascii(STD3, Check, Verify)".into());
        }
        #[allow(deprecated)]
        for (f, d, h, n) in [("0000", "E", "a", "i"), ("1000", "S", "a", "i"), ("0001", "E", "f", "i"), ("0010", "E", "a", "r"), ("1011", "S", "f", "r")] {
            let want = Uts46::new().to_ascii(b, deny_of(d), hy_of(h), dns_of(n)).map(|c| c.into_owned()).ok();
            if config_of(f).to_ascii(s).ok() != want {
                return Some(format!("Config({}).to_ascii differs from Uts46::to_ascii({},{},{})", f, d, h, n));
            }
        }
    }
    None
}
fn prop_c11(b: &[u8]) -> Option<String> {
    for d in DENIES {
        for h in HYS {
            let a = std::panic::catch_unwind(|| Uts46::new().to_ascii(b, deny_of(d), hy_of(h), DnsLength::Ignore).map(|c| c.into_owned()));
            let a = match a {
                Ok(a) => a,
                Err(_) => return Some(format!("to_ascii({},{}) panics", d, h)),
            };
            let k11 = known11(b, d, h);
            for p in ["1", "0", "2", "3"] {
                let bb = b.to_vec();
                let pp = p.to_string();
                let u = std::panic::catch_unwind(move || {
                    let (t, r) = Uts46::new().to_user_interface(&bb, deny_of(d), hy_of(h), policy(&pp));
                    (t.into_owned(), r.is_err())
                });
                let (t, e) = match u {
                    Ok(x) => x,
                    Err(_) => {
                        if k11 {
                            continue;
                        }
                        return Some(format!("to_user_interface({},{},policy {}) panics", d, h, p));
                    }
                };
                if !k11 && e != a.is_err() {
                    return Some(format!("to_ascii({},{}) is_err = {} but to_user_interface(policy {}) is_err = {}", d, h, a.is_err(), p, e));
                }
                if e && !k11 && !t.contains('\u{FFFD}') {
                    return Some(format!("to_user_interface({},{},policy {}) reports an error but {:?} has no U+FFFD", d, h, p, t));
                }
                if !e && t.contains('\u{FFFD}') {
                    return Some(format!("to_user_interface({},{},policy {}) reports no error but {:?} contains U+FFFD", d, h, p, t));
                }
                // dual output
                let mut s1 = String::new();
                let mut s2 = String::new();
                let bb = b.to_vec();
                let r = Uts46::new().process(&bb, deny_of(d), hy_of(h), ErrorPolicy::MarkErrors, policy(p), &mut s1, Some(&mut s2));
                match r {
                    Ok(ProcessingSuccess::Passthrough) => {
                        if !b.is_ascii() {
                            return Some("Passthrough for non-ASCII input".into());
                        }
                        if !k11 && (a.as_deref().ok() != std::str::from_utf8(b).ok() || t.as_bytes() != b) {
                            return Some(format!("process({},{},policy {}) = Passthrough but the input is not its own result", d, h, p));
                        }
                    }
                    Ok(ProcessingSuccess::WroteToSink) => {
                        if s1 != t {
                            return Some(format!("process({},{},policy {}) sink differs from to_user_interface", d, h, p));
                        }
                        let asc = if s2.is_empty() { &s1 } else { &s2 };
                        if !k11 && a.as_deref().ok() != Some(asc.as_str()) {
                            return Some(format!("process({},{},policy {}) ASCII output {:?} differs from to_ascii {:?}", d, h, p, asc, a.as_ref().ok()));
                        }
                    }
                    Err(_) => {
                        if !e {
                            return Some(format!("process({},{},policy {}) errs but to_user_interface does not", d, h, p));
                        }
                    }
                }
            }
        }
    }
    None
}
fn prop_c12(b: &[u8]) -> Option<String> {
    for d in DENIES {
        for h in HYS {
            let a = match Uts46::new().to_ascii(b, deny_of(d), hy_of(h), DnsLength::Ignore) {
                Ok(a) => a.into_owned(),
                Err(_) => continue,
            };
            if known12(b, d, h) || known10_long(&a) {
                continue;
            }
            let (u, ue) = Uts46::new().to_unicode(b, deny_of(d), hy_of(h));
            let u = u.into_owned();
            if ue.is_err() {
                if known11(b, d, h) {
                    continue;
                }
                return Some(format!("to_ascii({},{}) accepts but to_unicode reports an error", d, h));
            }
            let (ua, uae) = Uts46::new().to_unicode(a.as_bytes(), deny_of(d), hy_of(h));
            if uae.is_err() || ua != u {
                return Some(format!("to_unicode(to_ascii x) = {:?} differs from to_unicode x = {:?} ({},{})", ua, u, d, h));
            }
            match Uts46::new().to_ascii(u.as_bytes(), deny_of(d), hy_of(h), DnsLength::Ignore) {
                Ok(a2) if a2 == a => {}
                other => return Some(format!("to_ascii(to_unicode x) = {:?} differs from to_ascii x = {:?} ({},{})", other.map(|c| c.into_owned()).ok(), a, d, h)),
            }
            let (uu, uue) = Uts46::new().to_unicode(u.as_bytes(), deny_of(d), hy_of(h));
            if uue.is_err() || uu != u {
                return Some(format!("to_unicode is not idempotent on {:?} ({},{})", u, d, h));
            }
            for p in ["0", "2", "3"] {
                let (t, te) = Uts46::new().to_user_interface(b, deny_of(d), hy_of(h), policy(p));
                if te.is_err() {
                    continue;
                }
                match Uts46::new().to_ascii(t.as_bytes(), deny_of(d), hy_of(h), DnsLength::Ignore) {
                    Ok(a2) if a2 == a => {}
                    other => return Some(format!("to_ascii(to_user_interface(policy {}) x = {:?}) = {:?} differs from {:?} ({},{})", p, t, other.map(|c| c.into_owned()).ok(), a, d, h)),
                }
            }
        }
    }
    None
}
fn property(prop: &str, b: &[u8], rng: &mut Rng) -> Option<String> {
    let bb = b.to_vec();
    let pp = prop.to_string();
    let mut r2 = rng.fork();
    match std::panic::catch_unwind(move || match pp.as_str() {
        "C11" => prop_c11(&bb),
        "C12" => prop_c12(&bb),
        _ => prop_c10(&bb, &mut r2),
    }) {
        Ok(r) => r,
        Err(_) => Some("panic while evaluating the property".into()),
    }
}

fn run_search(args: &Args) -> Report {
    let mut rep = Report::new();
    let prop = args.extra.first().cloned().unwrap_or_else(|| "C10".into());
    let mut rng = Rng::new(args.seed ^ 0x1D9A);
    let repo = std::env::var("VERIF_REPO").unwrap_or_else(|_| "/repo".into());
    let mut try_input = |rep: &mut Report, b: &[u8], rng: &mut Rng| {
        rep.evaluations += 1;
        if rep.failures.len() < 20 {
            if let Some(w) = property(&prop, b, rng) {
                rep.failures.push((full_req(b), w));
            }
        }
    };
    if let Ok(txt) = std::fs::read_to_string(&args.file) {
        for l in txt.lines().filter(|l| !l.is_empty()) {
            if let Some(last) = l.split(' ').last() {
                let b = unhexb(last);
                try_input(&mut rep, &b, &mut rng);
                for _ in 0..8 {
                    let m = mutate_bytes(&mut rng, &b);
                    try_input(&mut rep, &m, &mut rng);
                }
            }
        }
    }
    let alpha = alphabet();
    for_all_strings(&alpha, 3, |s| {
        let b: Vec<u8> = s.iter().flatten().copied().collect();
        try_input(&mut rep, &b, &mut rng);
    });
    for_all_strings(&b"az-09".to_vec(), 3, |s| {
        let mut b = b"xn--".to_vec();
        b.extend_from_slice(s);
        try_input(&mut rep, &b, &mut rng);
    });
    for s in idna_test_sources(&repo).iter().step_by(2) {
        if rep.failures.len() >= 20 {
            break;
        }
        try_input(&mut rep, s.as_bytes(), &mut rng);
    }
    for d in long_domains(&mut rng) {
        try_input(&mut rep, &d, &mut rng);
    }
    for d in respelled_xn() {
        try_input(&mut rep, &d, &mut rng);
    }
    for _ in 0..6000 {
        if rep.failures.len() >= 20 {
            break;
        }
        let d = random_domain(&mut rng);
        try_input(&mut rep, &d, &mut rng);
    }
    rep.failures.sort_by_key(|(c, _)| c.len());
    rep
}

fn run_known(_args: &Args) -> Report {
    let mut rep = Report::new();
    // F-C11-1: Err without U+FFFD
    for (id, input) in [("F-C11-1", "1a.\u{5D0}")] {
        let r = guarded(move || {
            let (t, e) = idna::domain_to_unicode(input);
            format!("domain_to_unicode({:?}) = ({:?}, is_err {})", input, t, e.is_err())
        });
        let (t, e) = idna::domain_to_unicode(input);
        let reproduces = e.is_err() && !t.contains('\u{FFFD}') && known11(input.as_bytes(), "E", "a");
        rep.known.push((id.into(), reproduces, r));
    }
    // F-C11-2: verdicts differ (release) / debug assertion (debug) for an all-Punycode display of a bidi name
    {
        let input = "1a.xn--4db";
        let a = Uts46::new().to_ascii(input.as_bytes(), AsciiDenyList::EMPTY, Hyphens::Allow, DnsLength::Ignore).is_err();
        let u = std::panic::catch_unwind(|| {
            let (t, e) = Uts46::new().to_user_interface(input.as_bytes(), AsciiDenyList::EMPTY, Hyphens::Allow, |_, _, _| false);
            (t.into_owned(), e.is_err())
        });
        let (obs, reproduces) = match u {
            Err(_) => ("to_user_interface panics (debug assertion !had_errors)".to_string(), a),
            Ok((t, e)) => (format!("to_user_interface = ({:?}, is_err {})", t, e), a && !e),
        };
        rep.known.push(("F-C11-2".into(), reproduces && known11(input.as_bytes(), "E", "a"), format!("to_ascii({:?}) is_err = {}; {}", input, a, obs)));
    }
    // F-C10-1: a label of 1000 scalar values whose Punycode form is longer than 2000 bytes: accepted, the result is not
    {
        let input = long_label_witness();
        let a = Uts46::new().to_ascii(input.as_bytes(), AsciiDenyList::EMPTY, Hyphens::Allow, DnsLength::Ignore).map(|c| c.into_owned());
        let (a2_err, ua_err, class) = match &a {
            Ok(r) => (
                Uts46::new().to_ascii(r.as_bytes(), AsciiDenyList::EMPTY, Hyphens::Allow, DnsLength::Ignore).is_err(),
                Uts46::new().to_unicode(r.as_bytes(), AsciiDenyList::EMPTY, Hyphens::Allow).1.is_err(),
                known10_long(r),
            ),
            Err(_) => (false, false, false),
        };
        let reproduces = a.is_ok() && a2_err && ua_err && class;
        rep.known.push((
            "F-C10-1".into(),
            reproduces,
            format!(
                "to_ascii(1000 ideographs U+4E00+20i) is_ok = {}, result length = {}; to_ascii of the result is_err = {}; to_unicode of the result is_err = {}",
                a.is_ok(),
                a.as_ref().map(|r| r.len()).unwrap_or(0),
                a2_err,
                ua_err
            ),
        ));
    }
    // F-C12-1
    {
        let input = "XN--xn--ss-Ztda\u{3002}.";
        let a = Uts46::new().to_ascii(input.as_bytes(), AsciiDenyList::EMPTY, Hyphens::Allow, DnsLength::Ignore).map(|c| c.into_owned());
        let (u, ue) = Uts46::new().to_unicode(input.as_bytes(), AsciiDenyList::EMPTY, Hyphens::Allow);
        let a2 = Uts46::new().to_ascii(u.as_bytes(), AsciiDenyList::EMPTY, Hyphens::Allow, DnsLength::Ignore).map(|c| c.into_owned());
        let (uu, _) = Uts46::new().to_unicode(u.as_bytes(), AsciiDenyList::EMPTY, Hyphens::Allow);
        let reproduces = a.is_ok() && ue.is_ok() && a2.is_err() && uu != u && known12(input.as_bytes(), "E", "a");
        rep.known.push((
            "F-C12-1".into(),
            reproduces,
            format!("to_ascii = {:?}; to_unicode = {:?}; to_ascii of that = {:?}; to_unicode of that = {:?}", a.ok(), u, a2.ok(), uu),
        ));
    }
    rep
}

fn run_replay(args: &Args) -> Report {
    let mut rep = Report::new();
    let prop = args.extra.first().cloned().unwrap_or_else(|| "C10".into());
    let txt = std::fs::read_to_string(&args.file).unwrap_or_default();
    let req = txt.split("\"request\":").nth(1).and_then(|s| s.split('"').nth(1)).unwrap_or("").to_string();
    if req.is_empty() {
        rep.notes.push("replay file has no request (no-failing-input-found replay): nothing to re-run".into());
        return rep;
    }
    let imp = impl_request(&req);
    let short = |s: &str| if s.len() > 600 { format!("{}...", &s[..600]) } else { s.to_string() };
    rep.notes.push(format!("request: {}", short(&req)));
    rep.notes.push(format!("implementation: {}", short(&imp)));
    if !args.driver.is_empty() {
        let mut drv = Driver::spawn(&args.driver);
        let model = drv.ask_with(&req, oracle);
        rep.notes.push(format!("model: {}", short(&model)));
    }
    rep.evaluations = 1;
    let b = unhexb(req.split(' ').last().unwrap_or("-"));
    let mut rng = Rng::new(args.seed);
    if let Some(w) = property(&prop, &b, &mut rng) {
        rep.failures.push((req, w));
    }
    rep
}

fn main() {
    quiet_panics();
    let args = parse_args();
    let rep = match args.mode.as_str() {
        "corr" => run_corr(&args),
        "search" => run_search(&args),
        "known" => run_known(&args),
        "replay" => run_replay(&args),
        m => panic!("unknown mode {}", m),
    };
    finish(&args, &rep);
}
