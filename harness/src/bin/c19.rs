//! C19 - MIME types: correspondence model <-> data_url::mime, property search, known findings, replay.
//!
//! Requests (every string field is dot-separated hex of the code points, "-" = empty):
//!   parse <s> <q>          -> "~" | "ok T ST P D G GS"      (q = a name looked up with get_parameter)
//!   mime <T> <ST> <P> <q>  -> "D G GS"                       (Display / get_parameter of an arbitrary Mime value)
//!   tables                 -> observable behaviour of the character classes
//! P = "_" or n=v,n=v,...; D = to_string(); G = get_parameter(q); GS = get_parameter(name_i) for every i.
use data_url::mime::Mime;
use verif_harness::*;

// ---------------------------------------------------------------- implementation side
fn show_params(ps: &[(String, String)]) -> String {
    if ps.is_empty() {
        "_".to_string()
    } else {
        ps.iter().map(|(n, v)| format!("{}={}", hexs(n), hexs(v))).collect::<Vec<_>>().join(",")
    }
}

fn parse_params(s: &str) -> Vec<(String, String)> {
    if s == "_" {
        return vec![];
    }
    s.split(',')
        .map(|nv| {
            let mut it = nv.split('=');
            let n = unhexs(it.next().unwrap());
            let v = unhexs(it.next().unwrap());
            (n, v)
        })
        .collect()
}

fn show_views(m: &Mime, q: &str) -> String {
    let d = m.to_string();
    let g = opt(&m.get_parameter(q), |v| hexs(v));
    let gs = if m.parameters.is_empty() {
        "_".to_string()
    } else {
        m.parameters
            .iter()
            .map(|(n, _)| opt(&m.get_parameter(n.as_str()), |v| hexs(v)))
            .collect::<Vec<_>>()
            .join(",")
    };
    format!("{} {} {}", hexs(&d), g, gs)
}

fn impl_parse(s: &str, q: &str) -> String {
    let (s, q) = (s.to_string(), q.to_string());
    guarded(move || match s.parse::<Mime>() {
        Err(_) => "~".to_string(),
        Ok(m) => format!("ok {} {} {} {}", hexs(&m.type_), hexs(&m.subtype), show_params(&m.parameters), show_views(&m, &q)),
    })
}

fn impl_mime(t: &str, st: &str, ps: &str, q: &str) -> String {
    let m = Mime { type_: unhexs(t), subtype: unhexs(st), parameters: parse_params(ps) };
    let q = unhexs(q);
    guarded(move || show_views(&m, &q))
}

const TABLE_SCOPE: u32 = 0x120;

fn impl_tables() -> String {
    guarded(|| {
        // token: a one-character type is accepted
        let tok: String = (0u32..256)
            .map(|c| {
                let c = char::from_u32(c).unwrap();
                if format!("{}/x", c).parse::<Mime>().is_ok() { '1' } else { '0' }
            })
            .collect();
        // whitespace: stripped around the whole input
        let ws: String = (0..TABLE_SCOPE)
            .map(|c| {
                let c = char::from_u32(c).unwrap();
                match format!("{}a/b{}", c, c).parse::<Mime>() {
                    Ok(m) if m.type_ == "a" && m.subtype == "b" && m.parameters.is_empty() => '1',
                    _ => '0',
                }
            })
            .collect();
        // valid_value: a quoted value holding the character is kept
        let vv: String = (0..TABLE_SCOPE)
            .map(|c| {
                let c = char::from_u32(c).unwrap();
                match format!("a/b;x=\"{}\"", c).parse::<Mime>() {
                    Ok(m) if !m.parameters.is_empty() => '1',
                    _ => '0',
                }
            })
            .collect();
        // escaped by Display
        let esc: Vec<u32> = (0..TABLE_SCOPE)
            .filter(|&c| {
                let ch = char::from_u32(c).unwrap();
                let m = Mime { type_: "a".into(), subtype: "b".into(), parameters: vec![("x".into(), format!("{} ", ch))] };
                let d = m.to_string();
                d.chars().count() != "a/b;x=\"? \"".chars().count()
            })
            .collect();
        format!("{} {} {} {}", tok, ws, vv, hexl(esc))
    })
}

fn impl_request(req: &str) -> String {
    let w: Vec<&str> = req.split(' ').collect();
    match (w[0], w.len()) {
        ("parse", 3) => impl_parse(&unhexs(w[1]), &unhexs(w[2])),
        ("mime", 5) => impl_mime(w[1], w[2], w[3], w[4]),
        ("tables", 1) => impl_tables(),
        _ => "?".into(),
    }
}

fn signature(req: &str, out: &str) -> (bool, String) {
    let w: Vec<&str> = req.split(' ').collect();
    let o: Vec<&str> = out.split(' ').collect();
    match w[0] {
        "parse" if o[0] == "ok" && o.len() >= 7 => {
            let np = if o[3] == "_" { 0 } else { o[3].split(',').count().min(3) };
            let d = unhexs(o[4]);
            let src = unhexs(w[1]);
            let quoted = d.contains('"');
            let escaped = d.contains('\\');
            let semi_in_value = o[3].split(',').any(|nv| nv.split('=').nth(1).map_or(false, |v| v.split('.').any(|h| h == "3b")));
            let same = d == src;
            let nonascii = !src.is_ascii();
            (
                true,
                format!(
                    "parse:ok:p{}:{}{}{}:{}:{}:g{}",
                    np,
                    if quoted { "q" } else { "-" },
                    if escaped { "e" } else { "-" },
                    if semi_in_value { "s" } else { "-" },
                    if same { "same" } else { "changed" },
                    if nonascii { "u" } else { "a" },
                    if o[5] == "~" { 0 } else { 1 }
                ),
            )
        }
        "parse" => (false, format!("parse:{}", if out == "~" { "none" } else { out })),
        "mime" if o.len() >= 3 => {
            let d = unhexs(o[0]);
            (true, format!("mime:{}{}:g{}", if d.contains('"') { "q" } else { "-" }, if d.contains('\\') { "e" } else { "-" }, if o[1] == "~" { 0 } else { 1 }))
        }
        other => (true, other.to_string()),
    }
}

fn compare(drv: &mut Driver, rep: &mut Report, stream: &str, req: &str) {
    let model = drv.ask(req);
    let imp = impl_request(req);
    let (nt, sig) = signature(req, &imp);
    rep.case(stream, req, &model, &imp, nt, &sig);
}

// ---------------------------------------------------------------- generators
/// one representative per case split of the code: lower / upper token char, the four delimiters,
/// backslash, whitespace, a non-ASCII char inside valid_value (U+00E9), a non-token control (U+007F)
const CLASSES: [char; 10] = ['a', 'A', '/', ';', '=', '"', '\\', ' ', '\u{e9}', '\u{7f}'];
const TOKEN_CHARS: &[u8] = b"abcxyzABCXYZ0123456789!#$%&'*+-.^_`|~";
const NAME_POOL: [&str; 14] = ["a", "A", "b", "charset", "CHARSET", "Charset", "x-y", "X-Y", "", "a b", "\u{e9}", "a\u{e9}", "q", "a/"];
const WS: [&str; 6] = ["", "", " ", "\t", "\n", " \r\n"];

fn pick_s(rng: &mut Rng, xs: &[&'static str]) -> &'static str {
    xs[rng.below(xs.len())]
}

fn req_parse(s: &str, q: &str) -> String {
    format!("parse {} {}", hexs(s), hexs(q))
}

fn gen_token(rng: &mut Rng) -> String {
    let n = 1 + rng.below(5);
    (0..n).map(|_| *rng.pick(TOKEN_CHARS) as char).collect()
}

fn gen_name(rng: &mut Rng) -> String {
    if rng.chance(3, 5) { pick_s(rng, &NAME_POOL).to_string() } else { gen_token(rng) }
}

fn gen_quoted_body(rng: &mut Rng) -> String {
    let atoms: [&str; 22] = [
        "a", "B", "1", " ", "\t", ";", ";;", "=", "\\\"", "\\\\", "\\a", "\\;", "\\", "\u{e9}", "\u{ff}", "\u{100}", "\u{7f}", ",", "/", "\n", "\u{1f600}", "\u{0}",
    ];
    let n = rng.below(7);
    (0..n).map(|_| pick_s(rng, &atoms)).collect()
}

fn gen_value(rng: &mut Rng) -> String {
    match rng.below(8) {
        0 | 1 => gen_token(rng),
        2 | 3 => {
            let mut s = String::from("\"");
            s.push_str(&gen_quoted_body(rng));
            if rng.chance(4, 5) {
                s.push('"');
                if rng.chance(1, 4) {
                    s.push_str(pick_s(rng, &["x", " ", "\"", "\\", "=y"]));
                }
            }
            s
        }
        4 => {
            // unquoted, not a token
            let atoms: [&str; 12] = ["a", " ", "\"", "\\", "=", "\u{e9}", "\u{100}", "\u{7f}", "/", "(", "\t", "b c"];
            let n = 1 + rng.below(4);
            (0..n).map(|_| pick_s(rng, &atoms)).collect()
        }
        5 => String::new(),
        6 => "\"\"".to_string(),
        _ => format!("{}{}", gen_token(rng), pick_s(rng, &WS)),
    }
}

fn gen_param(rng: &mut Rng) -> String {
    let mut s = String::new();
    s.push_str(pick_s(rng, &WS));
    s.push_str(&gen_name(rng));
    if rng.chance(1, 10) {
        s.push_str(pick_s(rng, &WS));
    }
    if rng.chance(9, 10) {
        s.push('=');
        s.push_str(&gen_value(rng));
    }
    s.push_str(pick_s(rng, &WS));
    s
}

fn gen_mime(rng: &mut Rng) -> String {
    let mut s = String::new();
    s.push_str(pick_s(rng, &WS));
    s.push_str(&gen_token(rng));
    s.push('/');
    s.push_str(&gen_token(rng));
    s.push_str(pick_s(rng, &WS));
    let k = rng.below(5);
    for _ in 0..k {
        s.push(';');
        s.push_str(&gen_param(rng));
    }
    if rng.chance(1, 8) {
        s.push(';');
    }
    s.push_str(pick_s(rng, &WS));
    s
}

fn mutate(rng: &mut Rng, s: &str) -> String {
    let mut v: Vec<char> = s.chars().collect();
    let k = 1 + rng.below(3);
    let ins: [char; 16] = ['/', ';', '=', '"', '\\', ' ', '\t', '\n', '\r', 'A', 'a', '\u{e9}', '\u{7f}', '\u{0}', '\u{2028}', ','];
    for _ in 0..k {
        let pos = rng.below(v.len() + 1);
        match rng.below(4) {
            0 if !v.is_empty() => {
                v.remove(pos.min(v.len() - 1));
            }
            1 if !v.is_empty() => {
                let p = pos.min(v.len() - 1);
                let c = v[p];
                v.insert(p, c);
            }
            2 if v.len() >= 2 => {
                let p = pos.min(v.len() - 2);
                v.swap(p, p + 1);
            }
            _ => v.insert(pos, *rng.pick(&ins)),
        }
    }
    v.into_iter().collect()
}

fn gen_garbage(rng: &mut Rng) -> String {
    let n = rng.below(16);
    (0..n)
        .map(|_| match rng.below(8) {
            0 => *rng.pick(&CLASSES),
            1 => char::from_u32(rng.below(0x80) as u32).unwrap(),
            2 => char::from_u32(0x80 + rng.below(0x180) as u32).unwrap(),
            3 => *rng.pick(&['/', ';', '=', '"', '\\']),
            4 => *rng.pick(&['\u{d7ff}', '\u{e000}', '\u{ffff}', '\u{10000}', '\u{10ffff}', '\u{7ff}', '\u{800}']),
            _ => *rng.pick(TOKEN_CHARS) as char,
        })
        .collect()
}

fn gen_any_string(rng: &mut Rng) -> String {
    match rng.below(4) {
        0 => gen_token(rng),
        1 => gen_quoted_body(rng),
        2 => gen_garbage(rng),
        _ => pick_s(rng, &NAME_POOL).to_string(),
    }
}

fn req_mime(rng: &mut Rng) -> String {
    let t = gen_any_string(rng);
    let st = gen_any_string(rng);
    let k = rng.below(4);
    let ps: Vec<(String, String)> = (0..k).map(|_| (gen_name(rng), gen_any_string(rng))).collect();
    let q = pick_s(rng, &NAME_POOL).to_string();
    format!("mime {} {} {} {}", hexs(&t), hexs(&st), show_params(&ps), hexs(&q))
}

fn wpt_inputs() -> Vec<String> {
    let repo = std::env::var("VERIF_REPO").unwrap_or_else(|_| "/repo".to_string());
    let mut out = vec![];
    for f in ["mime-types.json", "generated-mime-types.json"] {
        let p = format!("{}/data-url/tests/{}", repo, f);
        if let Ok(txt) = std::fs::read_to_string(&p) {
            if let Ok(serde_json::Value::Array(items)) = serde_json::from_str::<serde_json::Value>(&txt) {
                for it in items {
                    if let Some(i) = it.get("input").and_then(|v| v.as_str()) {
                        out.push(i.to_string());
                    }
                    if let Some(o) = it.get("output").and_then(|v| v.as_str()) {
                        out.push(o.to_string());
                    }
                }
            }
        }
    }
    out
}

const PREFIXES: [(&str, usize); 4] = [("a/b;", 0), ("a/b;a=\"", 1), ("a/b;a=1;", 1), ("a/b;a=\"\\\";", 2)];

fn exhaustive<F: FnMut(&str, String)>(thorough: bool, mut f: F) -> String {
    let base = if thorough { 6 } else { 5 };
    for_all_strings(&CLASSES, base, |s| {
        let s: String = s.iter().collect();
        f("exh-classes", s);
    });
    for (pre, less) in PREFIXES {
        let stream = format!("exh-prefix:{}", pre);
        for_all_strings(&CLASSES, base - less, |s| {
            let s: String = pre.chars().chain(s.iter().copied()).collect();
            f(&stream, s);
        });
    }
    format!(
        "parse: all strings of length <= {} over {{a,A,/,;,=,\",\\,space,U+00E9,U+007F}}; the same after the prefixes {}",
        base,
        PREFIXES.iter().map(|(p, l)| format!("{:?} (<= {})", p, base - l)).collect::<Vec<_>>().join(", ")
    )
}

fn run_corr(args: &Args) -> Report {
    let mut rep = Report::new();
    let mut drv = Driver::spawn(&args.driver);
    let thorough = args.tier == "thorough";
    let mut rng = Rng::new(args.seed);

    // tables as behaviour
    compare(&mut drv, &mut rep, "tables", "tables");

    // corpus: recorded cases, then the vendored WPT inputs and expected outputs
    if let Ok(txt) = std::fs::read_to_string(format!("{}/C19/cases.txt", args.file)) {
        for l in txt.lines().filter(|l| !l.is_empty() && !l.starts_with('#')) {
            compare(&mut drv, &mut rep, "corpus", l);
        }
    }
    let wpt = wpt_inputs();
    for s in &wpt {
        compare(&mut drv, &mut rep, "wpt", &req_parse(s, "charset"));
    }
    if wpt.is_empty() {
        rep.notes.push("no WPT mime-types json found under data-url/tests".into());
    }

    // exhaustive small scope
    let scope = exhaustive(thorough, |stream, s| {
        let q = if s.contains('A') { "a" } else { "A" };
        compare(&mut drv, &mut rep, stream, &req_parse(&s, q));
    });
    rep.exhaustive.push(scope);

    // structured mostly-valid, its serialization re-parsed, and mutations of it
    let n = if thorough { 600_000 } else { 40_000 };
    for _ in 0..n {
        let s = gen_mime(&mut rng);
        let q = pick_s(&mut rng, &NAME_POOL).to_string();
        compare(&mut drv, &mut rep, "rnd-structured", &req_parse(&s, &q));
        if rng.chance(1, 3) {
            if let Ok(m) = s.parse::<Mime>() {
                compare(&mut drv, &mut rep, "rnd-reparse", &req_parse(&m.to_string(), &q));
            }
        }
        if rng.chance(1, 2) {
            let t = mutate(&mut rng, &s);
            compare(&mut drv, &mut rep, "rnd-mutated", &req_parse(&t, &q));
        }
    }
    // mutations of the WPT corpus, and garbage
    for _ in 0..n / 4 {
        if !wpt.is_empty() {
            let k = rng.below(wpt.len());
            let t = mutate(&mut rng, &wpt[k]);
            compare(&mut drv, &mut rep, "rnd-wpt-mutated", &req_parse(&t, "charset"));
        }
        let g = gen_garbage(&mut rng);
        compare(&mut drv, &mut rep, "rnd-garbage", &req_parse(&g, "a"));
    }
    // Display / get_parameter of arbitrary Mime values (the fields are public)
    for _ in 0..n / 4 {
        let r = req_mime(&mut rng);
        compare(&mut drv, &mut rep, "rnd-mime-value", &r);
    }
    rep
}

// ---------------------------------------------------------------- property evaluated on the implementation
fn is_tchar(c: char) -> bool {
    c.is_ascii_alphanumeric() || "!#$%&'*+-.^_`|~".contains(c)
}
fn lower_token(s: &str) -> bool {
    !s.is_empty() && s.chars().all(|c| is_tchar(c) && !c.is_ascii_uppercase())
}
fn quoted_string_token_cp(c: char) -> bool {
    c == '\t' || (' '..='~').contains(&c) || ('\u{80}'..='\u{ff}').contains(&c)
}

/// the C19 statement on one input; None = holds
fn property_parse(s: &str) -> Option<String> {
    let s = s.to_string();
    let r = std::panic::catch_unwind(move || -> Option<String> {
        let m = match s.parse::<Mime>() {
            Err(_) => return None,
            Ok(m) => m,
        };
        if !lower_token(&m.type_) {
            return Some(format!("normal form: type {:?} is not a non-empty lower-case token", m.type_));
        }
        if !lower_token(&m.subtype) {
            return Some(format!("normal form: subtype {:?} is not a non-empty lower-case token", m.subtype));
        }
        for (i, (n, v)) in m.parameters.iter().enumerate() {
            if !lower_token(n) {
                return Some(format!("normal form: parameter name {:?} is not a non-empty lower-case token", n));
            }
            if m.parameters[..i].iter().any(|(n2, _)| n2 == n) {
                return Some(format!("normal form: duplicate parameter name {:?} in {:?}", n, m.parameters));
            }
            let head: String = v.chars().take_while(|&c| c != ';').collect();
            if !head.chars().all(quoted_string_token_cp) {
                return Some(format!("normal form: parameter value {:?} has a code point outside the quoted-string set before its first ';'", v));
            }
            if m.get_parameter(n.as_str()) != Some(v.as_str()) {
                return Some(format!("get_parameter({:?}) = {:?}, the list holds {:?}", n, m.get_parameter(n.as_str()), v));
            }
        }
        let d = m.to_string();
        match d.parse::<Mime>() {
            Ok(m2) if m2 == m => None,
            Ok(m2) => Some(format!("round trip: {:?} serializes to {:?} which parses to {:?}", m, d, m2)),
            Err(_) => Some(format!("round trip: {:?} serializes to {:?} which does not parse", m, d)),
        }
    });
    match r {
        Ok(x) => x,
        Err(_) => Some("panic".into()),
    }
}

fn property_of_request(req: &str) -> Option<String> {
    let w: Vec<&str> = req.split(' ').collect();
    match (w[0], w.len()) {
        ("parse", 3) => property_parse(&unhexs(w[1])),
        ("mime", 5) => {
            if impl_mime(w[1], w[2], w[3], w[4]) == "PANIC" { Some("panic in Display / get_parameter".into()) } else { None }
        }
        ("tables", 1) => {
            let t = impl_tables();
            let tok = t.split(' ').next().unwrap_or("");
            let want: String = (0u32..256).map(|c| if is_tchar(char::from_u32(c).unwrap()) { '1' } else { '0' }).collect();
            match tok.chars().zip(want.chars()).position(|(a, b)| a != b) {
                Some(i) => Some(format!(
                    "token set: the one-character type U+{:04X} in {:?} is {} but RFC 7230 tchar says {}",
                    i,
                    format!("{}/x", char::from_u32(i as u32).unwrap()),
                    if tok.as_bytes()[i] == b'1' { "accepted" } else { "rejected" },
                    if want.as_bytes()[i] == b'1' { "token" } else { "not a token" }
                )),
                None if tok.len() != want.len() => Some("token set: PANIC or short answer".into()),
                None => None,
            }
        }
        _ => None,
    }
}

fn run_search(args: &Args) -> Report {
    let mut rep = Report::new();
    let mut rng = Rng::new(args.seed ^ 0x5EA4C4);
    let try_req = |rep: &mut Report, req: String| {
        rep.evaluations += 1;
        if rep.failures.len() < 20 {
            if let Some(w) = property_of_request(&req) {
                rep.failures.push((req, w));
            }
        }
    };
    // the differing cases
    if let Ok(txt) = std::fs::read_to_string(&args.file) {
        for l in txt.lines().filter(|l| !l.is_empty()) {
            try_req(&mut rep, l.to_string());
        }
    }
    try_req(&mut rep, "tables".to_string());
    for s in wpt_inputs() {
        try_req(&mut rep, req_parse(&s, "charset"));
    }
    exhaustive(false, |_, s| try_req(&mut rep, req_parse(&s, "a")));
    for _ in 0..150_000 {
        if rep.failures.len() >= 20 {
            break;
        }
        let s = gen_mime(&mut rng);
        try_req(&mut rep, req_parse(&s, "a"));
        let t = mutate(&mut rng, &s);
        try_req(&mut rep, req_parse(&t, "a"));
        let g = gen_garbage(&mut rng);
        try_req(&mut rep, req_parse(&g, "a"));
        let r = req_mime(&mut rng);
        try_req(&mut rep, r);
    }
    // shrink: prefer the shortest failing request
    rep.failures.sort_by_key(|(c, _)| c.len());
    rep
}

fn run_known(_args: &Args) -> Report {
    let mut rep = Report::new();
    // F-C19-1 (fixed): duplicate parameter names differing in case
    let r = guarded(|| match "text/plain;A=1;A=2".parse::<Mime>() {
        Ok(m) => format!("{:?}", m.parameters),
        Err(_) => "parse error".to_string(),
    });
    let dup = match "text/plain;A=1;A=2".parse::<Mime>() {
        Ok(m) => m.parameters.iter().filter(|(n, _)| n == "a").count() >= 2,
        Err(_) => false,
    };
    rep.known.push(("F-C19-1".into(), dup, format!("\"text/plain;A=1;A=2\".parse::<Mime>() parameters: {}", r)));
    // F-C19-2 (deviation from the MIME Sniffing Standard, relevant to C17; not a clause of C19):
    // valid_value is applied to the raw first ';'-piece of a quoted value
    let show = |s: &str| match s.parse::<Mime>() {
        Ok(m) => format!("{:?}", m.parameters),
        Err(_) => "parse error".to_string(),
    };
    let keeps_ctl = "a/b;x=\"a;\u{1}\"".parse::<Mime>().map_or(false, |m| m.get_parameter("x") == Some("a;\u{1}"));
    let drops_x = "a/b;x=\"a\"\u{1}".parse::<Mime>().map_or(false, |m| m.get_parameter("x").is_none());
    rep.known.push((
        "F-C19-2".into(),
        keeps_ctl || drops_x,
        format!("a/b;x=\"a;<U+0001>\" -> {}; a/b;x=\"a\"<U+0001> -> {}", show("a/b;x=\"a;\u{1}\""), show("a/b;x=\"a\"\u{1}")),
    ));
    rep
}

fn run_replay(args: &Args) -> Report {
    let mut rep = Report::new();
    let txt = std::fs::read_to_string(&args.file).unwrap_or_default();
    let req = txt
        .split("\"request\":")
        .nth(1)
        .and_then(|s| s.split('"').nth(1))
        .unwrap_or("")
        .to_string();
    if req.is_empty() {
        rep.notes.push("replay file has no request (no-failing-input-found replay): nothing to re-run".into());
        return rep;
    }
    let imp = impl_request(&req);
    rep.notes.push(format!("request: {}", req));
    let w: Vec<&str> = req.split(' ').collect();
    if w[0] == "parse" && w.len() == 3 {
        rep.notes.push(format!("input: {:?}", unhexs(w[1])));
    }
    rep.notes.push(format!("implementation: {}", imp));
    if !args.driver.is_empty() {
        let mut drv = Driver::spawn(&args.driver);
        rep.notes.push(format!("model: {}", drv.ask(&req)));
    }
    rep.evaluations = 1;
    if let Some(w) = property_of_request(&req) {
        rep.failures.push((req, w));
    }
    rep
}

fn main() {
    quiet_panics();
    let args = parse_args();
    let rep = match args.mode.as_str() {
        "corr" => run_corr(&args),
        "search" => run_search(&args),
        "known" => run_known(&args),
        "replay" => run_replay(&args),
        m => panic!("unknown mode {}", m),
    };
    finish(&args, &rep);
}
