//! C06 - Url setters: atomic failure, frame condition, get-after-set, couplings.
//! Same streams and the same correspondence as urlhist.rs (bin `urlhist C06`); this bin exists because a
//! mutated setter can leave a record on which accessors (and `Url::host()`, used by the record token)
//! panic: every call into the crate is guarded here, a panicking accessor after a successful or
//! failed call is itself reported as a frame / atomicity violation, and the search-mode property
//! additionally evaluates get-after-set and the documented couplings on the implementation
//! (independent statements: std arithmetic on ports, `Url::parse` of the spliced text as oracle).
//! `--mode corr|search|known|replay  C06`.
use url::Url;
use verif_harness::urlops::*;
use verif_harness::urlprops::*;
use verif_harness::urlrec::*;
use verif_harness::*;

/// record token that cannot panic (Url::host() slices the serialization)
fn url_token_g(u: &Url) -> String {
    match std::panic::catch_unwind(std::panic::AssertUnwindSafe(|| url_token(u))) {
        Ok(t) => t,
        Err(_) => {
            let c = url::quirks::internal_components(u);
            format!("BROKEN-RECORD {} {:x},{:x},{:x},{:x},{:x}", hexs(u.as_str()), c.scheme_end, c.username_end, c.host_start, c.host_end, c.path_start)
        }
    }
}
fn impl_op_result_g(op: &Op, u: &Url) -> (String, Option<Url>) {
    match apply_guarded(op, u) {
        Some((c, st)) => (format!("{} {}", url_token_g(&c), st), Some(c)),
        None => ("panic".to_string(), None),
    }
}

fn default_port_of(scheme: &str) -> Option<u16> {
    match scheme {
        "http" | "ws" => Some(80),
        "https" | "wss" => Some(443),
        "ftp" => Some(21),
        _ => None,
    }
}

/// Rust twin of the Coq test `psm_skips` (Model/Setters.v; `seg_skipped (strip_tnl seg)` in Proofs/C06_SegPush.v): the
/// segments `PathSegmentsMut::extend` must skip - the TAB/LF/CR-free text, which is what the parser will see, is "."
/// or "..".  Before the repair of finding F-C06-7 only the literal "." / ".." were skipped and ".<TAB>." popped the
/// last segment; the oracle below expects the repaired behaviour for EVERY segment (no class is skipped any more).
fn seg_skipped(seg: &str) -> bool {
    let t: String = seg.chars().filter(|c| !matches!(c, '\t' | '\n' | '\r')).collect();
    matches!(t.as_str(), "." | "..")
}

/// one expected path segment: text kept from the old path, or the bytes a push must read back as once percent-decoded
#[derive(Clone, Debug)]
enum ExpSeg {
    Raw(String),
    Pushed(Vec<u8>),
}
impl ExpSeg {
    fn is_empty(&self) -> bool {
        match self {
            ExpSeg::Raw(s) => s.is_empty(),
            ExpSeg::Pushed(b) => b.is_empty(),
        }
    }
}

/// C06 frame of a path_segments_mut session on the SEGMENT LIST (C06_frame_segments_exact, stated independently of
/// the model: split('/') of the path and percent-decoding as the oracle): clear leaves one empty segment, pop /
/// pop_if_empty remove at most the last segment, push / extend append the segment (replace the single empty segment
/// of the path "/") and touch no other one; a pushed segment reads back, percent-decoded, as the UTF-8 bytes of the
/// argument without TAB/LF/CR and contains no '?' or '#'.
/// A segment whose TAB/LF/CR-free text is "." / ".." is skipped by extend (finding F-C06-7, fixed: no session is
/// left out of the search any more; the known mode reports a reproduction as a VIOLATION);
/// file URLs are evaluated only for sessions without push / extend (drive-letter rewriting is outside the theorem).
fn prop_c06_segments(before: &Url, ops: &[PsmOp], after: &Url) -> Option<String> {
    let pushes = ops.iter().any(|o| matches!(o, PsmOp::Push(_) | PsmOp::Extend(_)));
    if before.scheme() == "file" && pushes {
        return None;
    }
    let mut segs: Option<Vec<ExpSeg>> = before.path_segments().map(|it| it.map(|s| ExpSeg::Raw(s.to_string())).collect());
    let root = |v: &Option<Vec<ExpSeg>>| match v {
        None => true,
        Some(l) => l.len() == 1 && l[0].is_empty(),
    };
    let push = |segs: &mut Option<Vec<ExpSeg>>, s: &str| {
        if seg_skipped(s) {
            return;
        }
        let bytes: Vec<u8> = s.chars().filter(|c| !matches!(c, '\t' | '\n' | '\r')).collect::<String>().into_bytes();
        if root(segs) {
            *segs = Some(vec![ExpSeg::Pushed(bytes)]);
        } else if let Some(l) = segs.as_mut() {
            l.push(ExpSeg::Pushed(bytes));
        }
    };
    for o in ops {
        match o {
            PsmOp::Clear => {
                if segs.is_some() {
                    segs = Some(vec![ExpSeg::Raw(String::new())]);
                }
            }
            PsmOp::PopIfEmpty => {
                if let Some(l) = segs.as_mut() {
                    if l.len() > 1 && l[l.len() - 1].is_empty() {
                        l.pop();
                    }
                }
            }
            PsmOp::Pop => {
                if !root(&segs) {
                    if let Some(l) = segs.as_mut() {
                        l.pop();
                        if l.is_empty() {
                            l.push(ExpSeg::Raw(String::new()));
                        }
                    }
                }
            }
            PsmOp::Push(s) => push(&mut segs, s),
            PsmOp::Extend(ss) => {
                for s in ss {
                    push(&mut segs, s);
                }
            }
        }
    }
    let got: Option<Vec<String>> = after.path_segments().map(|it| it.map(|s| s.to_string()).collect());
    let show = |e: &ExpSeg| match e {
        ExpSeg::Raw(s) => format!("{:?}", s),
        ExpSeg::Pushed(b) => format!("push:{:?}", String::from_utf8_lossy(b)),
    };
    let bad = |why: &str| {
        Some(format!(
            "path_segments_mut session: segments {:?} -> {:?}, expected [{}] ({})",
            before.path_segments().map(|it| it.collect::<Vec<_>>()),
            got,
            segs.as_ref().map(|l| l.iter().map(show).collect::<Vec<_>>().join(", ")).unwrap_or_else(|| "no path".into()),
            why
        ))
    };
    match (&segs, &got) {
        (None, None) => None,
        (Some(e), Some(g)) => {
            if e.len() != g.len() {
                return bad("number of segments");
            }
            for (x, y) in e.iter().zip(g.iter()) {
                match x {
                    ExpSeg::Raw(s) => {
                        if s != y {
                            return bad("a segment that no operation names changed");
                        }
                    }
                    ExpSeg::Pushed(b) => {
                        let d: Vec<u8> = percent_encoding::percent_decode_str(y).collect();
                        if &d != b || y.contains(|c: char| matches!(c, '?' | '#')) {
                            return bad("a pushed segment does not read back as its argument");
                        }
                    }
                }
            }
            None
        }
        _ => bad("path presence"),
    }
}

/// get-after-set and couplings for one successful step, stated independently of the model
fn prop_c06_get(before: &Url, op: &Op, after: &Url, status: &str) -> Option<String> {
    if status != "ok" {
        return None;
    }
    match op {
        Op::SetPort(p) => {
            let want = match p {
                Some(x) if Some(*x) == default_port_of(before.scheme()) => None,
                o => *o,
            };
            if after.port() != want {
                return Some(format!("set_port({:?}) on scheme {} stored {:?}, expected {:?}", p, before.scheme(), after.port(), want));
            }
        }
        Op::SetScheme(s) => {
            // the scheme state stops at the first ':' (status ok means nothing follows it)
            let low = s.split(':').next().unwrap_or("").to_ascii_lowercase();
            let low: String = low.chars().filter(|c| !matches!(c, '\t' | '\n' | '\r')).collect();
            if after.scheme() != low {
                return Some(format!("set_scheme({:?}) reads back {:?}", s, after.scheme()));
            }
            let want = match before.port() {
                Some(x) if Some(x) == default_port_of(after.scheme()) => None,
                o => o,
            };
            if after.port() != want {
                return Some(format!("set_scheme({:?}): port {:?} -> {:?}, expected {:?}", s, before.port(), after.port(), want));
            }
        }
        Op::SetHost(None) if before.has_host() => {
            if !after.username().is_empty() || after.password().is_some() || after.host_str().is_some() || after.port().is_some() {
                return Some(format!(
                    "set_host(None) left username={:?} password={:?} host={:?} port={:?}",
                    after.username(), after.password(), after.host_str(), after.port()
                ));
            }
        }
        Op::SetFragment(Some(x)) => {
            // oracle: the parser on the serialization without fragment + '#' + x
            let mut base = before.clone();
            base.set_fragment(None);
            // (a trailing C0 control or space of the spliced text would be trimmed by the parser: no oracle then)
            if !before.cannot_be_a_base() && !x.ends_with(|c: char| c <= ' ') {
                if let Ok(v) = Url::parse(&format!("{}#{}", base.as_str(), x)) {
                    if v.fragment() != after.fragment() {
                        return Some(format!("set_fragment({:?}) reads back {:?}, the parser produces {:?}", x, after.fragment(), v.fragment()));
                    }
                }
            }
        }
        Op::SetFragment(None) => {
            if after.fragment().is_some() {
                return Some("set_fragment(None) left a fragment".into());
            }
        }
        Op::SetQuery(None) => {
            if after.query().is_some() {
                return Some("set_query(None) left a query".into());
            }
        }
        Op::SetQuery(Some(x)) if !x.contains('#') && !before.cannot_be_a_base() => {
            let mut base = before.clone();
            base.set_fragment(None);
            base.set_query(None);
            let t: &str = x.trim_matches(|c| matches!(c, '\t' | '\n' | '\r'));
            // the sentinel fragment keeps trailing spaces of the query text away from the end of the input
            if let Ok(v) = Url::parse(&format!("{}?{}#z", base.as_str(), t)) {
                if v.query() != after.query() {
                    return Some(format!("set_query({:?}) reads back {:?}, the parser produces {:?}", x, after.query(), v.query()));
                }
            }
        }
        Op::SetPassword(None) => {
            if after.password().is_some() {
                return Some("set_password(None) left a password".into());
            }
        }
        Op::Psm(ops) => return prop_c06_segments(before, ops, after),
        _ => {}
    }
    None
}

struct Ctx {
    drv: Driver,
    rep: Report,
    dbg: &'static str,
    prop: String,
    search: bool,
}

fn hist_case(start: &str, ops: &[Op]) -> String {
    let mut s = format!("hist {}", hexs(start));
    for o in ops {
        s.push_str(" ;; ");
        s.push_str(&o.token());
    }
    s
}

/// evaluate C06 on the implementation for one step (before --op--> after); a panic of any accessor
/// on `after` is a violation by itself (the model of the unchanged code never panics there)
fn property_on_step(_prop: &str, before: &Url, op: &Op, after: &Url, status: &str) -> Option<String> {
    let r = std::panic::catch_unwind(std::panic::AssertUnwindSafe(|| {
        prop_c06(before, op, after, status).or_else(|| prop_c06_get(before, op, after, status))
    }));
    match r {
        Ok(x) => x,
        Err(_) => Some(format!(
            "an accessor panics on the Url left by {} (status {}): {:?}",
            op.kind(), status, after.as_str()
        )),
    }
}
fn property_on_url(_prop: &str, _u: &Url) -> Option<String> {
    None
}

impl Ctx {
    /// one step: compare, return the implementation's new url (None after a panic) and whether it differed
    fn step(&mut self, stream: &str, start: &str, prefix: &[Op], u: &Url, op: &Op) -> (Option<Url>, bool) {
        let req = format!("op {} {} {}", self.dbg, url_token_g(u), op.token());
        let model = self.drv.ask_with(&req, url_oracle);
        let (imp, nu) = impl_op_result_g(op, u);
        let status = imp.rsplit(' ').next().unwrap_or("").to_string();
        let sig = format!("{}:{}:{}", op.kind(), status, shape(u));
        self.rep.case(stream, &req, &model, &imp, true, &sig);
        let differs = model != imp;
        // development aid (with VERIF_SEARCH_ALL): VERIF_SEARCH_KIND=<operation kind> evaluates steps of that kind only
        let kind_ok = std::env::var("VERIF_SEARCH_KIND").map_or(true, |k| op.kind() == k);
        if self.search && kind_ok && (differs || std::env::var("VERIF_SEARCH_ALL").is_ok()) {
            let mut ops = prefix.to_vec();
            ops.push(op.clone());
            match &nu {
                None => {
                    if self.rep.failures.len() < 20 {
                        self.rep.failures.push((hist_case(start, &ops), format!("panic in {} (the model of the unchanged code does not panic here)", op.kind())));
                    }
                }
                Some(a) => {
                    if let Some(w) = property_on_step(&self.prop, u, op, a, &status) {
                        if self.rep.failures.len() < 20 {
                            self.rep.failures.push((hist_case(start, &ops), w));
                        }
                    }
                }
            }
        }
        (nu, differs)
    }
    fn observe(&mut self, start: &str, ops: &[Op], u: &Url, full: bool) {
        let tok = url_token_g(u);
        if tok.starts_with("BROKEN-RECORD") {
            self.rep.case("getters", &format!("get {} {}", self.dbg, tok), "record", "broken", true, "get");
            return;
        }
        let mut any = false;
        let req = format!("get {} {}", self.dbg, tok);
        let m = self.drv.ask_with(&req, url_oracle);
        let g = getters_line(u);
        any |= m != g;
        self.rep.case("getters", &req, &m, &g, true, "get");
        let req = format!("qget {} {}", self.dbg, tok);
        let m = self.drv.ask_with(&req, url_oracle);
        let g = quirks_get_line(u);
        any |= m != g;
        self.rep.case("quirks-getters", &req, &m, &g, true, "qget");
        if full {
            let req = format!("ranges {} {}", self.dbg, tok);
            let m = self.drv.ask_with(&req, url_oracle);
            let g = positions_line(u);
            any |= m != g;
            self.rep.case("position-ranges", &req, &m, &g, true, "ranges");
        }
        // the structural invariant the C03 theorems assume, evaluated by the model on the reached record
        let w = self.drv.ask_with(&format!("wf {}", tok), url_oracle);
        self.rep.bump(&format!("wf_b:{}", w));
        if w != "1" {
            let last = ops.last().map(|o| o.kind()).unwrap_or_else(|| "parse".into());
            let key = format!("wf_b-false-after:{}:{}", last, shape(u));
            self.rep.bump(&key);
            if self.rep.histogram.get(&key) == Some(&1) && self.rep.notes.len() < 40 {
                self.rep.notes.push(format!("reached record outside wf_b: {} ({})", u.as_str(), hist_case(start, ops)));
            }
        }
        if self.search && any {
            if let Some(wh) = property_on_url(&self.prop, u) {
                if self.rep.failures.len() < 20 {
                    self.rep.failures.push((hist_case(start, ops), wh));
                }
            }
        }
    }
}

fn shape(u: &Url) -> String {
    let g = std::panic::catch_unwind(std::panic::AssertUnwindSafe(|| {
        format!(
            "{}{}{}{}{}{}",
            if u.cannot_be_a_base() { "o" } else if u.scheme() == "file" { "f" } else if u.is_special() { "s" } else { "n" },
            if u.has_authority() { "A" } else { "-" },
            if !u.username().is_empty() || u.password().is_some() { "C" } else { "-" },
            if u.port().is_some() { "P" } else { "-" },
            if u.query().is_some() { "Q" } else { "-" },
            if u.fragment().is_some() { "F" } else { "-" }
        )
    }));
    g.unwrap_or_else(|_| "broken".into())
}

fn run_streams(args: &Args, search: bool) -> Report {
    let dbg = if cfg!(debug_assertions) { "1" } else { "0" };
    let prop = args.extra.first().cloned().unwrap_or_else(|| "C02".into());
    let mut cx = Ctx { drv: Driver::spawn(&args.driver), rep: Report::new(), dbg, prop: prop.clone(), search };
    let thorough = args.tier == "thorough" || search;
    let mut rng = Rng::new(args.seed ^ fnv_str(&prop));
    let starts = start_pool();

    // corpus of histories (minimised past failures): "hist <start> ;; op ;; op"
    if let Ok(txt) = std::fs::read_to_string(format!("{}/{}/cases.txt", args.file, prop)) {
        for l in txt.lines().filter(|l| l.starts_with("hist ")) {
            replay_history(&mut cx, "corpus", l);
        }
    }
    // after a break: the differing requests found by the quick run come first
    if search {
        if let Ok(txt) = std::fs::read_to_string(&args.file) {
            for l in txt.lines().filter(|l| l.starts_with("hist ")) {
                replay_history(&mut cx, "differing", l);
            }
        }
    }

    // exhaustive: every start x every single operation x every pool argument
    let singles = all_single_ops();
    for u in &starts {
        cx.observe(u.as_str(), &[], u, true);
        for op in &singles {
            let (nu, differs) = cx.step("exh-start-x-op-x-arg", u.as_str(), &[], u, op);
            if let Some(nu) = nu {
                if differs || cx.rep.evaluations % 7 == 0 {
                    let full = differs || cx.rep.evaluations % 49 == 0;
                    cx.observe(u.as_str(), std::slice::from_ref(op), &nu, full);
                }
            }
        }
    }
    cx.rep.exhaustive.push(format!(
        "{} start URLs x {} single operations (every operation kind x every pool argument)",
        starts.len(),
        singles.len()
    ));

    // histories
    let n = if search { 30_000 } else if thorough { 120_000 } else { 8_000 };
    for _ in 0..n {
        if search && cx.rep.failures.len() >= 20 {
            break;
        }
        let (start, mut u) = if rng.chance(1, 2) {
            let u = starts[rng.below(starts.len())].clone();
            (u.as_str().to_string(), u)
        } else {
            let s = random_url_string(&mut rng);
            match Url::parse(&s) {
                Ok(u) => (s, u),
                Err(_) => {
                    let u = starts[rng.below(starts.len())].clone();
                    (u.as_str().to_string(), u)
                }
            }
        };
        let len = 1 + rng.below(8);
        let mut ops: Vec<Op> = Vec::new();
        for k in 0..len {
            let op = random_op(&mut rng, false);
            let (nu, differs) = cx.step("history", &start, &ops, &u, &op);
            ops.push(op);
            match nu {
                Some(nu) => u = nu,
                None => break,
            }
            if differs || k == len - 1 || rng.chance(1, 4) {
                cx.observe(&start, &ops, &u, differs || rng.chance(1, 6));
            }
        }
    }
    cx.rep.failures.sort_by_key(|(c, _)| c.len());
    cx.rep
}

fn fnv_str(s: &str) -> u64 {
    s.bytes().fold(0xcbf29ce484222325u64, |h, b| (h ^ b as u64).wrapping_mul(0x100000001b3))
}

fn parse_history(line: &str) -> Option<(String, Vec<Op>)> {
    let mut parts = line.split(" ;; ");
    let head = parts.next()?;
    let start = unhexs(head.strip_prefix("hist ")?);
    let ops: Option<Vec<Op>> = parts.map(Op::from_token).collect();
    Some((start, ops?))
}

fn replay_history(cx: &mut Ctx, stream: &str, line: &str) -> Option<Url> {
    let (start, ops) = parse_history(line)?;
    let mut u = Url::parse(&start).ok()?;
    let mut done: Vec<Op> = Vec::new();
    for op in &ops {
        let (nu, _) = cx.step(stream, &start, &done, &u, op);
        done.push(op.clone());
        u = nu?;
        cx.observe(&start, &done, &u, true);
    }
    Some(u)
}

fn run_known(args: &Args) -> Report {
    let mut rep = Report::new();
    let prop = args.extra.first().cloned().unwrap_or_default();
    let g = |f: &(dyn Fn() -> String + std::panic::RefUnwindSafe)| guarded(f);
    if prop == "C03" || prop == "C06" {
        // fixed: set_host(None) left the host kind set
        let r = g(&|| {
            let mut u = Url::parse("file://1.2.3.4/").unwrap();
            let _ = u.set_host(None);
            format!("{} has_host={} host_str={:?}", u, u.has_host(), u.host_str())
        });
        rep.known.push(("F-C06-3".into(), r.contains("has_host=true") || r == "PANIC", r));
    }
    if prop == "C03" {
        let r = g(&|| {
            let u = Url::parse("foo://").unwrap();
            let a = format!("{:?}", &u[url::Position::BeforePassword..]);
            let v = Url::parse("http://user@host/").unwrap();
            format!("{} {:?}", a, &v[url::Position::BeforePassword..url::Position::AfterPassword])
        });
        rep.known.push(("F-C03-1".into(), r == "PANIC" || r.contains('@'), r));
        let r = g(&|| {
            let u = Url::parse("a://h").unwrap();
            format!("cannot_be_a_base={} path_segments_is_none={}", u.cannot_be_a_base(), u.path_segments().is_none())
        });
        rep.known.push(("F-C03-4".into(), r == "cannot_be_a_base=false path_segments_is_none=true", r));
    }
    // open findings shared by C02/C03/C05/C06: each is replayed for every property it is listed under
    let wit = |rep: &mut Report, id: &str, props: &[&str], start: &str, op: Op, bad: &(dyn Fn(&Url) -> bool + std::panic::RefUnwindSafe)| {
        if !props.contains(&prop.as_str()) {
            return;
        }
        let start_s = start.to_string();
        let opc = op.clone();
        let r = std::panic::catch_unwind(std::panic::AssertUnwindSafe(|| {
            let mut u = Url::parse(&start_s).unwrap();
            let _ = opc.apply(&mut u);
            u
        }));
        match r {
            Ok(u) => rep.known.push((id.to_string(), bad(&u), format!("{} -> {} -> {}", start, op.kind(), u.as_str()))),
            Err(_) => rep.known.push((id.to_string(), true, format!("{} -> {} -> panic", start, op.kind()))),
        }
    };
    wit(&mut rep, "F-C03-5", &["C02", "C03", "C06"], "non-spec:/.//double",
        Op::SetIpHost(std::net::IpAddr::V4(std::net::Ipv4Addr::new(127, 0, 0, 1))),
        &|u| u.as_str() == "non-spec://127.0.0.1/.//double" && u.path() == "//double");
    wit(&mut rep, "F-C02-3", &["C02", "C03", "C05", "C06"], "about:blank", Op::SetPath("#f".into()),
        &|u| u.as_str() == "about:#f" && u.fragment().is_none());
    wit(&mut rep, "F-C02-2", &["C02", "C03", "C06"], "a://host//x", Op::SetHost(None), &|u| u.as_str() == "a://x");
    wit(&mut rep, "F-C02-8", &["C02", "C03", "C06"], "a:/p", Op::SetPath("//x".into()), &|u| u.as_str() == "a://x");
    // fixed (0cfc9d8): set_path on a cannot-be-a-base URL tested for the leading '/' before tab/LF/CR removal
    wit(&mut rep, "F-C06-6", &["C02", "C03", "C05", "C06"], "a:b", Op::SetPath("\t/ y".into()),
        &|u| !u.cannot_be_a_base() || u.as_str() == "a:/ y");
    // fixed (9cd6187): push(".<TAB>.") was not skipped by extend() (only the literal "." / ".." were), the parser's input
    // dropped the TAB and the path state read "..": the last segment was popped
    wit(&mut rep, "F-C06-7", &["C06"], "http://h/a/b", Op::Psm(vec![PsmOp::Push(".\t.".into())]),
        &|u| u.as_str() == "http://h/a/");
    rep
}

fn run_replay(args: &Args) -> Report {
    let dbg = if cfg!(debug_assertions) { "1" } else { "0" };
    let prop = args.extra.first().cloned().unwrap_or_else(|| "C02".into());
    let txt = std::fs::read_to_string(&args.file).unwrap_or_default();
    let req = txt.split("\"request\":").nth(1).and_then(|s| s.split('"').nth(1)).unwrap_or("").to_string();
    let mut cx = Ctx { drv: Driver::spawn(&args.driver), rep: Report::new(), dbg, prop: prop.clone(), search: false };
    if req.is_empty() {
        cx.rep.notes.push("replay file has no request (no-failing-input-found replay): nothing to re-run".into());
        return cx.rep;
    }
    if let Some((start, ops)) = parse_history(&req) {
        cx.rep.notes.push(format!("start: {:?}", start));
        if let Ok(mut u) = Url::parse(&start) {
            if ops.is_empty() {
                if let Some(w) = property_on_url(&prop, &u) {
                    cx.rep.failures.push((req.clone(), w));
                }
            }
            for (i, op) in ops.iter().enumerate() {
                let before = u.clone();
                let mreq = format!("op {} {} {}", dbg, url_token_g(&u), op.token());
                let model = cx.drv.ask_with(&mreq, url_oracle);
                let (imp, nu) = impl_op_result_g(op, &u);
                cx.rep.notes.push(format!("step {} {}: implementation {} | model {}", i + 1, op.token(), imp, model));
                match nu {
                    None => {
                        cx.rep.failures.push((req.clone(), format!("panic in {}", op.kind())));
                        break;
                    }
                    Some(a) => {
                        let status = imp.rsplit(' ').next().unwrap_or("").to_string();
                        if i + 1 == ops.len() {
                            if let Some(w) = property_on_step(&prop, &before, op, &a, &status) {
                                cx.rep.failures.push((req.clone(), w));
                            }
                        }
                        u = a;
                    }
                }
            }
            cx.rep.notes.push(format!("final: {:?}", u.as_str()));
        }
    }
    cx.rep.evaluations = 1;
    cx.rep
}

fn main() {
    quiet_panics();
    let args = parse_args();
    let rep = match args.mode.as_str() {
        "corr" => run_streams(&args, false),
        "search" => run_streams(&args, true),
        "known" => run_known(&args),
        "replay" => run_replay(&args),
        m => panic!("unknown mode {}", m),
    };
    finish(&args, &rep);
}
