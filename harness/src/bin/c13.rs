//! C13 - Punycode: correspondence model <-> idna::punycode, property search, known findings, replay.
use idna::punycode;
use verif_harness::*;

const CFG: &str = if cfg!(debug_assertions) { "1" } else { "0" };

fn show_opt_chars(o: Option<Vec<char>>) -> String {
    match o {
        Some(v) => format!("ok:{}", hexl(v.iter().map(|&c| c as u32))),
        None => "err".into(),
    }
}
fn show_opt_str(o: Option<String>) -> String {
    match o {
        Some(s) => format!("ok:{}", hexs(&s)),
        None => "err".into(),
    }
}
fn to_chars(xs: &[u32]) -> Option<Vec<char>> {
    xs.iter().map(|&x| char::from_u32(x)).collect()
}

// ---------------------------------------------------------------- implementation side
fn impl_enc(s: &[u32]) -> String {
    let cs = match to_chars(s) {
        Some(c) => c,
        None => return "?not-usv".into(),
    };
    let st: String = cs.iter().collect();
    let a = guarded(move || show_opt_str(punycode::encode(&cs)));
    let b = guarded(move || show_opt_str(punycode::encode_str(&st)));
    format!("{} {}", a, b)
}
fn impl_dec(bytes: &[u8]) -> String {
    let st = match std::str::from_utf8(bytes) {
        Ok(s) => s.to_string(),
        Err(_) => return "?not-utf8".into(),
    };
    let st2 = st.clone();
    let a = guarded(move || show_opt_chars(punycode::decode(&st)));
    let b = guarded(move || show_opt_str(punycode::decode_to_string(&st2)));
    format!("{} {}", a, b)
}
/// the internal-caller encoder observed through UTS #46 ToASCII on one label that UTS #46 leaves
/// unchanged (lower-case, NFC, valid, at most 1000 scalars, at least one non-ASCII)
fn impl_enci(s: &[u32]) -> String {
    let st: String = match to_chars(s) {
        Some(c) => c.iter().collect(),
        None => return "?not-usv".into(),
    };
    guarded(move || match idna::domain_to_ascii(&st) {
        Ok(a) => match a.strip_prefix("xn--") {
            Some(p) => format!("ok:{}", hexs(p)),
            None => format!("?no-prefix:{}", hexs(&a)),
        },
        Err(_) => "?uts46-error".into(),
    })
}
fn impl_tab() -> String {
    // digit tables observed through decode: the one-unit string [b] decodes (as the delta b) iff b is a
    // digit below the first threshold; digit values through two-unit strings are covered by the
    // exhaustive decode stream.  Here: which bytes are digits at all, observed as "decode(b ++ 'a') or
    // decode(b) is Some".
    let mut o = String::new();
    for b in 0u32..128 {
        let c = char::from_u32(b).unwrap();
        let one = punycode::decode(&c.to_string()).is_some();
        let two = punycode::decode(&format!("{}a", c)).is_some();
        o.push(if one || two { '1' } else { '0' });
    }
    o
}

fn impl_request(req: &str) -> String {
    let w: Vec<&str> = req.split(' ').collect();
    match w[0] {
        "enc" => impl_enc(&unhexl(w[2])),
        "enci" => impl_enci(&unhexl(w[2])),
        "dec" => impl_dec(&unhexb(w[2])),
        "known" => if known_c13(&unhexl(w[1])) { "1".into() } else { "0".into() },
        // the unbounded transcription against the harness's independent u128 reference
        "spec" if w[1] == "enc" => format!("ok:{}", hexs(&ref_encode(&unhexl(w[2])).0)),
        "spec" => match ref_decode(&unhexb(w[2])) {
            RefDec::Ok(v) => format!("ok:{}", hexl(v)),
            RefDec::Malformed => "err".into(),
            // beyond 32 bits the reference stops; the transcription goes on
            RefDec::Overflow32 => "?overflow32".into(),
        },
        _ => "?".into(),
    }
}

fn bucket(n: usize) -> &'static str {
    match n {
        0 => "0",
        1 => "1",
        2..=4 => "2-4",
        5..=16 => "5-16",
        17..=63 => "17-63",
        64..=1000 => "64-1000",
        1001..=3800 => "1001-3800",
        _ => ">3800",
    }
}
fn signature(req: &str, out: &str) -> (bool, String) {
    let w: Vec<&str> = req.split(' ').collect();
    let o: Vec<&str> = out.split(' ').collect();
    let cls = |r: &str| if r.starts_with("ok") { "ok" } else if r == "err" { "err" } else { "other" }.to_string();
    match w[0] {
        "enc" => {
            let s = unhexl(w[2]);
            let nb = s.iter().filter(|&&c| c >= 128).count();
            let mut d: Vec<u32> = s.iter().copied().filter(|&c| c >= 128).collect();
            d.sort();
            d.dedup();
            (!s.is_empty(), format!("enc:{}:len{}:nb{}:dist{}", cls(o[0]), bucket(s.len()), bucket(nb), bucket(d.len())))
        }
        "enci" => (true, format!("enci:{}:len{}", cls(o[0]), bucket(unhexl(w[2]).len()))),
        "dec" => {
            let b = unhexb(w[2]);
            let delim = b.iter().filter(|&&c| c == b'-').count().min(2);
            let outlen = if o[0].starts_with("ok:") { unhexl(&o[0][3..]).len() } else { 0 };
            (!b.is_empty(), format!("dec:{}:len{}:delim{}:out{}:ascii{}", cls(o[0]), bucket(b.len()), delim, bucket(outlen), b.is_ascii()))
        }
        "known" => (true, format!("known:{}", out)),
        "spec" => (true, format!("spec:{}:{}", w[1], cls(o[0]))),
        other => (true, other.to_string()),
    }
}

fn compare(drv: &mut Driver, rep: &mut Report, stream: &str, req: &str) {
    let mut model = drv.ask(req);
    let imp = impl_request(req);
    if imp == "?overflow32" {
        model = imp.clone(); // not comparable: the u128 reference gives up where u32 would
    }
    let (nt, sig) = signature(req, &imp);
    rep.case(stream, req, &model, &imp, nt, &sig);
}
fn enc_req(s: &[u32]) -> String {
    format!("enc {} {}", CFG, hexl(s.iter().copied()))
}
fn dec_req(b: &[u8]) -> String {
    format!("dec {} {}", CFG, hexb(b))
}

// ---------------------------------------------------------------- generators
const ENC_ALPHABET: [u32; 8] = [0x61, 0x2d, 0x80, 0xfc, 0x100, 0xffff, 0x10000, 0x10ffff];
const DEC_ALPHABET: [u8; 7] = [b'a', b'z', b'A', b'0', b'9', b'-', b'!'];
const INTERNAL_ALPHABET: [u32; 9] = [0x61, 0x62, 0x7a, 0x30, 0xfc, 0xe9, 0x4e2d, 0x3042, 0x20000];

fn random_scalar(rng: &mut Rng) -> u32 {
    loop {
        let c = match rng.below(8) {
            0 => 0x20 + rng.below(0x5f) as u32,
            1 => 0x80 + rng.below(0x80) as u32,
            2 => 0x100 + rng.below(0x700) as u32,
            3 => 0x800 + rng.below(0xf800) as u32,
            4 => 0x10000 + rng.below(0x100000) as u32,
            5 => *rng.pick(&[0x7f, 0x80, 0xd7ff, 0xe000, 0xffff, 0x10000, 0x10ffff, 0x10fffe]),
            6 => rng.below(0x80) as u32,
            _ => 0x4e00 + rng.below(0x100) as u32,
        };
        if char::from_u32(c).is_some() {
            return c;
        }
    }
}
/// sequences with repeated / ordered / reverse-ordered / clustered code points
fn random_seq(rng: &mut Rng, maxlen: usize) -> Vec<u32> {
    let n = rng.below(maxlen + 1);
    let shape = rng.below(7);
    let pool: Vec<u32> = (0..1 + rng.below(6)).map(|_| random_scalar(rng)).collect();
    let mut v: Vec<u32> = (0..n)
        .map(|_| match shape {
            0 => random_scalar(rng),
            1 | 2 | 3 => *rng.pick(&pool),
            4 => {
                let b = *rng.pick(&pool);
                let c = b.saturating_add(rng.below(4) as u32);
                if char::from_u32(c).is_some() { c } else { b }
            }
            5 => if rng.chance(3, 4) { 0x61 + rng.below(26) as u32 } else { *rng.pick(&pool) },
            _ => if rng.chance(1, 8) { 0x2d } else { random_scalar(rng) },
        })
        .collect();
    match rng.below(5) {
        0 => v.sort(),
        1 => {
            v.sort();
            v.reverse()
        }
        _ => {}
    }
    v
}
fn random_decode_input(rng: &mut Rng, maxlen: usize) -> Vec<u8> {
    let n = rng.below(maxlen + 1);
    let mut s = String::new();
    for _ in 0..n {
        match rng.below(12) {
            0 => s.push('-'),
            1 | 2 | 3 => s.push((b'a' + rng.below(26) as u8) as char),
            4 | 5 => s.push((b'0' + rng.below(10) as u8) as char),
            6 => s.push((b'A' + rng.below(26) as u8) as char),
            7 => s.push(*rng.pick(&['9', '9', 'z', 'a', 'b', '0'])),
            8 => s.push(char::from_u32(random_scalar(rng)).unwrap()),
            9 => s.push(*rng.pick(&['!', '.', '_', ' ', '@', '[', '`', '{', '/', ':', '\u{7f}', '\0'])),
            _ => s.push((b'a' + rng.below(26) as u8) as char),
        }
    }
    s.into_bytes()
}
/// mutate a valid encoding: flip case, change/insert/delete a digit, truncate
fn mutate(rng: &mut Rng, p: &str) -> Vec<u8> {
    let mut b = p.as_bytes().to_vec();
    for _ in 0..1 + rng.below(3) {
        if b.is_empty() {
            b.push(b'a');
            continue;
        }
        let i = rng.below(b.len());
        match rng.below(6) {
            0 => b[i] = if b[i].is_ascii_lowercase() { b[i].to_ascii_uppercase() } else { b[i].to_ascii_lowercase() },
            1 => b[i] = *rng.pick(b"az09-AZ"),
            2 => b.insert(i, *rng.pick(b"az09-")),
            3 => {
                b.remove(i);
            }
            4 => b.truncate(i),
            _ => {
                let tails: [&[u8]; 4] = [b"9999999", b"zzzzz", b"-", b"a"];
                b.extend_from_slice(tails[rng.below(4)])
            }
        }
    }
    b
}
fn boundary_family(thorough: bool) -> Vec<Vec<u32>> {
    let mut v = Vec::new();
    let lens: Vec<usize> = if thorough { (3850..=3860).collect() } else { vec![3854, 3855, 3856] };
    let highs: &[u32] = &[0x10fe4f, 0x10ffff];
    for &n in &lens {
        for &h in highs {
            let mut s = vec![0x80u32; n];
            s.push(h);
            v.push(s);
            if thorough {
                let mut s = vec![0x61u32; n];
                s.push(h);
                v.push(s);
                let mut s = vec![0x80u32; n];
                s.insert(n / 2, h);
                v.push(s);
            }
        }
    }
    // deltas of 7, 8 and 9 digits that still decode to a VALID scalar: many basic code points and one high
    // code point, so that delta = (high - 0x80) * (n + 1) + pos lies between 35^2 * 10^4 and 2^32 while
    // delta / (n + 1) stays below 0x110000 (a decoder whose weight check is too strict returns None here)
    // the lowest non-ASCII code point twice with n basic code points between, then a higher one
    for n in [1usize, 10, 30, 33, 35, 40, 60, 200] {
        let mut s = vec![0xe9u32];
        s.extend(std::iter::repeat(0x61u32).take(n));
        s.push(0xe9);
        s.push(0xfc);
        v.push(s);
    }
    let ns: &[usize] = if thorough { &[30, 300, 1000, 2000, 3000, 3177, 3300, 3501, 3700, 3854] } else { &[300, 3000, 3300, 3501, 3854] };
    for &n in ns {
        for &h in &[0xffffu32, 0x10ffff] {
            let mut s = vec![0x61u32; n];
            s.push(h);
            v.push(s);
            let mut s = vec![0x61u32; n];
            s.insert(0, h);
            v.push(s);
        }
    }
    v
}
/// digits (lower case) of `delta` as a generalized variable-length integer for a given bias
fn vli_digits(delta: u128, bias: u128) -> String {
    let mut out = String::new();
    let mut q = delta;
    let mut k = 36;
    loop {
        let t = ref_t(k, bias);
        if q < t {
            break;
        }
        out.push(ref_digit_char(t + (q - t) % (36 - t)));
        q = (q - t) / (36 - t);
        k += 36;
    }
    out.push(ref_digit_char(q));
    out
}
/// decoder inputs whose first delta lands the code point / the index on a boundary:
/// surrogates, char::MAX, and the u32 limit of i and of code_point + i / (length + 1)
fn targeted_decode_inputs(rng: &mut Rng, n: usize) -> Vec<Vec<u8>> {
    let targets: [u128; 14] = [
        0x80, 0x81, 0xd7ff, 0xd800, 0xdfff, 0xe000, 0x10ffff, 0x110000, 0x110001,
        (1u128 << 32) - 1, 1u128 << 32, (1u128 << 32) + 0x7f, (1u128 << 32) + 0x80, (1u128 << 32) + 0x81,
    ];
    let mut v = Vec::new();
    for _ in 0..n {
        let l = rng.below(4) as u128;
        let target = *rng.pick(&targets);
        let mut delta = (target - 0x80) * (l + 1) + rng.below(l as usize + 1) as u128;
        match rng.below(8) {
            0 => delta = delta.saturating_sub(1 + rng.below(3) as u128),
            1 => delta += 1 + rng.below(3) as u128,
            // far beyond 32 bits: digit * weight itself overflows, the wrapped sum may not
            2 | 3 => delta = (1u128 << 32) + (rng.next() % 45_000_000_000) as u128,
            _ => {}
        }
        let mut b: Vec<u8> = (0..l).map(|_| b'a' + rng.below(26) as u8).collect();
        if l > 0 {
            b.push(b'-');
        }
        b.extend_from_slice(vli_digits(delta, 72).as_bytes());
        if rng.chance(1, 3) {
            // a second, small delta after it
            b.extend_from_slice(vli_digits(rng.below(40) as u128, 0).as_bytes());
        }
        if rng.chance(1, 8) {
            let i = rng.below(b.len());
            b[i] = b[i].to_ascii_uppercase();
        }
        v.push(b);
    }
    // long basic part, one delta of j * 2^32 + r with r a legal <n, i> step: a decoder whose
    // digit * weight product wraps reads r and returns a scalar instead of None
    for _ in 0..n / 8 {
        let l = 3300 + rng.below(2500) as u128;
        let cp = 0xf0000 + rng.below(0x1ffff) as u128;
        let r = (cp - 0x80) * (l + 1) + rng.below(l as usize + 1) as u128;
        let j = 1 + rng.below(9) as u128;
        let delta = if r < (1u128 << 32) { r + (j << 32) } else { r };
        let mut b: Vec<u8> = vec![b'a'; l as usize];
        b.push(b'-');
        b.extend_from_slice(vli_digits(delta, 72).as_bytes());
        v.push(b);
    }
    v
}
/// encoder inputs around the encoder's own overflow checks: (m - n) * (h + 1) and the running delta
fn encoder_overflow_inputs(rng: &mut Rng, n: usize) -> Vec<Vec<u32>> {
    let mut v = Vec::new();
    for _ in 0..n {
        let high = *rng.pick(&[0x10ffffu32, 0x10fe4f, 0xfffff, 0x80000, 0x10000]);
        // smallest h + 1 with (high - 0x80) * (h + 1) > u32::MAX, then a few around it
        let need = ((1u64 << 32) / (high as u64 - 0x80)) as usize;
        let len = (need + rng.below(5)).saturating_sub(2);
        let fill = *rng.pick(&[0x61u32, 0x80, 0x81, 0x2d]);
        let mut s = vec![fill; len];
        match rng.below(3) {
            0 => s.push(high),
            1 => s.insert(0, high),
            _ => {
                s.push(high - 1);
                s.push(high)
            }
        }
        v.push(s);
    }
    v
}
/// the encoder's `delta + product` check (distinct from the product check): a small non-basic code
/// point first, k basic ones (each adds 1 to delta), then a code point so high that
/// (high - low - 1) * (k + 2) lies within k + 1 of u32::MAX
fn encoder_add_overflow_family(thorough: bool) -> Vec<Vec<u32>> {
    let mut v = Vec::new();
    let ks: Vec<u64> = if thorough { (3854..3876).collect() } else { vec![3854, 3855, 3856, 3860] };
    for low in [0xe9u64, 0x80] {
        for &k in &ks {
            let q = (u32::MAX as u64) / (k + 2);
            for high in [low + 1 + q, low + q] {
                if high <= 0x10ffff && !(0xd800..0xe000).contains(&high) {
                    let mut s = vec![low as u32];
                    s.extend(std::iter::repeat(0x61u32).take(k as usize));
                    s.push(high as u32);
                    v.push(s);
                }
            }
        }
    }
    v
}
fn internal_label(rng: &mut Rng, maxlen: usize) -> Vec<u32> {
    let n = 1 + rng.below(maxlen);
    let mut v: Vec<u32> = (0..n).map(|_| *rng.pick(&INTERNAL_ALPHABET)).collect();
    let k = rng.below(n);
    v[k] = *rng.pick(&INTERNAL_ALPHABET[4..]);
    if v[0] == 0x30 {
        v[0] = 0x61;
    }
    v
}

fn corpus(repo: &str) -> Vec<(String, String)> {
    let mut out = Vec::new();
    if let Ok(txt) = std::fs::read_to_string(format!("{}/idna/tests/punycode_tests.json", repo)) {
        if let Ok(serde_json::Value::Array(a)) = serde_json::from_str::<serde_json::Value>(&txt) {
            for e in a {
                if let (Some(d), Some(c)) = (e.get("decoded").and_then(|x| x.as_str()), e.get("encoded").and_then(|x| x.as_str())) {
                    out.push((d.to_string(), c.to_string()));
                }
            }
        }
    }
    out
}

fn run_corr(args: &Args) -> Report {
    let mut rep = Report::new();
    let mut drv = Driver::spawn(&args.driver);
    let thorough = args.tier == "thorough";
    let mut rng = Rng::new(args.seed);
    let repo = std::env::var("VERIF_REPO").unwrap_or_else(|_| "/repo".into());

    // corpus: the crate's own vectors, both directions; past cases
    for (d, c) in corpus(&repo) {
        let s: Vec<u32> = d.chars().map(|c| c as u32).collect();
        compare(&mut drv, &mut rep, "corpus", &enc_req(&s));
        compare(&mut drv, &mut rep, "corpus", &dec_req(c.as_bytes()));
    }
    if let Ok(txt) = std::fs::read_to_string(format!("{}/C13/cases.txt", args.file)) {
        for l in txt.lines().filter(|l| !l.is_empty() && !l.starts_with('#')) {
            compare(&mut drv, &mut rep, "corpus", l);
        }
    }

    // digit tables: which ASCII bytes the decoder accepts as digits
    let tab = drv.ask("tab");
    let parts: Vec<&str> = tab.split(' ').collect();
    let model_is_digit: String = parts
        .first()
        .map(|p| p.split('.').take(128).map(|x| if x == "~" { '0' } else { '1' }).collect())
        .unwrap_or_default();
    rep.case("tab", "tab digit_u8", &model_is_digit, &impl_tab(), true, "tab");

    // exhaustive small scope
    for_all_strings(&ENC_ALPHABET, 4, |s| compare(&mut drv, &mut rep, "exh-enc", &enc_req(s)));
    // the Known_C13 predicate (Coq) against its Rust twin, and the Coq transcription of RFC 3492
    // against the harness's independent reference
    for_all_strings(&ENC_ALPHABET, 3, |s| {
        compare(&mut drv, &mut rep, "known-pred", &format!("known {}", hexl(s.iter().copied())));
        compare(&mut drv, &mut rep, "spec-vs-ref", &format!("spec enc {}", hexl(s.iter().copied())));
    });
    for_all_strings(&DEC_ALPHABET, 3, |s| compare(&mut drv, &mut rep, "spec-vs-ref", &format!("spec dec {}", hexb(s))));
    let dec_len = if thorough { 5 } else { 4 };
    for_all_strings(&DEC_ALPHABET, dec_len, |s| compare(&mut drv, &mut rep, "exh-dec", &dec_req(s)));
    // every byte as a one- and two-unit input (digit table, delimiter, non-digits)
    for b in 0u8..128 {
        compare(&mut drv, &mut rep, "exh-dec-byte", &dec_req(&[b]));
        compare(&mut drv, &mut rep, "exh-dec-byte", &dec_req(&[b, b'a']));
        compare(&mut drv, &mut rep, "exh-dec-byte", &dec_req(&[b'9', b, b'a']));
        compare(&mut drv, &mut rep, "exh-dec-byte", &dec_req(&[b'x', b'-', b]));
    }
    rep.exhaustive.push(format!(
        "enc: all sequences of length <= 4 over {{a,-,U+80,U+FC,U+100,U+FFFF,U+10000,U+10FFFF}} (encode and encode_str); dec: all strings of length <= {} over {{a,z,A,0,9,-,!}}; every ASCII byte alone / before 'a' / after '9' / after 'x-'",
        dec_len
    ));

    // random short and long sequences; decode of encoder output and of its mutations
    let n_short = if thorough { 60_000 } else { 4_000 };
    for _ in 0..n_short {
        let s = random_seq(&mut rng, 40);
        compare(&mut drv, &mut rep, "rnd-enc-short", &enc_req(&s));
        let cs: Vec<char> = s.iter().map(|&c| char::from_u32(c).unwrap()).collect();
        if let Some(p) = punycode::encode(&cs) {
            if rng.chance(1, 2) {
                compare(&mut drv, &mut rep, "rnd-dec-of-enc", &dec_req(p.as_bytes()));
            } else {
                let m = mutate(&mut rng, &p);
                compare(&mut drv, &mut rep, "rnd-dec-mutated", &dec_req(&m));
            }
        }
        let d = random_decode_input(&mut rng, 24);
        compare(&mut drv, &mut rep, "rnd-dec", &dec_req(&d));
    }
    let n_long = if thorough { 160 } else { 24 };
    for k in 0..n_long {
        let maxlen = if k % 4 == 0 { 3000 } else { 600 };
        let s = random_seq(&mut rng, maxlen);
        compare(&mut drv, &mut rep, "known-pred", &format!("known {}", hexl(s.iter().copied())));
        compare(&mut drv, &mut rep, "spec-vs-ref", &format!("spec enc {}", hexl(s.iter().copied())));
        compare(&mut drv, &mut rep, "rnd-enc-long", &enc_req(&s));
        let cs: Vec<char> = s.iter().map(|&c| char::from_u32(c).unwrap()).collect();
        if let Some(p) = punycode::encode(&cs) {
            compare(&mut drv, &mut rep, "rnd-dec-of-enc-long", &dec_req(p.as_bytes()));
        }
    }
    // overflow in the decoder: long digit runs
    for _ in 0..(if thorough { 4000 } else { 400 }) {
        let n = 5 + rng.below(12);
        let mut b: Vec<u8> = (0..n).map(|_| *rng.pick(b"99999zzz0ab")).collect();
        if rng.chance(1, 3) {
            let mut pre: Vec<u8> = (0..rng.below(6)).map(|_| b'a' + rng.below(26) as u8).collect();
            pre.push(b'-');
            pre.extend_from_slice(&b);
            b = pre;
        }
        compare(&mut drv, &mut rep, "rnd-dec-overflow", &dec_req(&b));
    }
    // decoder boundaries: surrogates, char::MAX, u32 limits of i and of the code point
    for b in targeted_decode_inputs(&mut rng, if thorough { 6000 } else { 600 }) {
        compare(&mut drv, &mut rep, "targeted-dec", &dec_req(&b));
    }
    // encoder overflow boundaries
    for s in encoder_overflow_inputs(&mut rng, if thorough { 60 } else { 6 }) {
        compare(&mut drv, &mut rep, "enc-overflow", &enc_req(&s));
    }
    for s in encoder_add_overflow_family(thorough) {
        compare(&mut drv, &mut rep, "enc-add-overflow", &enc_req(&s));
    }
    // the boundary family around F-C13-1 (encode, and decode of what the encoder gives)
    for s in boundary_family(thorough) {
        compare(&mut drv, &mut rep, "known-pred", &format!("known {}", hexl(s.iter().copied())));
        compare(&mut drv, &mut rep, "boundary", &enc_req(&s));
        let cs: Vec<char> = s.iter().map(|&c| char::from_u32(c).unwrap()).collect();
        if let Some(p) = punycode::encode(&cs) {
            compare(&mut drv, &mut rep, "boundary", &dec_req(p.as_bytes()));
        }
    }
    // the internal-caller encoder, observed through UTS #46 on labels it leaves unchanged
    for k in 0..(if thorough { 3000 } else { 300 }) {
        let s = internal_label(&mut rng, if k % 10 == 0 { 1000 } else { 30 });
        compare(&mut drv, &mut rep, "internal-enc", &format!("enci {} {}", CFG, hexl(s.iter().copied())));
    }
    rep
}

// ---------------------------------------------------------------- independent reference (RFC 3492 over u128)
fn ref_adapt(mut delta: u128, numpoints: u128, first: bool) -> u128 {
    delta = if first { delta / 700 } else { delta / 2 };
    delta += delta / numpoints;
    let mut k = 0;
    while delta > 455 {
        delta /= 35;
        k += 36;
    }
    k + 36 * delta / (delta + 38)
}
fn ref_t(k: u128, bias: u128) -> u128 {
    if k <= bias { 1 } else if k >= bias + 26 { 26 } else { k - bias }
}
fn ref_digit_char(d: u128) -> char {
    if d < 26 { (b'a' + d as u8) as char } else { (b'0' + (d as u8 - 26)) as char }
}
/// RFC 3492 section 6.3 over unbounded integers: (output, largest delta, F-C13-1 class membership)
fn ref_encode(s: &[u32]) -> (String, u128, bool) {
    let mut out = String::new();
    let (mut n, mut delta, mut bias) = (128u128, 0u128, 72u128);
    let b = s.iter().filter(|&&c| c < 128).count() as u128;
    for &c in s {
        if c < 128 {
            out.push(c as u8 as char);
        }
    }
    if b > 0 {
        out.push('-');
    }
    let mut h = b;
    let (mut max_delta, mut known) = (0u128, false);
    let mut dec_i = 0u128; // the decoder's i before it reads the next delta
    while h < s.len() as u128 {
        let m = s.iter().map(|&c| c as u128).filter(|&c| c >= n).min().unwrap();
        delta += (m - n) * (h + 1);
        n = m;
        let mut pos = 0u128; // scalars <= n seen so far = position of the next n in the decoder's string
        for &c in s {
            let c = c as u128;
            if c < n {
                delta += 1;
            }
            if c == n {
                max_delta = max_delta.max(delta);
                if delta <= u32::MAX as u128 && dec_i + delta > u32::MAX as u128 {
                    known = true;
                }
                let mut q = delta;
                let mut k = 36;
                loop {
                    let t = ref_t(k, bias);
                    if q < t {
                        break;
                    }
                    out.push(ref_digit_char(t + (q - t) % (36 - t)));
                    q = (q - t) / (36 - t);
                    k += 36;
                }
                out.push(ref_digit_char(q));
                bias = ref_adapt(delta, h + 1, h == b);
                delta = 0;
                h += 1;
                dec_i = pos + 1;
            }
            if c <= n {
                pos += 1;
            }
        }
        delta += 1;
        n += 1;
    }
    (out, max_delta, known)
}
fn known_c13(s: &[u32]) -> bool {
    ref_encode(s).2
}
enum RefDec {
    Malformed,
    Overflow32,
    Ok(Vec<u32>),
}
/// RFC 3492 section 6.2 with direct list insertion; reports where a 32-bit implementation must give up
fn ref_decode(p: &[u8]) -> RefDec {
    let (base, rest): (&[u8], &[u8]) = match p.iter().rposition(|&c| c == b'-') {
        Some(pos) if pos > 0 => (&p[..pos], &p[pos + 1..]),
        _ => (&[], p),
    };
    if base.iter().any(|&c| c >= 128) {
        return RefDec::Malformed;
    }
    let mut out: Vec<u32> = base.iter().map(|&c| c as u32).collect();
    let (mut n, mut i, mut bias) = (128u128, 0u128, 72u128);
    let mut it = rest.iter();
    let max = u32::MAX as u128;
    while let Some(&first) = it.next() {
        let oldi = i;
        let mut w = 1u128;
        let mut k = 36u128;
        let mut byte = first;
        loop {
            let digit = match byte {
                b'0'..=b'9' => (byte - b'0') as u128 + 26,
                b'a'..=b'z' => (byte - b'a') as u128,
                b'A'..=b'Z' => (byte - b'A') as u128,
                _ => return RefDec::Malformed,
            };
            if i + digit * w > max {
                return RefDec::Overflow32;
            }
            i += digit * w;
            let t = ref_t(k, bias);
            if digit < t {
                break;
            }
            if w * (36 - t) > max {
                return RefDec::Overflow32;
            }
            w *= 36 - t;
            k += 36;
            byte = match it.next() {
                Some(&b) => b,
                None => return RefDec::Malformed,
            };
        }
        let len1 = out.len() as u128 + 1;
        bias = ref_adapt(i - oldi, len1, oldi == 0);
        n += i / len1;
        i %= len1;
        if n > max {
            return RefDec::Overflow32;
        }
        match char::from_u32(n as u32) {
            Some(_) => {}
            None => return RefDec::Malformed,
        }
        out.insert(i as usize, n as u32);
        i += 1;
    }
    RefDec::Ok(out)
}

fn lower_digits(p: &[u8]) -> Vec<u8> {
    // lower-case the part after the last delimiter (at a position > 0); the basic part stays
    match p.iter().rposition(|&c| c == b'-') {
        Some(pos) if pos > 0 => {
            let mut v = p[..=pos].to_vec();
            v.extend(p[pos + 1..].iter().map(|c| c.to_ascii_lowercase()));
            v
        }
        _ => p.iter().map(|c| c.to_ascii_lowercase()).collect(),
    }
}

/// the C13 statement on one encoder input, evaluated on the crate; None = holds
fn property_enc(s: &[u32]) -> Option<String> {
    let cs = to_chars(s)?;
    let st: String = cs.iter().collect();
    let s2 = s.to_vec();
    let r = std::panic::catch_unwind(move || -> Option<String> {
        let s = &s2;
        let e = punycode::encode(&cs);
        let e2 = punycode::encode_str(&st);
        if e != e2 {
            return Some(format!("encode and encode_str differ: {:?} vs {:?}", e, e2));
        }
        let (want, max_delta, known) = ref_encode(s);
        match e {
            None => {
                if max_delta <= u32::MAX as u128 {
                    return Some(format!("encode returns None although no 32-bit overflow occurs (largest delta {}); RFC 3492 gives {:?}", max_delta, want));
                }
                None
            }
            Some(p) => {
                if !p.is_ascii() {
                    return Some("encoder output is not ASCII".into());
                }
                if p != want {
                    return Some(format!("wrong answer: encode = {:?}, RFC 3492 over unbounded integers = {:?}", p, want));
                }
                if known {
                    return None; // F-C13-1 class: the decoder gives up on i + delta
                }
                match punycode::decode(&p) {
                    Some(d) if d == cs => {}
                    other => return Some(format!("round trip: decode(encode(s)) = {:?} for encode(s) = {:?}", other.map(|v| v.iter().collect::<String>()), p)),
                }
                if punycode::decode_to_string(&p).as_deref() != Some(&st[..]) {
                    return Some("round trip: decode_to_string(encode_str(s)) != s".into());
                }
                None
            }
        }
    });
    match r {
        Ok(x) => x,
        Err(_) => Some("panic".into()),
    }
}

fn property_dec(p: &[u8]) -> Option<String> {
    let st = std::str::from_utf8(p).ok()?.to_string();
    let p2 = p.to_vec();
    let r = std::panic::catch_unwind(move || -> Option<String> {
        let p = &p2;
        let d = punycode::decode(&st);
        let d2 = punycode::decode_to_string(&st);
        if d.as_ref().map(|v| v.iter().collect::<String>()) != d2 {
            return Some("decode and decode_to_string differ".into());
        }
        match (ref_decode(p), d) {
            (RefDec::Malformed, None) | (RefDec::Overflow32, None) => None,
            (RefDec::Malformed, Some(v)) => Some(format!("malformed input accepted: {:?}", v.iter().collect::<String>())),
            (RefDec::Overflow32, Some(v)) => Some(format!("32-bit overflow not reported, wrong answer {:?}", v.iter().collect::<String>())),
            (RefDec::Ok(w), None) => Some(format!("decode returns None on well-formed input without overflow; RFC 3492 gives {:x?}", w)),
            (RefDec::Ok(w), Some(v)) => {
                let vv: Vec<u32> = v.iter().map(|&c| c as u32).collect();
                if vv != w {
                    return Some(format!("wrong answer: decode = {:x?}, RFC 3492 = {:x?}", vv, w));
                }
                if vv.iter().any(|&c| c >= 128) {
                    match punycode::encode(&v) {
                        Some(q) if q.as_bytes() == &lower_digits(p)[..] => None,
                        other => Some(format!("encode(decode(p)) = {:?} does not reproduce p up to digit case", other)),
                    }
                } else {
                    None
                }
            }
        }
    });
    match r {
        Ok(x) => x,
        Err(_) => Some("panic".into()),
    }
}

fn property_enci(s: &[u32]) -> Option<String> {
    // the internal caller agrees with the reference on labels UTS #46 passes through
    let imp = impl_enci(s);
    if imp.starts_with('?') {
        return None;
    }
    let (want, _, _) = ref_encode(s);
    if imp == "PANIC" {
        return Some("panic in the internal-caller encoder".into());
    }
    if imp != format!("ok:{}", hexs(&want)) {
        return Some(format!("internal-caller encoder (through domain_to_ascii) gives {} but RFC 3492 gives {:?}", imp, want));
    }
    None
}

fn property_of_request(req: &str) -> Option<String> {
    let w: Vec<&str> = req.split(' ').collect();
    if w.len() < 3 {
        return None;
    }
    match w[0] {
        "enc" => property_enc(&unhexl(w[2])),
        "enci" => property_enci(&unhexl(w[2])),
        "dec" => property_dec(&unhexb(w[2])),
        _ => None,
    }
}

fn run_search(args: &Args) -> Report {
    let mut rep = Report::new();
    let mut rng = Rng::new(args.seed ^ 0xC13);
    let repo = std::env::var("VERIF_REPO").unwrap_or_else(|_| "/repo".into());
    let try_req = |rep: &mut Report, req: String| {
        rep.evaluations += 1;
        if rep.failures.len() < 20 {
            if let Some(w) = property_of_request(&req) {
                rep.failures.push((req, w));
            }
        }
    };
    if let Ok(txt) = std::fs::read_to_string(&args.file) {
        for l in txt.lines().filter(|l| !l.is_empty()) {
            try_req(&mut rep, l.to_string());
        }
    }
    for (d, c) in corpus(&repo) {
        let s: Vec<u32> = d.chars().map(|c| c as u32).collect();
        try_req(&mut rep, enc_req(&s));
        try_req(&mut rep, dec_req(c.as_bytes()));
    }
    for_all_strings(&ENC_ALPHABET, 4, |s| try_req(&mut rep, enc_req(s)));
    for_all_strings(&DEC_ALPHABET, 5, |s| try_req(&mut rep, dec_req(s)));
    for b in 0u8..128 {
        try_req(&mut rep, dec_req(&[b]));
        try_req(&mut rep, dec_req(&[b, b'a']));
        try_req(&mut rep, dec_req(&[b'9', b, b'a']));
        try_req(&mut rep, dec_req(&[b'x', b'-', b]));
    }
    for _ in 0..60_000 {
        if rep.failures.len() >= 20 {
            break;
        }
        let s = random_seq(&mut rng, 40);
        try_req(&mut rep, enc_req(&s));
        if let Some(cs) = to_chars(&s) {
            if let Ok(Some(p)) = std::panic::catch_unwind(|| punycode::encode(&cs)) {
                try_req(&mut rep, dec_req(p.as_bytes()));
                let m = mutate(&mut rng, &p);
                try_req(&mut rep, dec_req(&m));
            }
        }
        let d = random_decode_input(&mut rng, 24);
        try_req(&mut rep, dec_req(&d));
    }
    for k in 0..300 {
        if rep.failures.len() >= 20 {
            break;
        }
        let s = random_seq(&mut rng, if k % 4 == 0 { 3000 } else { 600 });
        try_req(&mut rep, enc_req(&s));
    }
    for _ in 0..4000 {
        let n = 5 + rng.below(12);
        let b: Vec<u8> = (0..n).map(|_| *rng.pick(b"99999zzz0ab")).collect();
        try_req(&mut rep, dec_req(&b));
    }
    for b in targeted_decode_inputs(&mut rng, 6000) {
        try_req(&mut rep, dec_req(&b));
    }
    for s in encoder_overflow_inputs(&mut rng, 40) {
        try_req(&mut rep, enc_req(&s));
    }
    for s in boundary_family(true) {
        try_req(&mut rep, enc_req(&s));
        if let Some(cs) = to_chars(&s) {
            if let Ok(Some(p)) = std::panic::catch_unwind(|| punycode::encode(&cs)) {
                try_req(&mut rep, dec_req(p.as_bytes()));
            }
        }
    }
    for k in 0..2000 {
        let s = internal_label(&mut rng, if k % 10 == 0 { 1000 } else { 30 });
        try_req(&mut rep, format!("enci {} {}", CFG, hexl(s.iter().copied())));
    }
    rep.failures.sort_by_key(|(c, _)| c.len());
    rep
}

fn run_known(args: &Args) -> Report {
    let mut rep = Report::new();
    // F-C13-1: s = U+0080 x 3856 ++ [U+10FE4F]: encode gives Some, decode of it gives None
    let mut s = vec!['\u{80}'; 3856];
    s.push('\u{10FE4F}');
    let su: Vec<u32> = s.iter().map(|&c| c as u32).collect();
    let r = guarded(move || match punycode::encode(&s) {
        None => "encode = None".to_string(),
        Some(p) => match punycode::decode(&p) {
            None => format!("encode = Some ({} bytes), decode of it = None", p.len()),
            Some(d) => format!("encode = Some ({} bytes), decode of it = Some, equal to s: {}", p.len(), d == s),
        },
    });
    let reproduces = r.ends_with("decode of it = None") && known_c13(&su);
    rep.known.push(("F-C13-1".into(), reproduces, format!("U+0080 x 3856 ++ [U+10FE4F]: {}", r)));
    // F-C13-2: 2^32 - 1 basic code units, a delimiter and one digit: `length + 1` overflows (debug:
    // panic at punycode.rs:233; release: wraps to 0 and adapt divides by zero at punycode.rs:33).
    // Needs 4 GiB of memory and ~20 s: thorough tier only.
    if args.tier == "thorough" {
        let r = guarded(|| {
            let n = u32::MAX as usize;
            let mut s = String::with_capacity(n + 2);
            s.extend(std::iter::repeat('a').take(n));
            s.push_str("-a");
            match punycode::decode_to_string(&s) {
                Some(d) => format!("Some ({} bytes)", d.len()),
                None => "None".into(),
            }
        });
        rep.known.push(("F-C13-2".into(), r == "PANIC", format!("'a' x (2^32 - 1) ++ \"-a\": decode_to_string: {}", r)));
    }
    rep
}

fn run_replay(args: &Args) -> Report {
    let mut rep = Report::new();
    let txt = std::fs::read_to_string(&args.file).unwrap_or_default();
    let req = txt
        .split("\"request\":")
        .nth(1)
        .and_then(|s| s.split('"').nth(1))
        .unwrap_or("")
        .to_string();
    if req.is_empty() {
        rep.notes.push("replay file has no request (no-failing-input-found replay): nothing to re-run".into());
        return rep;
    }
    let imp = impl_request(&req);
    let short = |s: &str| if s.len() > 400 { format!("{}...", &s[..400]) } else { s.to_string() };
    rep.notes.push(format!("request: {}", short(&req)));
    rep.notes.push(format!("implementation: {}", short(&imp)));
    if !args.driver.is_empty() {
        let mut drv = Driver::spawn(&args.driver);
        let model = drv.ask(&req);
        rep.notes.push(format!("model: {}", short(&model)));
    }
    rep.evaluations = 1;
    if let Some(w) = property_of_request(&req) {
        rep.failures.push((req, w));
    }
    rep
}

fn main() {
    quiet_panics();
    let args = parse_args();
    let rep = match args.mode.as_str() {
        "corr" => run_corr(&args),
        "search" => run_search(&args),
        "known" => run_known(&args),
        "replay" => run_replay(&args),
        m => panic!("unknown mode {}", m),
    };
    finish(&args, &rep);
}
