//! specval - validation of the specification model Spec/Whatwg.v.
//!   --mode corr : every vector of urltestdata.json and setters_tests.json through the extracted
//!                 spec driver, compared with the vector's expected fields.  NO exception list.
//!   --mode diff : fixed-seed differential run of the real crate (url::quirks) against the spec;
//!                 divergences are EXPECTED (DESIGN.md section 9) and are reported by class.
use std::collections::BTreeMap;
use url::{Host, Url};
use verif_harness::urlrec::*;
use verif_harness::*;

const KEYS: [&str; 10] = ["href", "protocol", "username", "password", "host", "hostname", "port", "pathname", "search", "hash"];

fn spec_oracle(name: &str, arg: &str) -> String {
    verif_harness::specapi::spec_oracle(name, arg)
}

/// driver answer -> Err(kind) or the ten API strings
fn decode_answer(a: &str) -> Result<Vec<String>, String> {
    if let Some(rest) = a.strip_prefix("ok ") {
        let v: Vec<String> = rest.split(' ').map(unhexs).collect();
        if v.len() == 10 {
            return Ok(v);
        }
        return Err(format!("!bad-answer:{}", a));
    }
    Err(a.to_string())
}

fn fields_line(keys: &[&str], vals: &dyn Fn(&str) -> Option<String>) -> String {
    let mut o = String::new();
    for k in keys {
        if let Some(v) = vals(k) {
            o.push_str(&format!("{}=<{}> ", k, v));
        }
    }
    o
}

fn run_corr(args: &Args) -> Report {
    let mut drv = Driver::spawn(&args.driver);
    let mut rep = Report::new();
    let mut fuel = 0u64;

    // ---- urltestdata.json
    let txt = std::fs::read_to_string("/repo/url/tests/urltestdata.json").expect("urltestdata.json");
    let v: serde_json::Value = serde_json::from_str(&txt).expect("json");
    let mut n_parse = 0u64;
    let mut bad_parse = 0u64;
    for e in v.as_array().expect("array").iter().filter(|e| e.is_object()) {
        let input = e["input"].as_str().expect("input");
        let base = e.get("base").and_then(|b| b.as_str());
        let req = format!("parse {} {}", base.map(hexs).unwrap_or_else(|| "~".into()), hexs(input));
        let ans = drv.ask_with(&req, spec_oracle);
        if ans == "fuel" {
            fuel += 1;
        }
        let failure = e.get("failure").and_then(|f| f.as_bool()).unwrap_or(false);
        let (model, expected) = if failure {
            (match decode_answer(&ans) { Ok(v) => format!("ok href=<{}>", v[0]), Err(k) => k }, "fail".to_string())
        } else {
            let present: Vec<&str> = KEYS.iter().copied().filter(|k| e.get(*k).and_then(|x| x.as_str()).is_some()).collect();
            let exp = fields_line(&present, &|k| e[k].as_str().map(|s| s.to_string()));
            let got = match decode_answer(&ans) {
                Ok(v) => fields_line(&present, &|k| KEYS.iter().position(|x| *x == k).map(|i| v[i].clone())),
                Err(k) => k,
            };
            (got, exp)
        };
        n_parse += 1;
        if model != expected {
            bad_parse += 1;
        }
        let sig = format!("parse:{}:{}", if failure { "failure" } else { "ok" }, if base.is_some() { "base" } else { "nobase" });
        let human = format!("{}   [input {:?} base {:?}]", req, input, base);
        rep.case("wpt-urltestdata", &human, &model, &expected, true, &sig);
    }

    // ---- setters_tests.json
    let txt = std::fs::read_to_string("/repo/url/tests/setters_tests.json").expect("setters_tests.json");
    let v: serde_json::Value = serde_json::from_str(&txt).expect("json");
    let mut n_set = 0u64;
    let mut bad_set = 0u64;
    for (name, cases) in v.as_object().expect("object") {
        let cases = match cases.as_array() {
            Some(c) => c,
            None => continue, // "comment"
        };
        for c in cases.iter().filter(|c| c.is_object()) {
            let href = c["href"].as_str().expect("href");
            let nv = c["new_value"].as_str().expect("new_value");
            let exp_obj = c["expected"].as_object().expect("expected");
            let req = format!("set {} {} {}", hexs(href), name, hexs(nv));
            let ans = drv.ask_with(&req, spec_oracle);
            if ans == "fuel" {
                fuel += 1;
            }
            let present: Vec<&str> = KEYS.iter().copied().filter(|k| exp_obj.get(*k).and_then(|x| x.as_str()).is_some()).collect();
            let exp = fields_line(&present, &|k| exp_obj[k].as_str().map(|s| s.to_string()));
            let got = match decode_answer(&ans) {
                Ok(v) => fields_line(&present, &|k| KEYS.iter().position(|x| *x == k).map(|i| v[i].clone())),
                Err(k) => k,
            };
            n_set += 1;
            if got != exp {
                bad_set += 1;
            }
            let human = format!("{}   [{:?} .{} = {:?}]", req, href, name, nv);
            rep.case("wpt-setters", &human, &got, &exp, true, &format!("set:{}", name));
        }
    }
    rep.notes.push(format!("urltestdata.json: {} vectors, {} pass, {} fail", n_parse, n_parse - bad_parse, bad_parse));
    rep.notes.push(format!("setters_tests.json: {} vectors, {} pass, {} fail", n_set, n_set - bad_set, bad_set));
    rep.notes.push(format!("out-of-fuel answers: {}", fuel));
    rep
}

// ------------------------------------------------------------------------------------ diff mode

fn impl_api(u: &Url) -> Vec<String> {
    use url::quirks as q;
    vec![
        q::href(u).to_string(),
        q::protocol(u).to_string(),
        q::username(u).to_string(),
        q::password(u).to_string(),
        q::host(u).to_string(),
        q::hostname(u).to_string(),
        q::port(u).to_string(),
        q::pathname(u).to_string(),
        q::search(u).to_string(),
        q::hash(u).to_string(),
    ]
}

fn scheme_class(s: &str) -> &'static str {
    match s.trim_end_matches(':') {
        "http" | "https" | "ws" | "wss" | "ftp" => "special",
        "file" => "file",
        _ => "other",
    }
}

fn diff_fields(a: &[String], b: &[String]) -> String {
    KEYS.iter().enumerate().filter(|(i, _)| a[*i] != b[*i]).map(|(_, k)| *k).collect::<Vec<_>>().join("+")
}

/// coarse features of an input / a setter value, to split divergence classes
fn features(s: &str, detail: bool) -> String {
    let t: Vec<char> = s.trim_matches(|c: char| c <= ' ').chars().collect();
    let mut f: Vec<&str> = vec![];
    let is_end = |c: char| matches!(c, '/' | '\\' | '?' | '#');
    let drive = (0..t.len()).any(|i| {
        t[i].is_ascii_alphabetic()
            && i + 1 < t.len()
            && (t[i + 1] == ':' || t[i + 1] == '|')
            && (i == 0 || is_end(t[i - 1]))
            && (i + 2 == t.len() || is_end(t[i + 2]))
    });
    if drive { f.push("drive"); }
    if t.iter().any(|c| matches!(c, '\t' | '\n' | '\r')) { f.push("tnl"); }
    if detail {
        if t.contains(&'\\') { f.push("bslash"); }
        if t.contains(&'@') { f.push("at"); }
    }
    f.join(",")
}

struct Diff {
    classes: BTreeMap<String, (u64, String)>,
    total: u64,
    divergent: u64,
    fuel: u64,
}
impl Diff {
    fn record(&mut self, class: String, witness: String) {
        self.divergent += 1;
        let e = self.classes.entry(class).or_insert((0, witness.clone()));
        e.0 += 1;
        if witness.len() < e.1.len() {
            e.1 = witness;
        }
    }
}

fn impl_set(u: &mut Url, name: &str, v: &str) {
    use url::quirks as q;
    match name {
        "href" => { let _ = q::set_href(u, v); }
        "protocol" => { let _ = q::set_protocol(u, v); }
        "username" => { let _ = q::set_username(u, v); }
        "password" => { let _ = q::set_password(u, v); }
        "host" => { let _ = q::set_host(u, v); }
        "hostname" => { let _ = q::set_hostname(u, v); }
        "port" => { let _ = q::set_port(u, v); }
        "pathname" => q::set_pathname(u, v),
        "search" => q::set_search(u, v),
        "hash" => q::set_hash(u, v),
        _ => panic!("setter"),
    }
}

fn setter_values() -> Vec<&'static str> {
    vec![
        "", "a", "x:y", "h", "example.com", "example.com:8080", "example.com:", ":80", "::1", "[::1]", "[::1]:81", "1.2.3.4", "0x7f.1",
        "//", "/", "\\", "\\\\", "//p", "/.//p", "/..//p", "..", ".", "%2e", "c:", "C|", "/c:/x", "?", "#", "?q", "#f", "??", "##", "a b", " ",
        "\t", "\n", "\t/", "\n80", "80", "0", "65535", "65536", "8a", "443", "21", "http", "https", "file", "ftp", "ws", "a", "b:", "http:", "file:",
        "non-spec", "\u{e9}", "%41", "%", "@", "u@h", "u:p@h", "localhost", "LOCALHOST", "h/p", "h?q", "h#f", "h\\p", "x y ", "'", "\"", "<>", "`{}",
        "http://h/", "a:b", "a://h", "file:///c:/", "/a/../b", "\u{0}", "a\tb",
    ]
}

fn run_diff(args: &Args) -> Report {
    let mut drv = Driver::spawn(&args.driver);
    let mut rep = Report::new();
    let mut rng = Rng::new(args.seed);
    let thorough = args.tier == "thorough";
    let mut d = Diff { classes: BTreeMap::new(), total: 0, divergent: 0, fuel: 0 };
    let pool = base_pool();
    let bases: Vec<Url> = pool.iter().map(|s| Url::parse(s).expect("base")).collect();

    // the bases themselves must agree, otherwise every case against them is noise
    let mut good_base = vec![true; pool.len()];
    for (i, b) in pool.iter().enumerate() {
        let ans = drv.ask_with(&format!("parse ~ {}", hexs(b)), spec_oracle);
        match decode_answer(&ans) {
            Ok(v) if v == impl_api(&bases[i]) => {}
            other => {
                good_base[i] = false;
                rep.notes.push(format!("base {:?} differs: spec {:?} impl {:?}", b, other, impl_api(&bases[i])));
            }
        }
    }

    // ---- parsing
    let n = if thorough { 1_000_000 } else { 120_000 };
    for i in 0..n {
        let s = random_url_string(&mut rng);
        let s = if i % 3 == 0 { mutate_string(&mut rng, &s) } else { s };
        let bi = if rng.chance(1, 2) { None } else { Some(rng.below(bases.len())) };
        if let Some(b) = bi {
            if !good_base[b] {
                continue;
            }
        }
        let base = bi.map(|b| &bases[b]);
        let req = format!("parse {} {}", bi.map(|b| hexs(pool[b])).unwrap_or_else(|| "~".into()), hexs(&s));
        let ans = drv.ask_with(&req, spec_oracle);
        let spec = decode_answer(&ans);
        let imp = std::panic::catch_unwind(std::panic::AssertUnwindSafe(|| Url::options().base_url(base).parse(&s)));
        d.total += 1;
        let bcls = match base {
            None => "nobase",
            Some(b) if b.cannot_be_a_base() => "opaquebase",
            Some(b) => match scheme_class(b.scheme()) { "special" => "specialbase", "file" => "filebase", _ => "otherbase" },
        };
        let wit = format!("parse {:?} against {:?}", s, bi.map(|b| pool[b]));
        let (m, im, class) = match (&spec, &imp) {
            (Err(k), _) if k == "fuel" || k.starts_with('!') => {
                d.fuel += 1;
                (k.clone(), String::new(), Some(format!("SPEC-BROKEN:{}", k)))
            }
            (_, Err(_)) => ("".into(), "panic".into(), Some(format!("impl-panic:{}", bcls))),
            (Err(_), Ok(Err(_))) => ("fail".into(), "fail".into(), None),
            (Err(_), Ok(Ok(u))) => {
                ("fail".into(), impl_api(u)[0].clone(), Some(format!("spec-fails/impl-ok:{}", scheme_class(u.scheme()))))
            }
            (Ok(v), Ok(Err(e))) => (v[0].clone(), format!("err {:?}", e), Some(format!("spec-ok/impl-fails({:?}):{}", e, scheme_class(&v[1])))),
            (Ok(v), Ok(Ok(u))) => {
                let iv = impl_api(u);
                if *v == iv {
                    (v[0].clone(), iv[0].clone(), None)
                } else {
                    (v.join(" | "), iv.join(" | "), Some(format!("differ[{}]:{}", diff_fields(v, &iv), scheme_class(&v[1]))))
                }
            }
        };
        rep.case("diff-parse", &wit, &m, &im, true, class.as_deref().unwrap_or("agree"));
        if let Some(c) = class {
            d.record(format!("parse {} [{}]", c, features(&s, c.starts_with("spec-fails"))), format!("{}  spec=<{}> impl=<{}>", wit, m, im));
        }
    }

    // ---- setters
    let values = setter_values();
    let n = if thorough { 400_000 } else { 60_000 };
    let mut starts: Vec<String> = pool.iter().map(|s| s.to_string()).collect();
    for s in ["file:///c:/x", "non-spec:/.//p", "foo:///some/path", "file://monkey/", "http://example.net:8080/path", "a:/x", "web+demo://:p@x.y", "sc:opaque ", "data:space    ?q#f", "http://u@h:21/p?q#f", "file:///"] {
        starts.push(s.to_string());
    }
    for _ in 0..n {
        let href = rng.pick(&starts).clone();
        let mut u = match Url::parse(&href) {
            Ok(u) => u,
            Err(_) => continue,
        };
        let name = *rng.pick(&KEYS);
        let val = if rng.chance(1, 4) {
            let t = random_url_string(&mut rng);
            if rng.chance(1, 2) { t } else { mutate_string(&mut rng, &t) }
        } else if rng.chance(1, 5) {
            let v0 = rng.pick(&values).to_string();
            mutate_string(&mut rng, &v0)
        } else {
            rng.pick(&values).to_string()
        };
        let req = format!("set {} {} {}", hexs(&href), name, hexs(&val));
        let ans = drv.ask_with(&req, spec_oracle);
        let spec = decode_answer(&ans);
        let before = impl_api(&u);
        let r = std::panic::catch_unwind(std::panic::AssertUnwindSafe(|| {
            impl_set(&mut u, name, &val);
            impl_api(&u)
        }));
        d.total += 1;
        let wit = format!("{:?} .{} = {:?}", href, name, val);
        let (m, im, class) = match (&spec, &r) {
            (Err(k), _) => {
                if k == "fuel" { d.fuel += 1; }
                (k.clone(), String::new(), Some(format!("SPEC-BROKEN:{}", k)))
            }
            (_, Err(_)) => ("".into(), "panic".into(), Some("impl-panic".to_string())),
            (Ok(v), Ok(iv)) => {
                if v == iv {
                    (v[0].clone(), iv[0].clone(), None)
                } else {
                    let how = if *iv == before { "impl-unchanged" } else if *v == before { "spec-unchanged" } else { "both-change" };
                    (v[0].clone(), iv[0].clone(), Some(format!("{}:{}[{}]:{}", name, how, diff_fields(v, iv), scheme_class(&before[1]))))
                }
            }
        };
        rep.case("diff-set", &wit, &m, &im, true, class.as_deref().unwrap_or("agree"));
        if let Some(c) = class {
            d.record(format!("set {} [{}]", c, features(&val, false)), format!("{}  spec=<{}> impl=<{}>", wit, m, im));
        }
    }

    rep.notes.push(format!("diff: {} cases, {} divergent, {} classes, spec out-of-fuel/broken {}", d.total, d.divergent, d.classes.len(), d.fuel));
    for (c, (k, w)) in &d.classes {
        rep.notes.push(format!("CLASS {} x{} :: {}", c, k, w));
    }
    rep
}

// ------------------------------------------------------------------------------------ dump mode
/// writes generated requests, the spec driver's answers and every host-oracle answer to --file, for
/// tools/spec_vs_py.py (cross-check of Spec/Whatwg.v against design_notes/.../whatwg.py)
fn run_dump(args: &Args) -> Report {
    use std::cell::RefCell;
    use std::io::Write;
    let mut drv = Driver::spawn(&args.driver);
    let mut rep = Report::new();
    let mut rng = Rng::new(args.seed);
    let out = RefCell::new(std::io::BufWriter::new(std::fs::File::create(&args.file).expect("--file")));
    let pool = base_pool();
    let values = setter_values();
    let n = if args.tier == "thorough" { 600_000 } else { 100_000 };
    let oracle = |name: &str, arg: &str| {
        let a = spec_oracle(name, arg);
        if name == "shp" {
            writeln!(out.borrow_mut(), "H\t{}\t{}", arg, a).unwrap();
        }
        a
    };
    for i in 0..n {
        let s = random_url_string(&mut rng);
        let s = if i % 3 == 0 { mutate_string(&mut rng, &s) } else { s };
        let base = match rng.below(4) {
            0 | 1 => "~".to_string(),
            2 => hexs(pool[rng.below(pool.len())]),
            _ => hexs(&random_url_string(&mut rng)),
        };
        let req = format!("parse {} {}", base, hexs(&s));
        let ans = drv.ask_with(&req, oracle);
        writeln!(out.borrow_mut(), "P\t{}\t{}\t{}", base, hexs(&s), ans).unwrap();
        rep.case("dump-parse", &req, &ans, &ans, true, if ans.starts_with("ok") { "ok" } else { &ans });
        if i % 2 == 0 {
            let href = if rng.chance(1, 2) { rng.pick(&pool).to_string() } else { random_url_string(&mut rng) };
            let k = 1 + rng.below(4);
            let ops: Vec<String> = (0..k)
                .map(|_| {
                    let name = *rng.pick(&KEYS);
                    let val = if rng.chance(1, 4) {
                        random_url_string(&mut rng)
                    } else if rng.chance(1, 4) {
                        let v0 = rng.pick(&values).to_string();
                        mutate_string(&mut rng, &v0)
                    } else {
                        rng.pick(&values).to_string()
                    };
                    format!("{}={}", name, hexs(&val))
                })
                .collect();
            let req = format!("setseq {} {}", hexs(&href), ops.join(","));
            let ans = drv.ask_with(&req, oracle);
            writeln!(out.borrow_mut(), "Q\t{}\t{}\t{}", hexs(&href), ops.join(","), ans).unwrap();
            rep.case("dump-setseq", &req, &ans, &ans, true, if ans.starts_with("ok") { "ok" } else { &ans });
        }
    }
    // exhaustive small scope: every string over the parser's class alphabet, as input against a few
    // bases and as the value of every setter on a few URLs
    let k = if args.tier == "thorough" { 4 } else { 3 };
    let xb = ["~", "http://u:p@h:81/a/b?q#f", "file:///c:/d/e", "file://h/x", "non-spec://h/a/b", "non-spec:/a/b", "mailto:x"];
    for b in xb {
        let bt = if b == "~" { "~".to_string() } else { hexs(b) };
        for_all_strings(&URL_CLASS, k, |cs| {
            let s: String = cs.iter().collect();
            let req = format!("parse {} {}", bt, hexs(&s));
            let ans = drv.ask_with(&req, oracle);
            writeln!(out.borrow_mut(), "P\t{}\t{}\t{}", bt, hexs(&s), ans).unwrap();
            rep.case("dump-exh-parse", &req, &ans, &ans, true, if ans.starts_with("ok") { "ok" } else { &ans });
        });
    }
    let xs = ["http://u:p@h:81/a/b?q#f", "https://h", "file:///c:/d", "file://h/x", "non-spec://u@h:9/a", "non-spec:/.//p", "a:/", "a://", "mailto:x y ", "data:x #f"];
    for href in xs {
        for name in KEYS {
            for_all_strings(&URL_CLASS, k - 1, |cs| {
                let v: String = cs.iter().collect();
                let ops = format!("{}={}", name, hexs(&v));
                let req = format!("setseq {} {}", hexs(href), ops);
                let ans = drv.ask_with(&req, oracle);
                writeln!(out.borrow_mut(), "Q\t{}\t{}\t{}", hexs(href), ops, ans).unwrap();
                rep.case("dump-exh-set", &req, &ans, &ans, true, if ans.starts_with("ok") { "ok" } else { &ans });
            });
        }
    }
    rep.exhaustive.push(format!(
        "parse: all strings of length <= {} over a 24-character class alphabet x 7 bases; setters: all values of length <= {} x 10 setters x 10 URLs",
        k, k - 1
    ));
    out.borrow_mut().flush().unwrap();
    rep
}

fn main() {
    quiet_panics();
    let args = parse_args();
    let rep = match args.mode.as_str() {
        "corr" => run_corr(&args),
        "diff" => run_diff(&args),
        "dump" => run_dump(&args),
        m => panic!("unknown mode {}", m),
    };
    finish(&args, &rep);
}
