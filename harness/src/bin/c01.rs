//! C01 - URL parsing: correspondence model <-> url crate (parse with/without base, callback and
//! encoding-override independence), search against the specification model, replay.
use std::borrow::Cow;
use url::Url;
use verif_harness::specapi::*;
use verif_harness::urlrec::*;
use verif_harness::*;

fn latin1ish(s: &str) -> Cow<'_, [u8]> {
    Cow::Owned(s.chars().map(|c| if (c as u32) < 256 { c as u32 as u8 } else { b'?' }).collect())
}
fn utf8_override(s: &str) -> Cow<'_, [u8]> {
    Cow::Borrowed(s.as_bytes())
}

fn impl_parse(ovr: u32, vfn: bool, base: Option<&Url>, input: &str) -> String {
    impl_parse_url(ovr, vfn, base, input).0
}

fn impl_parse_url(ovr: u32, vfn: bool, base: Option<&Url>, input: &str) -> (String, Option<Url>) {
    let r = std::panic::catch_unwind(std::panic::AssertUnwindSafe(|| {
        let cb = |_v: url::SyntaxViolation| {};
        let mut o = Url::options().base_url(base);
        if vfn {
            o = o.syntax_violation_callback(Some(&cb));
        }
        o = match ovr {
            1 => o.encoding_override(Some(&utf8_override)),
            2 => o.encoding_override(Some(&latin1ish)),
            _ => o,
        };
        o.parse(input)
    }));
    match r {
        Ok(r) => (parse_result_token(&r), r.ok()),
        Err(_) => ("panic".to_string(), None),
    }
}

fn sig_of(out: &str, input: &str, base: Option<&Url>) -> String {
    let kind = if out.starts_with("ok") {
        let first = input.trim_start_matches(|c: char| c <= ' ');
        let sch = first.split(':').next().unwrap_or("").to_ascii_lowercase();
        let cls = match sch.as_str() {
            "http" | "https" | "ws" | "wss" | "ftp" => "special",
            "file" => "file",
            _ => "other",
        };
        format!("ok-{}", cls)
    } else {
        out.to_string()
    };
    let b = match base {
        None => "nobase",
        Some(b) if b.cannot_be_a_base() => "opaquebase",
        Some(b) if b.scheme() == "file" => "filebase",
        Some(b) if b.is_special() => "specialbase",
        Some(_) => "otherbase",
    };
    let feat: String = ['\t', '\\', '%', '@', '[', '?', '#', '|', '.']
        .iter()
        .filter(|c| input.contains(**c))
        .collect();
    format!("{}:{}:{}", kind, b, feat.replace('\t', "T"))
}

struct Ctx {
    drv: Driver,
    rep: Report,
    dbg: &'static str,
    search: bool,
    spec: Option<Driver>,
}

fn case01(base: Option<&str>, input: &str) -> String {
    format!("parse01 {} {}", base.map(hexs).unwrap_or_else(|| "~".into()), hexs(input))
}

impl Ctx {
    fn compare(&mut self, stream: &str, ovr: u32, base: Option<&Url>, input: &str) {
        if self.search && self.rep.failures.len() >= 5 {
            return;
        }
        let bt = match base {
            Some(b) => url_token(b),
            None => "~".to_string(),
        };
        let req = format!("parse {} {} {} {}", self.dbg, ovr, bt, hexs(input));
        let model = self.drv.ask_with(&req, url_oracle);
        let (imp, parsed) = impl_parse_url(ovr, false, base, input);
        let sig = sig_of(&imp, input, base);
        self.rep.case(stream, &req, &model, &imp, !input.is_empty(), &sig);
        if self.search && model != imp {
            let bs = base.map(|b| b.as_str().to_string());
            // the ten API strings of the MODEL's result (= the unchanged code's behaviour)
            let model_api = match model.strip_prefix("ok ") {
                Some(tok) => {
                    let g = self.drv.ask_with(&format!("qget {} {}", self.dbg, tok), url_oracle);
                    g.split(' ').map(|x| if x == "panic" { "panic".to_string() } else { unhexs(x) }).collect::<Vec<_>>().join(" | ")
                }
                None if model.starts_with("err") => "fail".to_string(),
                None => model.clone(),
            };
            if let Some(w) = self.violates_standard_with(bs.as_deref().zip(base), input, Some(&model_api)) {
                if self.rep.failures.len() < 20 {
                    self.rep.failures.push((case01(bs.as_deref(), input), w));
                }
            }
        }
        // callback independence: the same call with a violation callback installed
        let imp_cb = impl_parse(ovr, true, base, input);
        if imp_cb != imp {
            self.rep.case("callback-independence", &format!("{} [vfn]", req), &imp, &imp_cb, true, "cb");
        }
        // getters of a successful parse
        if imp.starts_with("ok ") && self.rep.evaluations % 3 == 0 {
            let tok = &imp[3..];
            let greq = format!("get {} {}", self.dbg, tok);
            let gm = self.drv.ask_with(&greq, url_oracle);
            let gi = getters_line(parsed.as_ref().unwrap());
            self.rep.case("getters", &greq, &gm, &gi, true, "get");
        }
    }
}

impl Ctx {
    /// C01 on the implementation for one case: Some(description) when the implementation deviates from
    /// the specification model outside Known_C01
    fn violates_standard(&mut self, base: Option<(&str, &Url)>, input: &str) -> Option<String> {
        self.violates_standard_with(base, input, None)
    }
    /// `model_api`: what the unchanged code gave on this input (when known): a deviation from the
    /// Standard on an input where the unchanged code conformed is a violation even inside Known_C01
    fn violates_standard_with(&mut self, base: Option<(&str, &Url)>, input: &str, model_api: Option<&str>) -> Option<String> {
        let drv2 = self.spec.as_mut()?;
        let req = format!("parse {} {}", base.map(|b| hexs(b.0)).unwrap_or_else(|| "~".into()), hexs(input));
        let ans = drv2.ask_with(&req, spec_oracle);
        let spec = match decode_answer(&ans) {
            Ok(v) => v.join(" | "),
            Err(k) => k,
        };
        let imp = match std::panic::catch_unwind(std::panic::AssertUnwindSafe(|| Url::options().base_url(base.map(|b| b.1)).parse(input))) {
            Ok(Ok(u)) => impl_api(&u).join(" | "),
            Ok(Err(_)) => "fail".to_string(),
            Err(_) => "panic".to_string(),
        };
        if imp == "panic" {
            return Some(format!("parsing {:?} against {:?} panics", input, base.map(|b| b.0)));
        }
        if spec != imp && (known_c01(base.map(|b| b.1), input).is_none() || model_api == Some(spec.as_str())) {
            return Some(format!("parsing {:?} against {:?}: Standard gives <{}>, implementation gives <{}>", input, base.map(|b| b.0), spec, imp));
        }
        // callback / UTF-8 override independence
        let plain = impl_parse(0, false, base.map(|b| b.1), input);
        if impl_parse(0, true, base.map(|b| b.1), input) != plain || impl_parse(1, false, base.map(|b| b.1), input) != plain {
            return Some(format!("parsing {:?}: result depends on the violation callback or the UTF-8 encoding override", input));
        }
        None
    }
}

fn new_ctx(args: &Args, search: bool) -> Ctx {
    let dbg = if cfg!(debug_assertions) { "1" } else { "0" };
    Ctx {
        drv: Driver::spawn(&args.driver),
        rep: Report::new(),
        dbg,
        search,
        spec: if args.driver2.is_empty() { None } else { Some(Driver::spawn(&args.driver2)) },
    }
}

fn run_corr(args: &Args, search: bool) -> Report {
    let mut cx = new_ctx(args, search);
    let thorough = args.tier == "thorough";
    let mut rng = Rng::new(args.seed);
    let bases: Vec<Url> = base_pool().iter().map(|s| Url::parse(s).expect("base")).collect();

    // corpus: one "base<TAB>input" per line, hex
    if let Ok(txt) = std::fs::read_to_string(format!("{}/C01/cases.txt", args.file)) {
        for l in txt.lines().filter(|l| !l.is_empty() && !l.starts_with('#')) {
            let mut it = l.split(' ');
            let b = it.next().unwrap_or("~");
            let i = it.next().unwrap_or("-");
            let base = if b == "~" { None } else { Url::parse(&unhexs(b)).ok() };
            cx.compare("corpus", 0, base.as_ref(), &unhexs(i));
        }
    }
    // WPT vectors
    if let Ok(txt) = std::fs::read_to_string("/repo/url/tests/urltestdata.json") {
        if let Ok(serde_json::Value::Array(a)) = serde_json::from_str::<serde_json::Value>(&txt) {
            for e in a.iter().filter(|e| e.is_object()) {
                let input = e["input"].as_str().unwrap_or("");
                let base = e["base"].as_str().and_then(|b| Url::parse(b).ok());
                cx.compare("wpt", 0, base.as_ref(), input);
            }
        }
    }
    // exhaustive small scope: all strings over the class alphabet
    let k = if thorough { 4 } else { 3 };
    let exh_bases: Vec<Option<&Url>> = if thorough {
        std::iter::once(None).chain(bases.iter().map(Some)).collect()
    } else {
        vec![None, Some(&bases[0]), Some(&bases[5]), Some(&bases[9]), Some(&bases[11])]
    };
    for b in &exh_bases {
        for_all_strings(&URL_CLASS, k, |s| {
            let st: String = s.iter().collect();
            cx.compare("exh-class", 0, *b, &st);
        });
    }
    for pre in ["http:", "file:", "a:", "http://h", "file://", "a://h", "http://h/", "file:///c:", "a:/"] {
        for_all_strings(&URL_CLASS, k - 1, |s| {
            let st: String = pre.chars().chain(s.iter().copied()).collect();
            cx.compare("exh-prefixed", 0, None, &st);
        });
    }
    cx.rep.exhaustive.push(format!(
        "all strings of length <= {} over a 24-character class alphabet x {} bases; 9 prefixes x all strings of length <= {}",
        k,
        exh_bases.len(),
        k - 1
    ));
    // every host spelling of the atom list and of the host premise pool in every host position (deterministic)
    {
        let mut hosts: Vec<String> = atoms().iter().map(|s| s.to_string()).collect();
        hosts.extend(host_premise_pool().into_iter().step_by(if thorough { 1 } else { 5 }));
        let http_base = bases.iter().find(|b| b.scheme() == "http");
        for h in &hosts {
            for pre in ["http://", "ws://u:p@", "a://", "file://"] {
                cx.compare("host-spellings", 0, None, &format!("{}{}/p", pre, h));
                cx.compare("host-spellings", 0, None, &format!("{}{}:8080", pre, h));
            }
            cx.compare("host-spellings", 0, http_base, &format!("//{}/x", h));
        }
        cx.rep.exhaustive.push(format!("host-spellings: {} host texts x 4 prefixes x 2 tails + scheme-relative form", hosts.len()));
    }
    // structured + mutated random
    let n = if thorough { 600_000 } else { 40_000 };
    for i in 0..n {
        let s = random_url_string(&mut rng);
        let s = if i % 3 == 0 { mutate_string(&mut rng, &s) } else { s };
        let base = if rng.chance(1, 2) { None } else { Some(&bases[rng.below(bases.len())]) };
        let ovr = match rng.below(8) {
            0 => 1,
            1 => 2,
            _ => 0,
        };
        cx.compare("random", ovr, base, &s);
        // use parse results as further bases
        if i % 5 == 0 {
            if let Ok(u) = Url::options().base_url(base).parse(&s) {
                let t = random_url_string(&mut rng);
                let t = t.split(':').last().unwrap_or("").to_string();
                cx.compare("random-derived-base", 0, Some(&u), &t);
            }
        }
    }
    run_standard(&mut cx, args);
    cx.rep.failures.sort_by_key(|(c, _)| c.len());
    cx.rep
}

// ---------------------------------------------------------------- the Standard as reference
/// Known_C01: classes of (base, input) on which the pinned code is known to deviate from the Standard
/// (DESIGN.md section 9) - the exact exclusions of the proved class theorems; the predicate itself is
/// harness/src/known01.rs (twin of Model/KnownC01.v).  None = not known.
fn known_c01(base: Option<&Url>, input: &str) -> Option<&'static str> {
    let kb = base.map(|b| known01::KBase { scheme: b.scheme(), cannot_be_a_base: b.cannot_be_a_base(), path: b.path(), has_authority: b.has_authority() });
    match known01::known_c01(kb.as_ref(), input) {
        0 => None,
        k => Some(known01::class_name(k)),
    }
}

fn spec_vs_impl(cx: &mut Ctx, stream: &str, base: Option<(&str, &Url)>, input: &str) {
    if cx.search && cx.rep.failures.len() >= 5 {
        return;
    }
    let drv2 = match cx.spec.as_mut() {
        Some(d) => d,
        None => return,
    };
    let req = format!("parse {} {}", base.map(|b| hexs(b.0)).unwrap_or_else(|| "~".into()), hexs(input));
    let ans = drv2.ask_with(&req, spec_oracle);
    let spec = match decode_answer(&ans) {
        Ok(v) => v.join(" | "),
        Err(k) => k,
    };
    let imp = match std::panic::catch_unwind(std::panic::AssertUnwindSafe(|| Url::options().base_url(base.map(|b| b.1)).parse(input))) {
        Ok(Ok(u)) => impl_api(&u).join(" | "),
        Ok(Err(_)) => "fail".to_string(),
        Err(_) => "panic".to_string(),
    };
    let human = format!("{}   [input {:?} base {:?}]", req, input, base.map(|b| b.0));
    // the Coq and the Rust version of Known_C01 must agree on every case
    let kreq = format!("known01 {} {}", base.map(|b| url_token(b.1)).unwrap_or_else(|| "~".into()), hexs(input));
    let km = cx.drv.ask_with(&kreq, url_oracle);
    let ki = match known_c01(base.map(|b| b.1), input) {
        None => "0",
        Some(k) => &k[1..2],
    };
    if km != ki {
        cx.rep.case("known-predicate", &kreq, &km, ki, true, "known01");
    }
    if spec == imp {
        // exactness of the classes: an input inside Known_C01 on which the sides agree
        if let Some(k) = known_c01(base.map(|b| b.1), input) {
            cx.rep.bump(&format!("known-but-agreeing:{}", k));
            if !k.starts_with("K1") && std::env::var("VERIF_C01_SHOW_AGREE").is_ok() {
                eprintln!("AGREE {} {}", k, human);
            }
        }
        cx.rep.case(stream, &human, &spec, &imp, !input.is_empty(), if spec == "fail" { "std:fail" } else { "std:ok" });
    } else if let Some(k) = known_c01(base.map(|b| b.1), input) {
        cx.rep.evaluations += 1;
        cx.rep.bump(&format!("known-divergence:{}", k));
        if k.starts_with("K1") && std::env::var("VERIF_C01_SHOW_K1").is_ok() {
            eprintln!("K1DIV input={:?} base={:?}\n   std=<{}>\n   imp=<{}>", input, base.map(|b| b.0), spec, imp);
        }
    } else {
        cx.rep.case(stream, &human, &spec, &imp, true, "std:DIVERGES");
        if cx.search && cx.rep.failures.len() < 20 {
            cx.rep.failures.push((case01(base.map(|b| b.0), input), format!("Standard gives <{}>, implementation gives <{}>", spec, imp)));
        }
    }
}

/// the Standard side of the check: WPT validation of the specification model (no exception list) and
/// the fixed-seed differential run of the implementation against it outside Known_C01
fn run_standard(cx: &mut Ctx, args: &Args) {
    match cx.spec.take() {
        None => return,
        Some(mut d) => {
            wpt_validation(&mut d, &mut cx.rep, "parse");
            cx.spec = Some(d);
        }
    }
    let pool = base_pool();
    let bases: Vec<Url> = pool.iter().map(|s| Url::parse(s).expect("base")).collect();
    // WPT vectors: implementation vs specification model
    if let Ok(txt) = std::fs::read_to_string("/repo/url/tests/urltestdata.json") {
        if let Ok(serde_json::Value::Array(a)) = serde_json::from_str::<serde_json::Value>(&txt) {
            for e in a.iter().filter(|e| e.is_object()) {
                let input = e["input"].as_str().unwrap_or("");
                let b = e["base"].as_str().and_then(|b| Url::parse(b).ok().map(|u| (b.to_string(), u)));
                spec_vs_impl(cx, "std-wpt", b.as_ref().map(|x| (x.0.as_str(), &x.1)), input);
            }
        }
    }
    // fixed seed: the verdict on an unchanged tree must not depend on VERIF_SEED
    let mut rng = Rng::new(0xC01);
    let n = if args.tier == "thorough" { 600_000 } else { 60_000 };
    for i in 0..n {
        let s = random_url_string(&mut rng);
        let s = if i % 3 == 0 { mutate_string(&mut rng, &s) } else { s };
        let bi = if rng.chance(1, 2) { None } else { Some(rng.below(bases.len())) };
        spec_vs_impl(cx, "std-differential", bi.map(|b| (pool[b], &bases[b])), &s);
    }
    // directed at the borders of Known_C01 (deterministic): every sequence of <= 3 (quick) / 4 (thorough)
    // tokens - drive-letter shapes, dot segments in several spellings, ':@', ports, backslashes - behind
    // authority / path prefixes, without base and against bases with drive-letter-shaped segments
    {
        let toks = ["/", "\\", "C:", "c|", "..", "%2E.", ".", "x", ":@", ":8", "@", "?", "#"];
        let pres = ["", "a:", "a:/", "a://", "a://h", "a://h:8", "http:", "http://h", "http:/", "a://:@", "a:/C:/"];
        let dbases = ["a://h/C:/d/e", "a:/C|/", "a:/x/C:", "http://h/C:/d/e", "http://h/c|/", "a://h"];
        let dparsed: Vec<Url> = dbases.iter().map(|s| Url::parse(s).expect("directed base")).collect();
        let depth = if args.tier == "thorough" { 4 } else { 3 };
        let mut seqs: Vec<String> = vec![String::new()];
        let mut level: Vec<String> = vec![String::new()];
        for _ in 0..depth {
            let mut next = vec![];
            for s in &level {
                for t in toks.iter() {
                    next.push(format!("{}{}", s, t));
                }
            }
            seqs.extend(next.iter().cloned());
            level = next;
        }
        for (pi, pre) in pres.iter().enumerate() {
            for (si, s) in seqs.iter().enumerate() {
                let input = format!("{}{}", pre, s);
                // without base for inputs with a scheme; the bases in turn for all
                if pi > 0 {
                    spec_vs_impl(cx, "std-directed", None, &input);
                }
                let bi = (pi + si) % dparsed.len();
                spec_vs_impl(cx, "std-directed", Some((dbases[bi], &dparsed[bi])), &input);
            }
        }
    }
    // directed at the border of class 1 (the proved file class, k_file_ok): "file:" + slashes / host + every
    // sequence of <= 3 (quick) / 4 (thorough) tokens, without base and against non-file bases
    {
        let toks = ["/", "\\", "C:", "c|", "..", "%2E.", ".", "x", "?", "#"];
        let pres = ["file:", "file:/", "file://", "file:///", "file://h", "fIle://localhost", "file://h/C:/", "file:///c:", "file://C:"];
        let fbases = ["http://h/C:/d/e", "a://h"];
        let fparsed: Vec<Url> = fbases.iter().map(|s| Url::parse(s).expect("directed base")).collect();
        let depth = if args.tier == "thorough" { 4 } else { 3 };
        let mut seqs: Vec<String> = vec![String::new()];
        let mut level: Vec<String> = vec![String::new()];
        for _ in 0..depth {
            let mut next = vec![];
            for s in &level {
                for t in toks.iter() {
                    next.push(format!("{}{}", s, t));
                }
            }
            seqs.extend(next.iter().cloned());
            level = next;
        }
        for (pi, pre) in pres.iter().enumerate() {
            for (si, s) in seqs.iter().enumerate() {
                let input = format!("{}{}", pre, s);
                spec_vs_impl(cx, "std-directed-file", None, &input);
                let bi = (pi + si) % fparsed.len();
                spec_vs_impl(cx, "std-directed-file", Some((fbases[bi], &fparsed[bi])), &input);
            }
        }
    }
    // directed at the two file-BASE arms folded into Known_C01 (two separators: neither side reads the base):
    // "file:" + two separators and scheme-less two separators + host / drive-letter shapes + every sequence of
    // <= 2 (quick) / 3 (thorough) tokens, against file bases with / without host and drive letter; the
    // one-separator and no-separator prefixes stay in class 1 and check the border
    {
        let toks = ["/", "\\", "C:", "c|", "..", "%2E.", ".", "x", "?", "#"];
        let pres = ["file://", "file:\\\\", "fIle:/\\h", "file://localhost", "file:///", "file://C:", "//", "\\\\", "/\\h.x", "///", "//C|", "\\/localhost/",
                    "file:/", "file:", "/", ""];
        let fbases = ["file:///tmp/x", "file://h/d/e", "file:///C:/a/b", "file://h.x/a/b/c?q#f"];
        let fparsed: Vec<Url> = fbases.iter().map(|s| Url::parse(s).expect("directed file base")).collect();
        let depth = if args.tier == "thorough" { 3 } else { 2 };
        let mut seqs: Vec<String> = vec![String::new()];
        let mut level: Vec<String> = vec![String::new()];
        for _ in 0..depth {
            let mut next = vec![];
            for s in &level {
                for t in toks.iter() {
                    next.push(format!("{}{}", s, t));
                }
            }
            seqs.extend(next.iter().cloned());
            level = next;
        }
        for pre in pres.iter() {
            for s in seqs.iter() {
                let input = format!("{}{}", pre, s);
                for bi in 0..fparsed.len() {
                    spec_vs_impl(cx, "std-directed-filebase", Some((fbases[bi], &fparsed[bi])), &input);
                }
            }
        }
    }
    // bare references (empty, '?...', '#...') against every file base of the pool: outside class 1
    for (bi, b) in pool.iter().enumerate() {
        if b.starts_with("file:") {
            for r in ["", " ", "#", "#f", "?", "?q", "?q#f", "\t#x", "?%", "#\\", "?\\..", "#/C|/..", "? #\u{e9}"] {
                spec_vs_impl(cx, "std-directed", Some((*b, &bases[bi])), r);
            }
        }
    }
    let k = if args.tier == "thorough" { 3 } else { 2 };
    for b in [None, Some(0usize), Some(9), Some(11)] {
        for_all_strings(&URL_CLASS, k, |s| {
            let st: String = s.iter().collect();
            spec_vs_impl(cx, "std-exh-class", b.map(|b| (pool[b], &bases[b])), &st);
        });
    }
}

fn run_known(_args: &Args) -> Report {
    let mut rep = Report::new();
    let p = |base: Option<&str>, input: &str| -> String {
        let b = base.map(|b| Url::parse(b).unwrap());
        match std::panic::catch_unwind(std::panic::AssertUnwindSafe(|| Url::options().base_url(b.as_ref()).parse(input))) {
            Ok(Ok(u)) => u.to_string(),
            Ok(Err(e)) => format!("Err({:?})", e),
            Err(_) => "PANIC".into(),
        }
    };
    // (id, base, input, what the pinned code returns; the entry reproduces when it still does)
    let table: [(&str, Option<&str>, &str, &str); 10] = [
        ("F-C01-1", Some("file://host/path"), "/c:/foo/bar", "file:///c:/foo/bar"),
        ("F-C01-2", None, "file:////foo", "file:///foo"),
        ("F-C01-8", None, "non-spec://x.y:8\\", "non-spec://x.y:8/\\"),
        ("F-C01-9", None, "non-spec:/C|/..", "non-spec:/C|/"),
        ("F-C01-11", None, "file:///C|", "file:///C|"),
        ("F-C01-12", None, "blob://:@/", "blob:///"),
        // fixed findings: reproduce = the old behaviour is back
        ("F-C01-4", Some("non-spec://good.example/dir/file"), "\\\\evil.example/x", "non-spec://evil.example/x"),
        ("F-C01-6", None, "non-spec://@", "non-spec://"),
        ("F-C01-10", Some("http://h/a/b"), "///x/y", "Err(EmptyHost)"),
        ("F-C01-10b", Some("http://h/a/b"), "///x/y", "Err(EmptyHost)"),
    ];
    for (id, base, input, old) in table.iter() {
        if *id == "F-C01-10b" {
            continue;
        }
        let got = p(*base, input);
        rep.known.push((id.to_string(), got == *old, format!("parse {:?} against {:?} = {}", input, base, got)));
    }
    rep
}

fn run_replay(args: &Args) -> Report {
    let mut cx = new_ctx(args, true);
    let req = replay_request(&args.file);
    let w: Vec<&str> = req.split(' ').collect();
    if w.len() != 3 || w[0] != "parse01" {
        cx.rep.notes.push("replay file has no parse01 request (no-failing-input-found replay): nothing to re-run".into());
        return cx.rep;
    }
    let bs = if w[1] == "~" { None } else { Some(unhexs(w[1])) };
    let input = unhexs(w[2]);
    let base = bs.as_ref().and_then(|b| Url::parse(b).ok());
    cx.rep.notes.push(format!("input {:?} base {:?}", input, bs));
    cx.rep.notes.push(format!("implementation: {}", impl_parse(0, false, base.as_ref(), &input)));
    let bt = base.as_ref().map(url_token).unwrap_or_else(|| "~".into());
    let mreq = format!("parse {} 0 {} {}", cx.dbg, bt, hexs(&input));
    let m = cx.drv.ask_with(&mreq, url_oracle);
    cx.rep.notes.push(format!("model of the unchanged code: {}", m));
    cx.rep.evaluations = 1;
    if let Some(wh) = cx.violates_standard(bs.as_deref().zip(base.as_ref()), &input) {
        cx.rep.failures.push((req.clone(), wh));
    }
    cx.rep
}

fn main() {
    quiet_panics();
    let args = parse_args();
    let rep = match args.mode.as_str() {
        "corr" => run_corr(&args, false),
        "search" => run_corr(&args, true),
        "std" => {
            let mut cx = new_ctx(&args, false);
            run_standard(&mut cx, &args);
            cx.rep
        }
        "known" => run_known(&args),
        "replay" => run_replay(&args),
        m => panic!("unknown mode {}", m),
    };
    finish(&args, &rep);
}
