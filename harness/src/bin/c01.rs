//! C01 - URL parsing: correspondence model <-> url crate (parse with/without base, callback and
//! encoding-override independence), search against the specification model, replay.
use std::borrow::Cow;
use url::Url;
use verif_harness::urlrec::*;
use verif_harness::*;

fn latin1ish(s: &str) -> Cow<'_, [u8]> {
    Cow::Owned(s.chars().map(|c| if (c as u32) < 256 { c as u32 as u8 } else { b'?' }).collect())
}
fn utf8_override(s: &str) -> Cow<'_, [u8]> {
    Cow::Borrowed(s.as_bytes())
}

fn impl_parse(ovr: u32, vfn: bool, base: Option<&Url>, input: &str) -> String {
    impl_parse_url(ovr, vfn, base, input).0
}

fn impl_parse_url(ovr: u32, vfn: bool, base: Option<&Url>, input: &str) -> (String, Option<Url>) {
    let r = std::panic::catch_unwind(std::panic::AssertUnwindSafe(|| {
        let cb = |_v: url::SyntaxViolation| {};
        let mut o = Url::options().base_url(base);
        if vfn {
            o = o.syntax_violation_callback(Some(&cb));
        }
        o = match ovr {
            1 => o.encoding_override(Some(&utf8_override)),
            2 => o.encoding_override(Some(&latin1ish)),
            _ => o,
        };
        o.parse(input)
    }));
    match r {
        Ok(r) => (parse_result_token(&r), r.ok()),
        Err(_) => ("panic".to_string(), None),
    }
}

fn sig_of(out: &str, input: &str, base: Option<&Url>) -> String {
    let kind = if out.starts_with("ok") {
        let first = input.trim_start_matches(|c: char| c <= ' ');
        let sch = first.split(':').next().unwrap_or("").to_ascii_lowercase();
        let cls = match sch.as_str() {
            "http" | "https" | "ws" | "wss" | "ftp" => "special",
            "file" => "file",
            _ => "other",
        };
        format!("ok-{}", cls)
    } else {
        out.to_string()
    };
    let b = match base {
        None => "nobase",
        Some(b) if b.cannot_be_a_base() => "opaquebase",
        Some(b) if b.scheme() == "file" => "filebase",
        Some(b) if b.is_special() => "specialbase",
        Some(_) => "otherbase",
    };
    let feat: String = ['\t', '\\', '%', '@', '[', '?', '#', '|', '.']
        .iter()
        .filter(|c| input.contains(**c))
        .collect();
    format!("{}:{}:{}", kind, b, feat.replace('\t', "T"))
}

struct Ctx {
    drv: Driver,
    rep: Report,
    dbg: &'static str,
}

impl Ctx {
    fn compare(&mut self, stream: &str, ovr: u32, base: Option<&Url>, input: &str) {
        let bt = match base {
            Some(b) => url_token(b),
            None => "~".to_string(),
        };
        let req = format!("parse {} {} {} {}", self.dbg, ovr, bt, hexs(input));
        let model = self.drv.ask_with(&req, url_oracle);
        let (imp, parsed) = impl_parse_url(ovr, false, base, input);
        let sig = sig_of(&imp, input, base);
        self.rep.case(stream, &req, &model, &imp, !input.is_empty(), &sig);
        // callback independence: the same call with a violation callback installed
        let imp_cb = impl_parse(ovr, true, base, input);
        if imp_cb != imp {
            self.rep.case("callback-independence", &format!("{} [vfn]", req), &imp, &imp_cb, true, "cb");
        }
        // getters of a successful parse
        if imp.starts_with("ok ") && self.rep.evaluations % 3 == 0 {
            let tok = &imp[3..];
            let greq = format!("get {} {}", self.dbg, tok);
            let gm = self.drv.ask_with(&greq, url_oracle);
            let gi = getters_line(parsed.as_ref().unwrap());
            self.rep.case("getters", &greq, &gm, &gi, true, "get");
        }
    }
}

fn run_corr(args: &Args) -> Report {
    let dbg = if cfg!(debug_assertions) { "1" } else { "0" };
    let mut cx = Ctx { drv: Driver::spawn(&args.driver), rep: Report::new(), dbg };
    let thorough = args.tier == "thorough";
    let mut rng = Rng::new(args.seed);
    let bases: Vec<Url> = base_pool().iter().map(|s| Url::parse(s).expect("base")).collect();

    // corpus: one "base<TAB>input" per line, hex
    if let Ok(txt) = std::fs::read_to_string(format!("{}/C01/cases.txt", args.file)) {
        for l in txt.lines().filter(|l| !l.is_empty() && !l.starts_with('#')) {
            let mut it = l.split(' ');
            let b = it.next().unwrap_or("~");
            let i = it.next().unwrap_or("-");
            let base = if b == "~" { None } else { Url::parse(&unhexs(b)).ok() };
            cx.compare("corpus", 0, base.as_ref(), &unhexs(i));
        }
    }
    // WPT vectors
    if let Ok(txt) = std::fs::read_to_string("/repo/url/tests/urltestdata.json") {
        if let Ok(serde_json::Value::Array(a)) = serde_json::from_str::<serde_json::Value>(&txt) {
            for e in a.iter().filter(|e| e.is_object()) {
                let input = e["input"].as_str().unwrap_or("");
                let base = e["base"].as_str().and_then(|b| Url::parse(b).ok());
                cx.compare("wpt", 0, base.as_ref(), input);
            }
        }
    }
    // exhaustive small scope: all strings over the class alphabet
    let k = if thorough { 4 } else { 3 };
    let exh_bases: Vec<Option<&Url>> = if thorough {
        std::iter::once(None).chain(bases.iter().map(Some)).collect()
    } else {
        vec![None, Some(&bases[0]), Some(&bases[5]), Some(&bases[9]), Some(&bases[11])]
    };
    for b in &exh_bases {
        for_all_strings(&URL_CLASS, k, |s| {
            let st: String = s.iter().collect();
            cx.compare("exh-class", 0, *b, &st);
        });
    }
    for pre in ["http:", "file:", "a:", "http://h", "file://", "a://h", "http://h/", "file:///c:", "a:/"] {
        for_all_strings(&URL_CLASS, k - 1, |s| {
            let st: String = pre.chars().chain(s.iter().copied()).collect();
            cx.compare("exh-prefixed", 0, None, &st);
        });
    }
    cx.rep.exhaustive.push(format!(
        "all strings of length <= {} over a 24-character class alphabet x {} bases; 9 prefixes x all strings of length <= {}",
        k,
        exh_bases.len(),
        k - 1
    ));
    // structured + mutated random
    let n = if thorough { 600_000 } else { 40_000 };
    for i in 0..n {
        let s = random_url_string(&mut rng);
        let s = if i % 3 == 0 { mutate_string(&mut rng, &s) } else { s };
        let base = if rng.chance(1, 2) { None } else { Some(&bases[rng.below(bases.len())]) };
        let ovr = match rng.below(8) {
            0 => 1,
            1 => 2,
            _ => 0,
        };
        cx.compare("random", ovr, base, &s);
        // use parse results as further bases
        if i % 5 == 0 {
            if let Ok(u) = Url::options().base_url(base).parse(&s) {
                let t = random_url_string(&mut rng);
                let t = t.split(':').last().unwrap_or("").to_string();
                cx.compare("random-derived-base", 0, Some(&u), &t);
            }
        }
    }
    cx.rep
}

fn main() {
    quiet_panics();
    let args = parse_args();
    let rep = match args.mode.as_str() {
        "corr" => run_corr(&args),
        m => panic!("unknown mode {}", m),
    };
    finish(&args, &rep);
}
