//! C04 - total, panic-free, linear-time public API: every `pub fn` of the five crates (inventory
//! `c04_api` of coq/Gen/tables.json) is called under `catch_unwind` on adversarial inputs, in both
//! cargo profiles; the constant prediction is "ok" = no panic and every returned string valid UTF-8.
//!
//! Request lines (re-runnable with `run_request`):
//!   <crate>::<name> fam=<family> n=<count> [pre=<esc>] [base=<esc url>]
//!   <crate>::<name> hex=<hexb of the input> [pre=<esc>] [base=<esc url>]
//!   <crate>::<name> small=<integer>
//!   history start=<esc url> ops=<op tokens, '|' between ops, ',' for the spaces inside one op>
//!   blobdepth n=<count>                (child process: Url::origin of "blob:" x n ++ "http://h/")
//!   documented <probe id>              (deliberate probe of a documented panic)
//!   generic <crate>::<name>            (compile-and-run probe of a public fn without a table row)
//! <esc>: printable ASCII except space, '"', '\\', '%' literally, every other byte as %XX.
#![allow(deprecated)]
use std::borrow::Cow;
use std::cell::RefCell;
use std::collections::BTreeSet;
use std::panic::{catch_unwind, AssertUnwindSafe};
use std::sync::{Mutex, OnceLock};
use std::time::Instant;

use data_url::mime::Mime;
use data_url::{forgiving_base64, DataUrl};
use form_urlencoded::Serializer;
use idna::uts46::{AsciiDenyList, DnsLength, ErrorPolicy, Hyphens, ProcessingError, ProcessingSuccess, Uts46};
use percent_encoding::{percent_decode, percent_decode_str, percent_encode, percent_encode_byte, utf8_percent_encode, AsciiSet, CONTROLS, NON_ALPHANUMERIC};
use url::{Host, Origin, Position, SyntaxViolation, Url};
use verif_harness::urlops::*;
use verif_harness::urlrec::*;
use verif_harness::*;

const DBG: bool = cfg!(debug_assertions);

// ================================================================ panic capture
static LAST_PANIC: Mutex<Option<(String, String)>> = Mutex::new(None);

fn install_hook() {
    std::panic::set_hook(Box::new(|info| {
        let msg = if let Some(s) = info.payload().downcast_ref::<&str>() {
            s.to_string()
        } else if let Some(s) = info.payload().downcast_ref::<String>() {
            s.clone()
        } else {
            "?".to_string()
        };
        let loc = info
            .location()
            .map(|l| {
                let parts: Vec<&str> = l.file().split('/').collect();
                let k = parts.len().saturating_sub(3);
                format!("{}:{}", parts[k..].join("/"), l.line())
            })
            .unwrap_or_default();
        if let Ok(mut g) = LAST_PANIC.lock() {
            *g = Some((msg, loc));
        }
    }));
}
fn take_panic() -> (String, String) {
    LAST_PANIC.lock().ok().and_then(|mut g| g.take()).unwrap_or_default()
}
fn clip(s: &str, n: usize) -> String {
    let one: String = s
        .chars()
        .map(|c| match c {
            '\n' => ' ',
            '"' => '\'',
            '\\' => '/',
            c => c,
        })
        .collect();
    match one.char_indices().nth(n) {
        Some((i, _)) => one[..i].to_string(),
        None => one,
    }
}

// ================================================================ escaping of short strings inside requests
fn esc(b: &[u8]) -> String {
    let mut o = String::new();
    for &c in b {
        if (0x21..0x7f).contains(&c) && c != b'"' && c != b'\\' && c != b'%' {
            o.push(c as char);
        } else {
            o.push_str(&format!("%{:02X}", c));
        }
    }
    o
}
fn unesc(s: &str) -> Vec<u8> {
    let b = s.as_bytes();
    let mut o = Vec::new();
    let mut i = 0;
    while i < b.len() {
        if b[i] == b'%' && i + 2 < b.len() && s.is_char_boundary(i + 1) && s.is_char_boundary(i + 3) {
            if let Ok(v) = u8::from_str_radix(&s[i + 1..i + 3], 16) {
                o.push(v);
                i += 3;
                continue;
            }
        }
        o.push(b[i]);
        i += 1;
    }
    o
}

// ================================================================ the sink every exerciser reports to
#[derive(Clone, Copy)]
struct KnownMark {
    id: &'static str,
    msg: &'static str,
    loc: &'static str,
}
const K_C04_1: KnownMark = KnownMark { id: "F-C04-1", msg: "byte_at(self.path_start) == b'/'", loc: "lib.rs" };
const K_C04_3: KnownMark = KnownMark { id: "F-C04-3", msg: "", loc: "" };
const K_C04_7: KnownMark = KnownMark { id: "F-C04-7", msg: "segment_start - 1", loc: "parser.rs" };
const K_C14_1: KnownMark = KnownMark { id: "F-C14-1", msg: "index out of bounds", loc: "ascii_set.rs" };
const K_C04_12: KnownMark = KnownMark { id: "F-C04-12", msg: "", loc: "" };
const K_C11_2: KnownMark = KnownMark { id: "F-C11-2", msg: "!had_errors", loc: "uts46.rs" };

struct Sink {
    strings: u64,
    invalid: Option<String>,
    class: &'static str,
    known: Option<KnownMark>,
    /// check_invariants Err on a URL produced by a setter (histogram only: C02 findings)
    inv: Option<String>,
    /// check_invariants Err on a URL produced by the parser (an outcome)
    strict_inv: Option<String>,
    strict: bool,
    c11: Option<(AsciiDenyList, Hyphens)>,
}
impl Sink {
    fn new() -> Sink {
        Sink { strings: 0, invalid: None, class: "ok", known: None, inv: None, strict_inv: None, strict: true, c11: None }
    }
    fn raw(&mut self, which: &str, b: &[u8]) {
        self.strings += 1;
        if std::str::from_utf8(std::hint::black_box(b)).is_err() && self.invalid.is_none() {
            self.invalid = Some(which.to_string());
        }
    }
    fn s(&mut self, which: &str, s: &str) {
        self.raw(which, s.as_bytes());
    }
    fn os(&mut self, which: &str, s: Option<&str>) {
        if let Some(s) = s {
            self.s(which, s);
        }
    }
    fn disp<T: std::fmt::Display>(&mut self, which: &str, v: &T) {
        let t = v.to_string();
        self.s(which, &t);
    }
    fn dbg<T: std::fmt::Debug>(&mut self, which: &str, v: &T) {
        let t = format!("{:?}", v);
        self.s(which, &t);
    }
}

struct Ctx<'a> {
    bytes: &'a [u8],
    text: &'a str,
    url: &'a Url,
    small: u64,
}

#[derive(Clone, Copy, PartialEq, Debug)]
enum Kind {
    /// takes &str (no URL-shaped prefixes)
    Str,
    /// takes &str that is parsed as a URL (gets the URL prefixes)
    UrlStr,
    /// takes a base &Url and a reference &str
    UrlRef,
    /// takes &[u8] including invalid UTF-8
    Bytes,
    /// takes &Url
    UrlGet,
    /// takes &mut Url and a &str argument
    UrlSet,
    /// takes small integers / bytes / bools
    Small,
    /// pub fn of a private module whose type is not re-exported: exercised through the named entry points
    Internal(&'static str),
}
impl Kind {
    fn tag(&self) -> &'static str {
        match self {
            Kind::Str => "Str",
            Kind::UrlStr => "UrlStr",
            Kind::UrlRef => "UrlRef",
            Kind::Bytes => "Bytes",
            Kind::UrlGet => "UrlGet",
            Kind::UrlSet => "UrlSet",
            Kind::Small => "Small",
            Kind::Internal(_) => "Internal",
        }
    }
}
#[derive(Clone, Copy, PartialEq)]
enum Cap {
    Full,
    /// IDNA processing: 16 KiB in the quick tier, 64 KiB in the thorough tier
    Idna,
    /// the public punycode API is quadratic (F-C04-10): 4096 bytes
    Puny,
    /// prefixes of data: URLs
    Data,
}
type RowFn = fn(&Ctx, &mut Sink);
struct Row {
    krate: &'static str,
    name: &'static str,
    kind: Kind,
    cap: Cap,
    f: RowFn,
}
impl Row {
    fn full(&self) -> String {
        format!("{}::{}", self.krate, self.name)
    }
}

// ================================================================ known-class predicates
/// F-C04-3: a record with an empty host but a port or credentials (`a://:80/`), reachable only through
/// set_host(Some("")) / the quirks host setters on a non-special URL; later accessors may panic
fn corrupt_empty_host(u: &Url) -> bool {
    let c = url::quirks::internal_components(u);
    let s = u.as_str().as_bytes();
    let se = c.scheme_end as usize;
    se <= s.len() && s[se..].starts_with(b"://") && c.host_start == c.host_end && (c.port.is_some() || c.host_start > c.scheme_end + 3)
}
/// F-C04-12 (a consequence of the open F-C02-2 / F-C02-8): the record has no authority but its path starts with "//", so the
/// serialization reads `scheme://...`; Position::BeforeUsername is then computed from the text (scheme_end + 3)
/// and lies after AfterUsername (= username_end = scheme_end + 1): slicing in component order panics
fn authority_lookalike(u: &Url) -> bool {
    let c = url::quirks::internal_components(u);
    let s = u.as_str().as_bytes();
    let se = c.scheme_end as usize;
    se <= s.len() && s[se..].starts_with(b"://") && c.host_start == c.scheme_end + 1
}
/// F-C04-1: set_host(None) on a non-special URL with a host, an EMPTY path and a query or fragment
fn c04_1_class(u: &Url) -> bool {
    u.has_host() && !u.is_special() && u.path().is_empty() && (u.query().is_some() || u.fragment().is_some())
}
/// F-C04-7: file: base whose LAST path segment is a normalized drive letter that is not the first segment
/// (pop_path refuses to pop it, so the copied base path does not end in '/'), and a relative reference
/// (optionally spelled with the scheme "file:") whose FIRST segment is a double-dot segment
fn c04_7_class(base: &Url, r: &str) -> bool {
    if base.scheme() != "file" {
        return false;
    }
    let p = base.path();
    let last = p.rsplit('/').next().unwrap_or("").as_bytes();
    if !(last.len() == 2 && last[0].is_ascii_alphabetic() && last[1] == b':') || p.len() == 3 {
        return false;
    }
    let t: String = r.trim_matches(|c: char| c <= ' ').chars().filter(|c| !matches!(c, '\t' | '\n' | '\r')).collect();
    let t = match t.get(..5) {
        Some(h) if h.eq_ignore_ascii_case("file:") => &t[5..],
        _ => &t[..],
    };
    let end = t.find(|c| matches!(c, '/' | '\\' | '?' | '#')).unwrap_or(t.len());
    matches!(t[..end].to_ascii_lowercase().as_str(), ".." | "%2e%2e" | "%2e." | ".%2e")
}
fn mark7(base: &Url, r: &str, k: &mut Sink) {
    if c04_7_class(base, r) {
        k.known = Some(K_C04_7);
    }
}

// Known_C11 (copied from idna.rs): a bidi domain name with an all-ASCII non-Punycode label that the bidi
// rule rejects; F-C11-2 is the debug assertion `!had_errors` for such names under a display policy
fn is_rtl(c: char) -> bool {
    let ad = idna_adapter::Adapter::new();
    ad.bidi_class(c).to_mask().intersects(idna_adapter::RTL_MASK)
}
fn bidi_guess(d: &[u8]) -> bool {
    let ad = idna_adapter::Adapter::new();
    let lossy = String::from_utf8_lossy(d).into_owned();
    let mut all: Vec<char> = Vec::new();
    for label in lossy.split('.') {
        let mapped: String = ad.map_normalize(label.chars()).collect();
        for l in mapped.split('.') {
            all.extend(l.chars());
            let low = l.to_ascii_lowercase();
            if let Some(rest) = low.strip_prefix("xn--") {
                if rest.is_ascii() && rest.len() <= 4096 {
                    if let Some(dec) = idna::punycode::decode(rest) {
                        all.extend(ad.normalize_validate(dec.iter().copied()));
                        all.extend(dec);
                    }
                }
            }
        }
    }
    all.into_iter().any(|c| {
        let u = c as u32;
        u >= 0x590 && !(0x900..=0xFB1C).contains(&u) && !(0x1F000..=0x3FFFF).contains(&u) && !(0xFF00..=0x107FF).contains(&u) && !(0x11000..=0x1E7FF).contains(&u) && is_rtl(c)
    })
}
fn ascii_label_bidi_error(l: &str) -> bool {
    let ad = idna_adapter::Adapter::new();
    let cs: Vec<char> = l.chars().collect();
    if cs.is_empty() {
        return false;
    }
    let f = ad.bidi_class(cs[0]);
    if !f.to_mask().intersects(idna_adapter::FIRST_BC_MASK) {
        return true;
    }
    let mut end = cs.len();
    while end > 1 && ad.bidi_class(cs[end - 1]).is_nonspacing_mark() {
        end -= 1;
    }
    if end <= 1 {
        return false;
    }
    let last = ad.bidi_class(cs[end - 1]);
    let ltr = f.is_ltr();
    let lm = if ltr { idna_adapter::LAST_LTR_MASK } else { idna_adapter::LAST_RTL_MASK };
    if !last.to_mask().intersects(lm) {
        return true;
    }
    cs[1..end - 1].iter().any(|&c| {
        let m = ad.bidi_class(c).to_mask();
        !m.intersects(if ltr { idna_adapter::MIDDLE_LTR_MASK } else { idna_adapter::MIDDLE_RTL_MASK })
    })
}
fn known11(d: &[u8], deny: AsciiDenyList, hy: Hyphens) -> bool {
    let b = d.to_vec();
    let r = catch_unwind(move || {
        let (t, _) = Uts46::new().to_unicode(&b, deny, hy);
        t.into_owned()
    });
    let t = match r {
        Ok(t) => t,
        Err(_) => return false,
    };
    if !bidi_guess(d) {
        return false;
    }
    t.split('.').any(|l| l.is_ascii() && !l.is_empty() && !l.to_ascii_lowercase().starts_with("xn--") && ascii_label_bidi_error(&l.to_ascii_lowercase()))
}
/// the class predicate is expensive: the mark is set unconditionally and `exec` evaluates known11 only
/// after a panic with the message / location of the assertion
fn mark11(deny: AsciiDenyList, hy: Hyphens, k: &mut Sink) {
    if DBG {
        k.known = Some(K_C11_2);
        k.c11 = Some((deny, hy));
    }
}

// ================================================================ helpers of the exercisers
fn head(s: &str, n: usize) -> &str {
    match s.char_indices().nth(n) {
        Some((i, _)) => &s[..i],
        None => s,
    }
}
fn deep_blob(u: &Url) -> bool {
    u.scheme() == "blob" && u.as_str().to_ascii_lowercase().matches("blob:").count() > 64
}
fn enc_rev(s: &str) -> Cow<'_, [u8]> {
    Cow::Owned(s.bytes().rev().map(|b| b.wrapping_add(0x40)).collect())
}
fn enc_same(s: &str) -> Cow<'_, [u8]> {
    Cow::Borrowed(s.as_bytes())
}

const POSITIONS: [Position; 16] = [
    Position::BeforeScheme, Position::AfterScheme, Position::BeforeUsername, Position::AfterUsername, Position::BeforePassword,
    Position::AfterPassword, Position::BeforeHost, Position::AfterHost, Position::BeforePort, Position::AfterPort, Position::BeforePath,
    Position::AfterPath, Position::BeforeQuery, Position::AfterQuery, Position::BeforeFragment, Position::AfterFragment,
];
/// Index<Range*<Position>>: every range whose ends are in component order (a reversed range is the
/// caller's error, as for str); for long URLs only the open-ended ranges
fn slicing(u: &Url, k: &mut Sink) {
    let light = u.as_str().len() > 4096;
    for (i, a) in POSITIONS.iter().enumerate() {
        k.s("slice-from", &u[*a..]);
        k.s("slice-to", &u[..*a]);
        if !light {
            for b in POSITIONS[i..].iter() {
                k.s("slice", &u[*a..*b]);
            }
        }
    }
    k.s("slice-full", &u[..]);
}

/// all `&self` rows on one URL, Position slicing, check_invariants
fn url_all(u: &Url, k: &mut Sink, strict: bool) {
    if corrupt_empty_host(u) {
        k.known = Some(K_C04_3);
    }
    let saved = k.strict;
    k.strict = strict;
    let c = Ctx { bytes: b"", text: "", url: u, small: 0 };
    for r in rows().iter().filter(|r| r.kind == Kind::UrlGet) {
        (r.f)(&c, k);
    }
    let saved_known = k.known;
    if authority_lookalike(u) {
        k.known = Some(K_C04_12);
    }
    slicing(u, k);
    k.known = saved_known;
    k.strict = saved;
}
fn res_url(r: Result<Url, url::ParseError>, k: &mut Sink) {
    match r {
        Ok(u) => {
            k.class = "ok";
            url_all(&u, k, true);
        }
        Err(e) => {
            k.class = "err";
            k.disp("ParseError", &e);
            k.dbg("ParseError", &e);
        }
    }
}
fn unit_class(r: Result<(), ()>, k: &mut Sink) {
    k.class = if r.is_ok() { "ok" } else { "err" };
}

/// a fmt::Write that fails at its k-th call
struct CountSink {
    buf: String,
    calls: usize,
    fail_at: Option<usize>,
}
impl CountSink {
    fn new(fail_at: Option<usize>) -> Self {
        CountSink { buf: String::new(), calls: 0, fail_at }
    }
    fn tick(&mut self) -> std::fmt::Result {
        let n = self.calls;
        self.calls += 1;
        if Some(n) == self.fail_at { Err(std::fmt::Error) } else { Ok(()) }
    }
}
impl std::fmt::Write for CountSink {
    fn write_str(&mut self, s: &str) -> std::fmt::Result {
        self.tick()?;
        self.buf.push_str(s);
        Ok(())
    }
    fn write_char(&mut self, c: char) -> std::fmt::Result {
        self.tick()?;
        self.buf.push(c);
        Ok(())
    }
}

fn deny_of(x: u64) -> AsciiDenyList {
    match x % 3 {
        0 => AsciiDenyList::EMPTY,
        1 => AsciiDenyList::STD3,
        _ => AsciiDenyList::URL,
    }
}
fn hy_of(x: u64) -> Hyphens {
    match x % 3 {
        0 => Hyphens::Allow,
        1 => Hyphens::CheckFirstLast,
        _ => Hyphens::Check,
    }
}
fn dns_of(x: u64) -> DnsLength {
    match x % 3 {
        0 => DnsLength::Ignore,
        1 => DnsLength::VerifyAllowRootDot,
        _ => DnsLength::Verify,
    }
}
fn config_of(bits: u64) -> idna::Config {
    idna::Config::default()
        .use_std3_ascii_rules(bits & 1 != 0)
        .transitional_processing(bits & 2 != 0)
        .verify_dns_length(bits & 4 != 0)
        .check_hyphens(bits & 8 != 0)
        .use_idna_2008_rules(false)
}
static MY_SET: AsciiSet = CONTROLS.add(b' ').add(b'%').add(b'/').add(b'a');

fn data_url_all(c: &Ctx, k: &mut Sink) {
    match DataUrl::process(c.text) {
        Err(e) => {
            k.class = "err";
            k.disp("DataUrlError", &e);
            k.dbg("DataUrlError", &e);
        }
        Ok(d) => {
            k.class = "ok";
            let m = d.mime_type();
            k.s("type", &m.type_);
            k.s("subtype", &m.subtype);
            for (a, b) in &m.parameters {
                k.s("pname", a);
                k.s("pvalue", b);
            }
            k.disp("mime", m);
            k.dbg("mime", m);
            k.os("charset", m.get_parameter("charset"));
            match d.decode_to_vec() {
                Ok((_body, frag)) => {
                    if let Some(f) = frag {
                        k.s("fragment", &f.to_percent_encoded());
                    }
                }
                Err(e) => {
                    k.class = "ok-badbase64";
                    k.disp("InvalidBase64", &e);
                    k.dbg("InvalidBase64", &e);
                }
            }
            let mut total = 0usize;
            let r = d.decode::<_, ()>(|b| {
                total += b.len();
                Ok(())
            });
            if let Ok(Some(f)) = r {
                k.s("fragment", &f.to_percent_encoded());
            }
            // a failing writer
            let mut calls = 0;
            let r = d.decode(|_b| {
                calls += 1;
                if calls > 1 { Err("stop") } else { Ok(()) }
            });
            if let Err(e) = r {
                k.disp("DecodeError", &e);
                k.dbg("DecodeError", &e);
            }
        }
    }
}
fn serializer_pairs(text: &str) -> Vec<(String, String)> {
    text.split('&').take(64).map(|p| {
        let mut it = p.splitn(2, '=');
        (it.next().unwrap_or("").to_string(), it.next().unwrap_or("").to_string())
    }).collect()
}
fn psm_segments<'a>(u: &Url, text: &'a str) -> Vec<&'a str> {
    // F-C04-6 (listed timing finding): extend is quadratic in the number of segments on file: URLs
    let cap = if u.scheme() == "file" { 2048 } else { usize::MAX };
    text.split('/').take(cap).collect()
}

// ================================================================ the entry-point table
fn rows() -> &'static Vec<Row> {
    static R: OnceLock<Vec<Row>> = OnceLock::new();
    R.get_or_init(build_rows)
}
fn noop(_c: &Ctx, _k: &mut Sink) {}

fn build_rows() -> Vec<Row> {
    let mut v: Vec<Row> = Vec::new();
    macro_rules! row {
        ($krate:expr, $name:expr, $kind:expr, $cap:expr, $f:expr) => {{
            let f: RowFn = $f;
            v.push(Row { krate: $krate, name: $name, kind: $kind, cap: $cap, f });
        }};
    }
    macro_rules! internal {
        ($name:expr, $why:expr) => {
            v.push(Row { krate: "url", name: $name, kind: Kind::Internal($why), cap: Cap::Full, f: noop });
        };
    }
    use Kind::*;

    // ------------------------------------------------------------ url: parsing
    row!("url", "ParseOptions::base_url", UrlRef, Cap::Full, |c, k| {
        mark7(c.url, c.text, k);
        res_url(Url::options().base_url(Some(c.url)).parse(c.text), k);
        k.known = None;
        res_url(Url::options().base_url(Some(c.url)).base_url(None).parse(c.text), k);
    });
    row!("url", "ParseOptions::encoding_override", UrlRef, Cap::Full, |c, k| {
        mark7(c.url, c.text, k);
        res_url(Url::options().base_url(Some(c.url)).encoding_override(Some(&enc_rev)).parse(c.text), k);
        k.known = None;
        res_url(Url::options().encoding_override(Some(&enc_same)).encoding_override(None).parse(c.text), k);
    });
    row!("url", "ParseOptions::syntax_violation_callback", UrlRef, Cap::Full, |c, k| {
        let seen: RefCell<Vec<SyntaxViolation>> = RefCell::new(Vec::new());
        let cb = |v: SyntaxViolation| {
            let mut s = seen.borrow_mut();
            if s.len() < 64 {
                s.push(v)
            }
        };
        mark7(c.url, c.text, k);
        let r = Url::options().base_url(Some(c.url)).syntax_violation_callback(Some(&cb)).parse(c.text);
        k.known = None;
        for v in seen.borrow().iter() {
            k.s("description", v.description());
            k.disp("violation", v);
            k.dbg("violation", v);
        }
        res_url(r, k);
        let _ = Url::options().syntax_violation_callback(Some(&cb)).syntax_violation_callback(None).parse(c.text);
    });
    row!("url", "ParseOptions::parse", UrlRef, Cap::Full, |c, k| {
        res_url(Url::options().parse(c.text), k);
        mark7(c.url, c.text, k);
        res_url(Url::options().base_url(Some(c.url)).parse(c.text), k);
    });
    row!("url", "Url::parse", UrlStr, Cap::Full, |c, k| res_url(Url::parse(c.text), k));
    row!("url", "Url::parse_with_params", UrlStr, Cap::Full, |c, k| {
        res_url(Url::parse_with_params(c.text, &[(head(c.text, 16), c.text), ("", "")]), k);
    });
    row!("url", "Url::join", UrlRef, Cap::Full, |c, k| {
        mark7(c.url, c.text, k);
        res_url(c.url.join(c.text), k);
    });
    row!("url", "Url::make_relative", UrlRef, Cap::Full, |c, k| {
        mark7(c.url, c.text, k);
        let t = c.url.join(c.text);
        k.known = None;
        let t = match t {
            Ok(t) => t,
            Err(_) => match Url::parse(c.text) {
                Ok(t) => t,
                Err(_) => {
                    k.class = "noparse";
                    return;
                }
            },
        };
        k.class = "none";
        if let Some(r) = c.url.make_relative(&t) {
            k.class = "some";
            k.s("relative", &r);
            mark7(c.url, &r, k);
            if let Ok(j) = c.url.join(&r) {
                k.s("rejoined", j.as_str());
            }
            k.known = None;
        }
        if let Some(r) = t.make_relative(c.url) {
            k.s("relative-back", &r);
        }
        if let Some(r) = t.make_relative(&t) {
            k.s("relative-self", &r);
        }
    });
    row!("url", "Url::options", Small, Cap::Full, |_c, k| {
        res_url(Url::options().parse("http://example.com/a?b#c"), k);
    });

    // ------------------------------------------------------------ url: &self methods
    row!("url", "Url::as_str", UrlGet, Cap::Full, |c, k| {
        k.s("as_str", c.url.as_str());
        k.disp("Display", c.url);
        k.dbg("Debug", c.url);
        let s: &str = c.url.as_ref();
        k.s("as_ref", s);
        let st: String = c.url.clone().into();
        k.s("into", &st);
    });
    row!("url", "Url::into_string", UrlGet, Cap::Full, |c, k| k.s("into_string", &c.url.clone().into_string()));
    row!("url", "Url::check_invariants", UrlGet, Cap::Full, |c, k| {
        if let Err(e) = c.url.check_invariants() {
            k.s("invariant", &e);
            // F-C02-1 (open, Known_file_drive): file: URLs with a drive-letter segment are not parse fixpoints
            let c02_1 = c.url.scheme() == "file" && e.contains("&self.serialization != &other.serialization");
            if c02_1 {
                k.inv.get_or_insert(format!("F-C02-1:{}", e));
            } else if k.strict {
                k.strict_inv.get_or_insert(e);
            } else {
                k.inv.get_or_insert(e);
            }
        }
    });
    row!("url", "Url::origin", UrlGet, Cap::Full, |c, k| {
        if deep_blob(c.url) {
            k.class = "skipped-deep-blob";
            return;
        }
        let o = c.url.origin();
        k.s("ascii", &o.ascii_serialization());
        k.s("unicode", &o.unicode_serialization());
        k.dbg("origin", &o);
        let _ = o.is_tuple();
    });
    row!("url", "Url::scheme", UrlGet, Cap::Full, |c, k| k.s("scheme", c.url.scheme()));
    row!("url", "Url::is_special", UrlGet, Cap::Full, |c, _k| {
        let _ = c.url.is_special();
    });
    row!("url", "Url::has_authority", UrlGet, Cap::Full, |c, _k| {
        let _ = c.url.has_authority();
    });
    row!("url", "Url::authority", UrlGet, Cap::Full, |c, k| k.s("authority", c.url.authority()));
    row!("url", "Url::cannot_be_a_base", UrlGet, Cap::Full, |c, _k| {
        let _ = c.url.cannot_be_a_base();
    });
    row!("url", "Url::username", UrlGet, Cap::Full, |c, k| k.s("username", c.url.username()));
    row!("url", "Url::password", UrlGet, Cap::Full, |c, k| k.os("password", c.url.password()));
    row!("url", "Url::has_host", UrlGet, Cap::Full, |c, _k| {
        let _ = c.url.has_host();
    });
    row!("url", "Url::host_str", UrlGet, Cap::Full, |c, k| k.os("host_str", c.url.host_str()));
    row!("url", "Url::host", UrlGet, Cap::Full, |c, k| {
        if let Some(h) = c.url.host() {
            k.disp("host", &h);
            k.dbg("host", &h);
            if let Host::Domain(d) = h {
                k.s("host-domain", d);
            }
        }
    });
    row!("url", "Url::domain", UrlGet, Cap::Full, |c, k| k.os("domain", c.url.domain()));
    row!("url", "Url::port", UrlGet, Cap::Full, |c, _k| {
        let _ = c.url.port();
    });
    row!("url", "Url::port_or_known_default", UrlGet, Cap::Full, |c, _k| {
        let _ = c.url.port_or_known_default();
    });
    // socket_addrs resolves domain hosts through DNS: it is called only when the host is absent or an IP
    // literal, or when no port can be determined (closure returns None, scheme without default port), so
    // that it returns before resolving
    row!("url", "Url::socket_addrs", UrlGet, Cap::Full, |c, k| {
        let u = c.url;
        let domain = matches!(u.host(), Some(Host::Domain(_)));
        if domain && u.port_or_known_default().is_some() {
            k.class = "skipped-dns";
            return;
        }
        match u.socket_addrs(|| None) {
            Ok(v) => v.iter().for_each(|a| k.disp("addr", a)),
            Err(e) => k.disp("io-error", &e),
        }
        if !domain {
            match u.socket_addrs(|| Some(8080)) {
                Ok(v) => v.iter().for_each(|a| k.disp("addr", a)),
                Err(e) => k.disp("io-error", &e),
            }
        }
    });
    row!("url", "Url::path", UrlGet, Cap::Full, |c, k| k.s("path", c.url.path()));
    row!("url", "Url::path_segments", UrlGet, Cap::Full, |c, k| {
        if let Some(it) = c.url.path_segments() {
            for s in it {
                k.s("segment", s);
            }
        }
    });
    row!("url", "Url::query", UrlGet, Cap::Full, |c, k| k.os("query", c.url.query()));
    row!("url", "Url::query_pairs", UrlGet, Cap::Full, |c, k| {
        for (a, b) in c.url.query_pairs() {
            k.s("qname", &a);
            k.s("qvalue", &b);
        }
        let _ = c.url.query_pairs().size_hint();
    });
    row!("url", "Url::fragment", UrlGet, Cap::Full, |c, k| k.os("fragment", c.url.fragment()));
    row!("url", "Url::serialize_internal", UrlGet, Cap::Full, |c, k| {
        let mut buf = Vec::new();
        match c.url.serialize_internal(&mut serde_json::Serializer::new(&mut buf)) {
            Ok(()) => k.raw("serialized", &buf),
            Err(e) => k.disp("serde-error", &e),
        }
    });
    // deserialize_internal trusts its input: it is fed only what serialize_internal produced
    row!("url", "Url::deserialize_internal", UrlGet, Cap::Full, |c, k| {
        let mut buf = Vec::new();
        if c.url.serialize_internal(&mut serde_json::Serializer::new(&mut buf)).is_ok() {
            match Url::deserialize_internal(&mut serde_json::Deserializer::from_slice(&buf)) {
                Ok(u) => {
                    k.s("deserialized", u.as_str());
                    k.os("deserialized-host", u.host_str());
                    k.s("deserialized-path", u.path());
                }
                Err(e) => k.disp("serde-error", &e),
            }
        }
    });
    row!("url", "Url::to_file_path", UrlGet, Cap::Full, |c, k| {
        if let Ok(p) = c.url.to_file_path() {
            k.s("file-path", &p.to_string_lossy());
        }
    });
    row!("url", "Host::to_owned", UrlGet, Cap::Full, |c, k| {
        if let Some(h) = c.url.host() {
            let o: Host<String> = h.to_owned();
            k.disp("host-owned", &o);
            k.dbg("host-owned", &o);
        }
    });
    row!("url", "quirks::internal_components", UrlGet, Cap::Full, |c, _k| {
        let i = url::quirks::internal_components(c.url);
        let _ = (i.scheme_end, i.username_end, i.host_start, i.host_end, i.port, i.path_start, i.query_start, i.fragment_start);
    });
    row!("url", "quirks::href", UrlGet, Cap::Full, |c, k| k.s("href", url::quirks::href(c.url)));
    row!("url", "quirks::origin", UrlGet, Cap::Full, |c, k| {
        if deep_blob(c.url) {
            k.class = "skipped-deep-blob";
            return;
        }
        k.s("q-origin", &url::quirks::origin(c.url));
    });
    row!("url", "quirks::protocol", UrlGet, Cap::Full, |c, k| k.s("protocol", url::quirks::protocol(c.url)));
    row!("url", "quirks::username", UrlGet, Cap::Full, |c, k| k.s("q-username", url::quirks::username(c.url)));
    row!("url", "quirks::password", UrlGet, Cap::Full, |c, k| k.s("q-password", url::quirks::password(c.url)));
    row!("url", "quirks::host", UrlGet, Cap::Full, |c, k| k.s("q-host", url::quirks::host(c.url)));
    row!("url", "quirks::hostname", UrlGet, Cap::Full, |c, k| k.s("q-hostname", url::quirks::hostname(c.url)));
    row!("url", "quirks::port", UrlGet, Cap::Full, |c, k| k.s("q-port", url::quirks::port(c.url)));
    row!("url", "quirks::pathname", UrlGet, Cap::Full, |c, k| k.s("q-pathname", url::quirks::pathname(c.url)));
    row!("url", "quirks::search", UrlGet, Cap::Full, |c, k| k.s("q-search", url::quirks::search(c.url)));
    row!("url", "quirks::hash", UrlGet, Cap::Full, |c, k| k.s("q-hash", url::quirks::hash(c.url)));

    // ------------------------------------------------------------ url: setters
    row!("url", "Url::set_fragment", UrlSet, Cap::Full, |c, k| {
        let mut u = c.url.clone();
        u.set_fragment(Some(c.text));
        url_all(&u, k, false);
        u.set_fragment(None);
        url_all(&u, k, false);
    });
    row!("url", "Url::set_query", UrlSet, Cap::Full, |c, k| {
        let mut u = c.url.clone();
        u.set_query(Some(c.text));
        url_all(&u, k, false);
        u.set_query(None);
        url_all(&u, k, false);
    });
    row!("url", "Url::query_pairs_mut", UrlSet, Cap::Full, |c, k| {
        let mut u = c.url.clone();
        u.query_pairs_mut().append_pair(head(c.text, 8), c.text).append_key_only(c.text).extend_pairs(serializer_pairs(c.text).iter()).finish();
        url_all(&u, k, false);
        u.query_pairs_mut().clear().encoding_override(Some(&enc_rev)).append_pair("k", c.text);
        url_all(&u, k, false);
        u.query_pairs_mut().clear();
        url_all(&u, k, false);
    });
    row!("url", "Url::set_path", UrlSet, Cap::Full, |c, k| {
        let mut u = c.url.clone();
        u.set_path(c.text);
        url_all(&u, k, false);
    });
    row!("url", "Url::path_segments_mut", UrlSet, Cap::Full, |c, k| {
        let mut u = c.url.clone();
        match u.path_segments_mut() {
            Ok(mut p) => {
                p.pop_if_empty().push(c.text);
            }
            Err(()) => k.class = "err",
        }
        url_all(&u, k, false);
    });
    row!("url", "Url::set_port", UrlSet, Cap::Full, |c, k| {
        let mut u = c.url.clone();
        let p = if c.small & 1 == 0 { Some((c.small >> 1) as u16) } else { None };
        unit_class(u.set_port(p), k);
        url_all(&u, k, false);
        let _ = u.set_port(c.text.trim().parse::<u16>().ok());
        url_all(&u, k, false);
    });
    row!("url", "Url::set_host", UrlSet, Cap::Full, |c, k| {
        let mut u = c.url.clone();
        k.class = if u.set_host(Some(c.text)).is_ok() { "ok" } else { "err" };
        url_all(&u, k, false);
        k.known = None;
        let mut u = c.url.clone();
        if c04_1_class(&u) {
            k.known = Some(K_C04_1);
        }
        let _ = u.set_host(None);
        k.known = None;
        url_all(&u, k, false);
    });
    row!("url", "Url::set_ip_host", UrlSet, Cap::Full, |c, k| {
        let mut u = c.url.clone();
        let mut b = [0u8; 16];
        for (i, x) in c.bytes.iter().take(16).enumerate() {
            b[i] = *x;
        }
        let a4 = std::net::IpAddr::V4(std::net::Ipv4Addr::new(b[0], b[1], b[2], b[3]));
        unit_class(u.set_ip_host(a4), k);
        url_all(&u, k, false);
        let _ = u.set_ip_host(std::net::IpAddr::V6(std::net::Ipv6Addr::from(b)));
        url_all(&u, k, false);
    });
    row!("url", "Url::set_password", UrlSet, Cap::Full, |c, k| {
        let mut u = c.url.clone();
        unit_class(u.set_password(Some(c.text)), k);
        url_all(&u, k, false);
        let _ = u.set_password(None);
        url_all(&u, k, false);
    });
    row!("url", "Url::set_username", UrlSet, Cap::Full, |c, k| {
        let mut u = c.url.clone();
        unit_class(u.set_username(c.text), k);
        url_all(&u, k, false);
    });
    row!("url", "Url::set_scheme", UrlSet, Cap::Full, |c, k| {
        let mut u = c.url.clone();
        unit_class(u.set_scheme(c.text), k);
        url_all(&u, k, false);
    });
    row!("url", "PathSegmentsMut::clear", UrlSet, Cap::Full, |c, k| {
        let mut u = c.url.clone();
        if let Ok(mut p) = u.path_segments_mut() {
            p.clear().push(c.text).clear();
        }
        url_all(&u, k, false);
    });
    row!("url", "PathSegmentsMut::pop_if_empty", UrlSet, Cap::Full, |c, k| {
        let mut u = c.url.clone();
        if let Ok(mut p) = u.path_segments_mut() {
            p.pop_if_empty().pop_if_empty().push(c.text).pop_if_empty();
        }
        url_all(&u, k, false);
    });
    row!("url", "PathSegmentsMut::pop", UrlSet, Cap::Full, |c, k| {
        let mut u = c.url.clone();
        if let Ok(mut p) = u.path_segments_mut() {
            p.pop().push(c.text).pop().pop().pop().pop();
        }
        url_all(&u, k, false);
    });
    row!("url", "PathSegmentsMut::push", UrlSet, Cap::Full, |c, k| {
        let mut u = c.url.clone();
        if let Ok(mut p) = u.path_segments_mut() {
            p.push(c.text).push("").push(head(c.text, 3));
        }
        url_all(&u, k, false);
    });
    row!("url", "PathSegmentsMut::extend", UrlSet, Cap::Full, |c, k| {
        let mut u = c.url.clone();
        let segs = psm_segments(&u, c.text);
        if let Ok(mut p) = u.path_segments_mut() {
            p.extend(segs.iter()).extend(Some(c.text)).extend(None::<&str>);
        }
        url_all(&u, k, false);
    });
    row!("url", "quirks::set_href", UrlSet, Cap::Full, |c, k| {
        let mut u = c.url.clone();
        k.class = if url::quirks::set_href(&mut u, c.text).is_ok() { "ok" } else { "err" };
        url_all(&u, k, false);
    });
    macro_rules! quirk_setter {
        ($name:expr, $f:path) => {
            row!("url", $name, UrlSet, Cap::Full, |c, k| {
                let mut u = c.url.clone();
                unit_class($f(&mut u, c.text), k);
                url_all(&u, k, false);
            });
        };
    }
    quirk_setter!("quirks::set_protocol", url::quirks::set_protocol);
    quirk_setter!("quirks::set_username", url::quirks::set_username);
    quirk_setter!("quirks::set_password", url::quirks::set_password);
    quirk_setter!("quirks::set_host", url::quirks::set_host);
    quirk_setter!("quirks::set_hostname", url::quirks::set_hostname);
    quirk_setter!("quirks::set_port", url::quirks::set_port);
    row!("url", "quirks::set_pathname", UrlSet, Cap::Full, |c, k| {
        let mut u = c.url.clone();
        url::quirks::set_pathname(&mut u, c.text);
        url_all(&u, k, false);
    });
    row!("url", "quirks::set_search", UrlSet, Cap::Full, |c, k| {
        let mut u = c.url.clone();
        url::quirks::set_search(&mut u, c.text);
        url_all(&u, k, false);
    });
    row!("url", "quirks::set_hash", UrlSet, Cap::Full, |c, k| {
        let mut u = c.url.clone();
        url::quirks::set_hash(&mut u, c.text);
        url_all(&u, k, false);
    });

    // ------------------------------------------------------------ url: plain data
    row!("url", "Url::from_file_path", Bytes, Cap::Full, |c, k| {
        use std::os::unix::ffi::OsStrExt;
        let p = std::path::Path::new(std::ffi::OsStr::from_bytes(c.bytes));
        // F-C02-5 (open): a `..` component is written as a segment, so the value is not a parse fixpoint
        let strict = !p.components().any(|c| matches!(c, std::path::Component::ParentDir));
        match Url::from_file_path(p) {
            Ok(u) => url_all(&u, k, strict),
            Err(()) => k.class = "err",
        }
    });
    row!("url", "Url::from_directory_path", Bytes, Cap::Full, |c, k| {
        use std::os::unix::ffi::OsStrExt;
        let p = std::path::Path::new(std::ffi::OsStr::from_bytes(c.bytes));
        // F-C02-5 (open): a `..` component is written as a segment, so the value is not a parse fixpoint
        let strict = !p.components().any(|c| matches!(c, std::path::Component::ParentDir));
        match Url::from_directory_path(p) {
            Ok(u) => url_all(&u, k, strict),
            Err(()) => k.class = "err",
        }
    });
    row!("url", "Host::parse", Str, Cap::Idna, |c, k| match Host::parse(c.text) {
        Ok(h) => {
            k.disp("host", &h);
            k.dbg("host", &h);
        }
        Err(e) => {
            k.class = "err";
            k.disp("ParseError", &e);
        }
    });
    row!("url", "Host::parse_opaque", Str, Cap::Full, |c, k| match Host::parse_opaque(c.text) {
        Ok(h) => {
            k.disp("host", &h);
            k.dbg("host", &h);
        }
        Err(e) => {
            k.class = "err";
            k.disp("ParseError", &e);
        }
    });
    row!("url", "Origin::new_opaque", Small, Cap::Full, |_c, k| {
        let o = Origin::new_opaque();
        k.s("ascii", &o.ascii_serialization());
        k.s("unicode", &o.unicode_serialization());
        k.dbg("origin", &o);
    });
    row!("url", "Origin::is_tuple", Str, Cap::Idna, |c, k| {
        let o = Origin::Tuple(head(c.text, 16).to_string(), Host::Domain(c.text.to_string()), c.small as u16);
        let _ = o.is_tuple();
        let _ = Origin::new_opaque().is_tuple();
        k.dbg("origin", &o);
    });
    row!("url", "Origin::ascii_serialization", Str, Cap::Idna, |c, k| {
        let o = Origin::Tuple(head(c.text, 16).to_string(), Host::Domain(c.text.to_string()), c.small as u16);
        k.s("ascii", &o.ascii_serialization());
    });
    row!("url", "Origin::unicode_serialization", Str, Cap::Idna, |c, k| {
        let o = Origin::Tuple(head(c.text, 16).to_string(), Host::Domain(c.text.to_string()), c.small as u16);
        k.s("unicode", &o.unicode_serialization());
    });
    row!("url", "SyntaxViolation::description", Small, Cap::Full, |c, k| {
        use SyntaxViolation::*;
        let all = [
            Backslash, C0SpaceIgnored, EmbeddedCredentials, ExpectedDoubleSlash, ExpectedFileDoubleSlash, FileWithHostAndWindowsDrive,
            NonUrlCodePoint, NullInFragment, PercentDecode, TabOrNewlineIgnored, UnencodedAtSign,
        ];
        let v = all[(c.small % all.len() as u64) as usize];
        k.s("description", v.description());
        k.disp("violation", &v);
        k.dbg("violation", &v);
    });
    row!("url", "quirks::domain_to_ascii", Str, Cap::Idna, |c, k| k.s("ascii", &url::quirks::domain_to_ascii(c.text)));
    row!("url", "quirks::domain_to_unicode", Str, Cap::Idna, |c, k| k.s("unicode", &url::quirks::domain_to_unicode(c.text)));

    // ------------------------------------------------------------ url: pub fns of private modules (types not re-exported)
    internal!("origin::url_origin", "module `origin` is private and only Origin/OpaqueOrigin are re-exported; through Url::origin / quirks::origin");
    internal!("SchemeType::is_special", "parser::SchemeType is not re-exported; through Url::parse / Url::join / every setter");
    internal!("SchemeType::is_file", "parser::SchemeType is not re-exported; through Url::parse / Url::join / every setter");
    internal!("parser::default_port", "module `parser` is private; through Url::port_or_known_default / Url::parse / quirks::set_host / quirks::set_port");
    internal!("Input::new_no_trim", "parser::Input is not re-exported; through the quirks setters and Url::set_path / set_query / set_fragment");
    internal!("Input::new_trim_tab_and_newlines", "parser::Input is not re-exported; through Url::set_query / quirks::set_search");
    internal!("Input::new_trim_c0_control_and_space", "parser::Input is not re-exported; through Url::parse / Url::join / ParseOptions::parse");
    internal!("Input::is_empty", "parser::Input is not re-exported; through Url::parse / quirks::set_host");
    internal!("Input::split_prefix", "parser::Input is not re-exported; through Url::parse / Url::join / quirks::set_host");
    internal!("Parser::for_setter", "parser::Parser is not re-exported; through every Url setter and PathSegmentsMut");
    internal!("Parser::parse_url", "parser::Parser is not re-exported; through Url::parse / Url::join / ParseOptions::parse");
    internal!("Parser::parse_scheme", "parser::Parser is not re-exported; through Url::parse / Url::set_scheme / quirks::set_protocol");
    internal!("Parser::parse_host", "parser::Parser is not re-exported; through Url::parse / quirks::set_host / quirks::set_hostname");
    internal!("Parser::file_host", "parser::Parser is not re-exported; through Url::parse / Url::join on file: inputs");
    internal!("Parser::parse_port", "parser::Parser is not re-exported; through Url::parse / quirks::set_host / quirks::set_port");
    internal!("Parser::parse_path_start", "parser::Parser is not re-exported; through Url::parse / Url::set_path / quirks::set_pathname");
    internal!("Parser::parse_path", "parser::Parser is not re-exported; through Url::parse / Url::join / Url::set_path / PathSegmentsMut::push / extend");
    internal!("Parser::parse_cannot_be_a_base_path", "parser::Parser is not re-exported; through Url::parse / Url::set_path on opaque-path URLs");
    internal!("Parser::parse_query", "parser::Parser is not re-exported; through Url::parse / Url::join / Url::set_query / quirks::set_search");
    internal!("Parser::parse_fragment", "parser::Parser is not re-exported; through Url::parse / Url::join / Url::set_fragment / quirks::set_hash");
    internal!("parser::ascii_alpha", "module `parser` is private; through Url::parse (scheme, drive letters)");
    internal!("parser::to_u32", "module `parser` is private; through Url::parse / every setter (4 GiB limit; not reached by the sizes used here)");
    internal!("parser::is_windows_drive_letter", "module `parser` is private; through Url::parse / Url::join on file: inputs, Url::to_file_path");
    internal!("path_segments::new", "module `path_segments` is private (only PathSegmentsMut is re-exported); through Url::path_segments_mut");
    v.extend(build_rows_other());
    v
}

fn build_rows_other() -> Vec<Row> {
    let mut v: Vec<Row> = Vec::new();
    macro_rules! row {
        ($krate:expr, $name:expr, $kind:expr, $cap:expr, $f:expr) => {{
            let f: RowFn = $f;
            v.push(Row { krate: $krate, name: $name, kind: $kind, cap: $cap, f });
        }};
    }
    use Kind::*;
    fn errs(e: &idna::Errors, k: &mut Sink) {
        k.class = "err";
        k.disp("Errors", e);
        k.dbg("Errors", e);
    }

    // ------------------------------------------------------------ idna
    row!("idna", "domain_to_ascii_cow", Bytes, Cap::Idna, |c, k| {
        for d in 0..3 {
            match idna::domain_to_ascii_cow(c.bytes, deny_of(d)) {
                Ok(s) => k.s("ascii", &s),
                Err(e) => errs(&e, k),
            }
        }
    });
    row!("idna", "domain_to_ascii", Str, Cap::Idna, |c, k| match idna::domain_to_ascii(c.text) {
        Ok(s) => k.s("ascii", &s),
        Err(e) => errs(&e, k),
    });
    row!("idna", "domain_to_ascii_strict", Str, Cap::Idna, |c, k| match idna::domain_to_ascii_strict(c.text) {
        Ok(s) => k.s("ascii", &s),
        Err(e) => errs(&e, k),
    });
    row!("idna", "domain_to_unicode", Str, Cap::Idna, |c, k| {
        let (s, r) = idna::domain_to_unicode(c.text);
        k.s("unicode", &s);
        if let Err(e) = r {
            errs(&e, k);
        }
    });
    row!("idna", "Idna::new", Small, Cap::Full, |c, k| {
        let mut i = idna::Idna::new(config_of(c.small));
        let mut out = String::new();
        if let Err(e) = i.to_ascii("Ex\u{e4}mple.xn--4db.-a.", &mut out) {
            errs(&e, k);
        }
        k.s("out", &out);
        let _ = idna::Idna::default();
    });
    // `out` is pre-filled with ASCII only (F-C04-13: with verify_dns_length the deprecated API hands `out` to
    // uts46::verify_dns_length, whose debug assertion fails on a non-ASCII `out`)
    row!("idna", "Idna::to_ascii", Str, Cap::Idna, |c, k| {
        for (bits, pre) in [(c.small, ""), (c.small >> 4, "x.")] {
            let mut out = String::from(pre);
            if let Err(e) = idna::Idna::new(config_of(bits)).to_ascii(c.text, &mut out) {
                errs(&e, k);
            }
            k.s("out", &out);
        }
    });
    row!("idna", "Idna::to_unicode", Str, Cap::Idna, |c, k| {
        for (bits, pre) in [(c.small, ""), (c.small >> 4, "\u{e9}.")] {
            let mut out = String::from(pre);
            if let Err(e) = idna::Idna::new(config_of(bits)).to_unicode(c.text, &mut out) {
                errs(&e, k);
            }
            k.s("out", &out);
        }
    });
    macro_rules! config_flag {
        ($name:expr, $m:ident) => {
            row!("idna", $name, Small, Cap::Full, |c, k| {
                let cfg = idna::Config::default().$m(c.small & 1 != 0);
                match cfg.to_ascii("-Ex\u{e4}mple_.xn--4db.\u{df}") {
                    Ok(s) => k.s("ascii", &s),
                    Err(e) => errs(&e, k),
                }
                k.s("unicode", &cfg.to_unicode("xn--4db.a_b").0);
            });
        };
    }
    config_flag!("Config::use_std3_ascii_rules", use_std3_ascii_rules);
    config_flag!("Config::transitional_processing", transitional_processing);
    config_flag!("Config::verify_dns_length", verify_dns_length);
    config_flag!("Config::check_hyphens", check_hyphens);
    // use_idna_2008_rules(true) is a documented panic (probed in the stream `documented`)
    row!("idna", "Config::use_idna_2008_rules", Small, Cap::Full, |_c, k| {
        let cfg = idna::Config::default().use_idna_2008_rules(false);
        if let Ok(s) = cfg.to_ascii("a.b") {
            k.s("ascii", &s);
        }
    });
    row!("idna", "Config::to_ascii", Str, Cap::Idna, |c, k| match config_of(c.small).to_ascii(c.text) {
        Ok(s) => k.s("ascii", &s),
        Err(e) => errs(&e, k),
    });
    row!("idna", "Config::to_unicode", Str, Cap::Idna, |c, k| {
        let (s, r) = config_of(c.small).to_unicode(c.text);
        k.s("unicode", &s);
        if let Err(e) = r {
            errs(&e, k);
        }
    });
    row!("idna", "punycode::decode_to_string", Str, Cap::Puny, |c, k| match idna::punycode::decode_to_string(c.text) {
        Some(s) => k.s("decoded", &s),
        None => k.class = "none",
    });
    row!("idna", "punycode::decode", Str, Cap::Puny, |c, k| match idna::punycode::decode(c.text) {
        Some(cs) => {
            let s: String = cs.into_iter().collect();
            k.s("decoded", &s);
        }
        None => k.class = "none",
    });
    row!("idna", "punycode::encode_str", Str, Cap::Puny, |c, k| match idna::punycode::encode_str(c.text) {
        Some(s) => k.s("encoded", &s),
        None => k.class = "none",
    });
    row!("idna", "punycode::encode", Str, Cap::Puny, |c, k| {
        let cs: Vec<char> = c.text.chars().collect();
        match idna::punycode::encode(&cs) {
            Some(s) => k.s("encoded", &s),
            None => k.class = "none",
        }
    });
    // prohibited characters (letters, digits, '-', '.', non-ASCII) are a documented panic: filtered out here
    row!("idna", "AsciiDenyList::new", Str, Cap::Full, |c, k| {
        let allowed: String = c.text.chars().filter(|ch| ch.is_ascii() && !ch.is_ascii_alphanumeric() && *ch != '-' && *ch != '.').collect();
        let d = AsciiDenyList::new(c.small & 1 != 0, &allowed);
        match Uts46::new().to_ascii(b"a b.c_d.\x01", d, Hyphens::Allow, DnsLength::Ignore) {
            Ok(s) => k.s("ascii", &s),
            Err(e) => errs(&e, k),
        }
    });
    // non-ASCII input is a documented panic in debug builds: fed only to release builds
    row!("idna", "uts46::verify_dns_length", Str, Cap::Full, |c, k| {
        if DBG && !c.text.is_ascii() {
            k.class = "skipped-documented";
            return;
        }
        let _ = idna::uts46::verify_dns_length(c.text, false);
        let _ = idna::uts46::verify_dns_length(c.text, true);
    });
    row!("idna", "Uts46::new", Small, Cap::Full, |_c, k| {
        let u = Uts46::new();
        if let Ok(s) = u.to_ascii(b"a.B", AsciiDenyList::URL, Hyphens::Allow, DnsLength::Ignore) {
            k.s("ascii", &s);
        }
        let _ = Uts46::default();
    });
    row!("idna", "Uts46::to_ascii", Bytes, Cap::Idna, |c, k| {
        for i in 0..3u64 {
            match Uts46::new().to_ascii(c.bytes, deny_of(c.small + i), hy_of(c.small / 3 + i), dns_of(c.small / 9 + i)) {
                Ok(s) => k.s("ascii", &s),
                Err(e) => errs(&e, k),
            }
        }
    });
    row!("idna", "Uts46::to_unicode", Bytes, Cap::Idna, |c, k| {
        for i in 0..2u64 {
            let (s, r) = Uts46::new().to_unicode(c.bytes, deny_of(c.small + i), hy_of(c.small / 3 + i));
            k.s("unicode", &s);
            if let Err(e) = r {
                errs(&e, k);
            }
        }
    });
    row!("idna", "Uts46::to_user_interface", Bytes, Cap::Idna, |c, k| {
        for p in 0..3u64 {
            let (deny, hy) = (deny_of(c.small + p), hy_of(c.small / 3));
            mark11(deny, hy, k);
            let (s, r) = Uts46::new().to_user_interface(c.bytes, deny, hy, |label, tld, bidi| match p {
                0 => false,
                1 => label.len() % 2 == 0,
                _ => (label.len() + tld.len() + bidi as usize) % 2 == 0,
            });
            k.known = None;
            k.s("ui", &s);
            if let Err(e) = r {
                errs(&e, k);
            }
        }
    });
    row!("idna", "Uts46::process", Bytes, Cap::Idna, |c, k| {
        for p in 0..4u64 {
            let (deny, hy) = (deny_of(c.small + p), hy_of(c.small / 3 + p));
            let fail = if p >= 2 { Some(((c.small >> 3) % 5) as usize) } else { None };
            let mut s1 = CountSink::new(fail);
            let mut s2 = CountSink::new(if p == 3 { Some(0) } else { None });
            let pol = if p % 2 == 0 { ErrorPolicy::FailFast } else { ErrorPolicy::MarkErrors };
            mark11(deny, hy, k);
            let r = Uts46::new().process(c.bytes, deny, hy, pol, |label, _tld, _bidi| p == 1 || label.len() % 2 == 0, &mut s1, if p != 1 { Some(&mut s2) } else { None });
            k.known = None;
            k.class = match r {
                Ok(ProcessingSuccess::Passthrough) => "pass",
                Ok(ProcessingSuccess::WroteToSink) => "wrote",
                Err(ProcessingError::ValidityError) => "invalid",
                Err(ProcessingError::SinkError) => "sinkerr",
            };
            k.dbg("result", &r);
            k.s("sink", &s1.buf);
            k.s("ascii-sink", &s2.buf);
        }
    });

    // ------------------------------------------------------------ percent_encoding
    row!("percent_encoding", "percent_encode_byte", Small, Cap::Full, |c, k| k.s("encoded", percent_encode_byte(c.small as u8)));
    row!("percent_encoding", "percent_encode", Bytes, Cap::Full, |c, k| {
        for set in [CONTROLS, NON_ALPHANUMERIC, &MY_SET] {
            let it = percent_encode(c.bytes, set);
            for chunk in it.clone() {
                k.s("chunk", chunk);
            }
            k.disp("display", &it);
            let cow: Cow<str> = it.clone().into();
            k.s("cow", &cow);
            let _ = it.size_hint();
        }
        k.dbg("debug", &percent_encode(&c.bytes[..c.bytes.len().min(32)], CONTROLS));
    });
    row!("percent_encoding", "utf8_percent_encode", Str, Cap::Full, |c, k| {
        for set in [CONTROLS, NON_ALPHANUMERIC, &MY_SET] {
            let it = utf8_percent_encode(c.text, set);
            for chunk in it.clone() {
                k.s("chunk", chunk);
            }
            let st: String = it.collect();
            k.s("collected", &st);
        }
    });
    row!("percent_encoding", "percent_decode_str", Str, Cap::Full, |c, k| {
        let it = percent_decode_str(c.text);
        let n = it.clone().count();
        let cow: Cow<[u8]> = it.clone().into();
        if n != cow.len() {
            k.invalid.get_or_insert("percent_decode_str: Cow length differs from the iterator's".to_string());
        }
        k.s("lossy", &it.decode_utf8_lossy());
    });
    row!("percent_encoding", "percent_decode", Bytes, Cap::Full, |c, k| {
        let it = percent_decode(c.bytes);
        let v: Vec<u8> = it.clone().collect();
        let cow: Cow<[u8]> = it.clone().into();
        if v != &cow[..] {
            k.invalid.get_or_insert("percent_decode: Cow differs from the iterator".to_string());
        }
        let _ = it.size_hint();
        k.dbg("debug", &percent_decode(&c.bytes[..c.bytes.len().min(32)]));
    });
    row!("percent_encoding", "PercentDecode::decode_utf8", Bytes, Cap::Full, |c, k| match percent_decode(c.bytes).decode_utf8() {
        Ok(s) => k.s("decoded", &s),
        Err(e) => {
            k.class = "err";
            k.disp("Utf8Error", &e);
        }
    });
    row!("percent_encoding", "PercentDecode::decode_utf8_lossy", Bytes, Cap::Full, |c, k| k.s("lossy", &percent_decode(c.bytes).decode_utf8_lossy()));
    // F-C14-1 / F-C04-4 (open): add / remove with a byte >= 0x80 index out of bounds
    row!("percent_encoding", "AsciiSet::add", Small, Cap::Full, |c, k| {
        let b = c.small as u8;
        if b >= 0x80 {
            k.known = Some(K_C14_1);
        }
        let s = CONTROLS.add(b);
        k.dbg("set", &s);
        let _ = AsciiSet::EMPTY.add(b).add(b);
    });
    row!("percent_encoding", "AsciiSet::remove", Small, Cap::Full, |c, k| {
        let b = c.small as u8;
        if b >= 0x80 {
            k.known = Some(K_C14_1);
        }
        let s = NON_ALPHANUMERIC.remove(b);
        k.dbg("set", &s);
        let _ = AsciiSet::EMPTY.remove(b);
    });
    row!("percent_encoding", "AsciiSet::union", Small, Cap::Full, |c, k| {
        let b = (c.small as u8) & 0x7f;
        let s = CONTROLS.add(b).union(NON_ALPHANUMERIC.remove(b));
        k.dbg("set", &s);
        let t = CONTROLS.add(b) + AsciiSet::EMPTY;
        k.dbg("set", &t);
    });
    row!("percent_encoding", "AsciiSet::complement", Small, Cap::Full, |c, k| {
        let b = (c.small as u8) & 0x7f;
        let s = CONTROLS.add(b).complement();
        k.dbg("set", &s);
        let t = !NON_ALPHANUMERIC.remove(b);
        k.dbg("set", &t.complement());
    });

    // ------------------------------------------------------------ form_urlencoded
    row!("form_urlencoded", "parse", Bytes, Cap::Full, |c, k| {
        let it = form_urlencoded::parse(c.bytes);
        for (a, b) in it {
            k.s("name", &a);
            k.s("value", &b);
        }
    });
    row!("form_urlencoded", "Parse::into_owned", Bytes, Cap::Full, |c, k| {
        for (a, b) in form_urlencoded::parse(c.bytes).into_owned() {
            k.s("name", &a);
            k.s("value", &b);
        }
    });
    row!("form_urlencoded", "byte_serialize", Bytes, Cap::Full, |c, k| {
        let it = form_urlencoded::byte_serialize(c.bytes);
        let mut n = 0usize;
        for chunk in it {
            k.s("chunk", chunk);
            n += 1;
        }
        let st: String = form_urlencoded::byte_serialize(c.bytes).collect();
        k.s("collected", &st);
        k.dbg("debug", &form_urlencoded::byte_serialize(&c.bytes[..c.bytes.len().min(32)]));
        let _ = n;
    });
    row!("form_urlencoded", "Serializer::new", Str, Cap::Full, |c, k| {
        let mut s = Serializer::new(String::from(head(c.text, 32)));
        s.append_pair("k", c.text);
        k.s("finished", &s.finish());
        let mut target = String::new();
        Serializer::new(&mut target).append_key_only(c.text).finish();
        k.s("finished", &target);
    });
    // start beyond the end is a documented panic, start inside a character + clear() is F-C15-1: the
    // start position is clamped to a character boundary here
    row!("form_urlencoded", "Serializer::for_suffix", Str, Cap::Full, |c, k| {
        let target = c.text.to_string();
        let mut start = (c.small as usize) % (target.len() + 1);
        while !target.is_char_boundary(start) {
            start -= 1;
        }
        let mut s = Serializer::for_suffix(target, start);
        s.append_pair("a", head(c.text, 8)).clear().append_key_only(c.text);
        k.s("finished", &s.finish());
    });
    row!("form_urlencoded", "Serializer::clear", Str, Cap::Full, |c, k| {
        let mut s = Serializer::new(String::new());
        s.clear().append_pair(c.text, c.text).clear().clear().append_key_only(head(c.text, 8));
        k.s("finished", &s.finish());
    });
    row!("form_urlencoded", "Serializer::encoding_override", Str, Cap::Full, |c, k| {
        let mut s = Serializer::new(String::new());
        s.encoding_override(Some(&enc_rev)).append_pair(c.text, c.text).encoding_override(None).append_key_only(c.text).encoding_override(Some(&enc_same)).append_pair("x", c.text);
        k.s("finished", &s.finish());
    });
    row!("form_urlencoded", "Serializer::append_pair", Str, Cap::Full, |c, k| {
        let mut s = Serializer::new(String::new());
        s.append_pair(c.text, "").append_pair("", c.text).append_pair(c.text, c.text);
        k.s("finished", &s.finish());
    });
    row!("form_urlencoded", "Serializer::append_key_only", Str, Cap::Full, |c, k| {
        let mut s = Serializer::new(String::new());
        s.append_key_only(c.text).append_key_only("").append_key_only(c.text);
        k.s("finished", &s.finish());
    });
    row!("form_urlencoded", "Serializer::extend_pairs", Str, Cap::Full, |c, k| {
        let pairs = serializer_pairs(c.text);
        let mut s = Serializer::new(String::new());
        s.extend_pairs(pairs.iter()).extend_pairs(&[(c.text, c.text)]).extend_pairs(Vec::<(String, String)>::new());
        k.s("finished", &s.finish());
    });
    row!("form_urlencoded", "Serializer::extend_keys_only", Str, Cap::Full, |c, k| {
        let keys: Vec<&str> = c.text.split('&').take(64).collect();
        let mut s = Serializer::new(String::new());
        s.extend_keys_only::<_, &str>(keys.iter()).extend_keys_only::<_, &str>(&[c.text]);
        k.s("finished", &s.finish());
    });
    // a second finish / any use after finish is a documented panic (probed in the stream `documented`)
    row!("form_urlencoded", "Serializer::finish", Str, Cap::Full, |c, k| {
        let mut s = Serializer::for_suffix(String::from(c.text), c.text.len());
        k.s("finished", &s.append_pair("a", "b").finish());
        let mut s = Serializer::new(String::new());
        k.s("finished", &s.finish());
    });

    // ------------------------------------------------------------ data_url
    row!("data_url", "DataUrl::process", Str, Cap::Data, data_url_all);
    row!("data_url", "DataUrl::mime_type", Str, Cap::Data, data_url_all);
    row!("data_url", "DataUrl::decode", Str, Cap::Data, data_url_all);
    row!("data_url", "DataUrl::decode_to_vec", Str, Cap::Data, data_url_all);
    row!("data_url", "FragmentIdentifier::to_percent_encoded", Str, Cap::Data, |c, k| {
        // the fragment is what follows the first '#': make sure there is one
        let with = format!("data:,x#{}", c.text);
        if let Ok(d) = DataUrl::process(&with) {
            if let Ok((_b, Some(f))) = d.decode_to_vec() {
                k.s("fragment", &f.to_percent_encoded());
            }
        }
        data_url_all(c, k);
    });
    row!("data_url", "forgiving_base64::decode_to_vec", Bytes, Cap::Full, |c, k| match forgiving_base64::decode_to_vec(c.bytes) {
        Ok(_v) => {}
        Err(e) => {
            k.class = "err";
            k.disp("InvalidBase64", &e);
            k.dbg("InvalidBase64", &e);
        }
    });
    fn decoder_run(c: &Ctx, k: &mut Sink, chunk: usize, fail: bool) {
        let mut total = 0usize;
        let mut d = forgiving_base64::Decoder::new(|b: &[u8]| {
            total += b.len();
            if fail && total > 2 { Err("full") } else { Ok(()) }
        });
        let mut bad = false;
        for part in c.bytes.chunks(chunk.max(1)) {
            if let Err(e) = d.feed(part) {
                k.disp("DecodeError", &e);
                k.dbg("DecodeError", &e);
                bad = true;
                break;
            }
        }
        if !bad {
            if let Err(e) = d.finish() {
                k.class = "err";
                k.disp("DecodeError", &e);
            }
        } else {
            k.class = "err";
        }
    }
    row!("data_url", "Decoder::new", Bytes, Cap::Full, |c, k| decoder_run(c, k, usize::MAX, false));
    row!("data_url", "Decoder::feed", Bytes, Cap::Full, |c, k| {
        decoder_run(c, k, 1 + (c.small % 7) as usize, false);
        decoder_run(c, k, 3, true);
        // feeding goes on after an error was reported
        let mut d = forgiving_base64::Decoder::new(|_b: &[u8]| Ok::<(), ()>(()));
        let _ = d.feed(c.bytes);
        let _ = d.feed(c.bytes);
        let _ = d.feed(b"");
        let _ = d.finish();
    });
    row!("data_url", "Decoder::finish", Bytes, Cap::Full, |c, k| {
        decoder_run(c, k, usize::MAX, false);
        let d = forgiving_base64::Decoder::new(|_b: &[u8]| Ok::<(), ()>(()));
        let _ = d.finish();
    });
    row!("data_url", "Mime::get_parameter", Str, Cap::Full, |c, k| match c.text.parse::<Mime>() {
        Ok(m) => {
            k.os("param", m.get_parameter(c.text));
            k.os("param", m.get_parameter("charset"));
            k.os("param", m.get_parameter(head(c.text, 4)));
            k.disp("mime", &m);
            k.dbg("mime", &m);
            // the serialization parses again
            if let Ok(m2) = m.to_string().parse::<Mime>() {
                k.disp("mime", &m2);
            }
        }
        Err(e) => {
            k.class = "err";
            k.disp("MimeParsingError", &e);
            k.dbg("MimeParsingError", &e);
        }
    });
    v
}

// ================================================================ adversarial repetition families
struct Fam {
    id: &'static str,
    head: &'static [u8],
    unit: &'static [u8],
    unit2: &'static [u8],
    tail: &'static [u8],
    extra: &'static [usize],
}
const fn fam(id: &'static str, head: &'static [u8], unit: &'static [u8], tail: &'static [u8]) -> Fam {
    Fam { id, head, unit, unit2: b"", tail, extra: &[] }
}
const L63: &[u8] = b"aaaaaaaaaaaaaaaaaaaaaaaaaaaaaaaaaaaaaaaaaaaaaaaaaaaaaaaaaaaaaaa.";
const L64: &[u8] = b"aaaaaaaaaaaaaaaaaaaaaaaaaaaaaaaaaaaaaaaaaaaaaaaaaaaaaaaaaaaaaaaa.";
const XN59: &[u8] = b"xn--aaaaaaaaaaaaaaaaaaaaaaaaaaaaaaaaaaaaaaaaaaaaaaaaaaaaaaaaaaa.";
static FAMS: &[Fam] = &[
    fam("dotdot", b"", b"a/../", b""),
    fam("pct", b"", b"%", b""),
    fam("pct2e", b"", b"%2e/", b""),
    fam("pct2E2e", b"", b"%2E%2e/", b""),
    fam("updir", b"", b"../", b""),
    fam("slashdotdot", b"", b"/..", b""),
    Fam { id: "down-up", head: b"", unit: b"a/", unit2: b"../", tail: b"", extra: &[] },
    fam("slash", b"", b"/", b""),
    fam("backslash", b"", b"\\", b""),
    fam("lbracket", b"", b"[", b""),
    fam("rbracket", b"", b"]", b""),
    fam("xn", b"", b"xn--", b""),
    fam("a-dot", b"", b"a.", b""),
    fam("dot", b"", b".", b""),
    fam("eq", b"", b"=", b""),
    fam("space", b"", b" ", b""),
    fam("tab", b"", b"\t", b""),
    fam("nl", b"", b"\n", b""),
    fam("amp", b"", b"&", b""),
    fam("semi", b"", b";", b""),
    fam("quote", b"", b"\"", b""),
    fam("at", b"", b"@", b""),
    fam("colon", b"", b":", b""),
    fam("qmark", b"", b"?", b""),
    fam("hash", b"", b"#", b""),
    fam("plus", b"", b"+", b""),
    fam("minus", b"", b"-", b""),
    fam("zero", b"", b"0", b""),
    fam("zerox", b"", b"0x", b""),
    fam("one-dot", b"", b"1.", b""),
    fam("pipe-drive", b"", b"c|/", b""),
    fam("pair", b"", b"a=b&", b""),
    fam("pct41", b"", b"%41", b""),
    fam("xFF", b"", b"\xFF", b""),
    fam("xC3", b"", b"\xC3", b""),
    fam("xE282", b"", b"\xE2\x82", b""),
    fam("xF09F98", b"", b"\xF0\x9F\x98", b""),
    fam("pctFF", b"", b"%FF", b""),
    fam("pctC3", b"", b"%C3", b""),
    fam("e-acute", b"", "\u{e9}".as_bytes(), b""),
    fam("u10FFFF", b"", "\u{10FFFF}".as_bytes(), b""),
    fam("alef", b"", "\u{5D0}".as_bytes(), b""),
    fam("sharp-s", b"", "\u{df}".as_bytes(), b""),
    fam("label63", b"", L63, b""),
    fam("label64", b"", L64, b""),
    fam("xn59", b"", XN59, b""),
    fam("xn-a-9", b"xn--a-", b"9", b""),
    fam("xn-a-z", b"xn--a-", b"z", b""),
    fam("a-z", b"a-", b"z", b""),
    fam("bidi-1a", b"1a.", b"xn--4db.", b""),
    fam("bidi-alef", b"1a.", "\u{5D0}.".as_bytes(), b"b"),
    fam("b64-A", b"", b"A", b""),
    fam("b64-Aeq", b"", b"A=", b""),
    Fam { id: "b64-AApad", head: b"AA", unit: b"=", unit2: b"", tail: b"", extra: &[254, 255, 256, 257, 258, 511, 512, 513] },
    fam("b64-AAAeq", b"", b"AAA=", b""),
    fam("b64-spA", b"", b" A", b""),
    fam("mime-ab", b"", b"a/b;", b""),
    fam("mime-bs", b"a/b;x=\"", b"\\", b""),
    fam("mime-a1", b"text/plain", b";a=1", b""),
    fam("data-comma", b"data:", b",", b""),
    Fam { id: "data-b64A", head: b"data:;base64,", unit: b"A", unit2: b"", tail: b"", extra: &[] },
    Fam { id: "data-b64pad", head: b"data:;base64,AA", unit: b"=", unit2: b"", tail: b"", extra: &[254, 255, 256, 257, 258] },
    fam("data-pct-comma", b"data:", b"%", b","),
    fam("data-comma-pct", b"data:,", b"%", b""),
    fam("data-pct4-hash", b"data:,%4", b"#", b""),
    fam("data-body-pct4", b"data:,", b"%4", b""),
];
fn fam_by_id(id: &str) -> Option<&'static Fam> {
    FAMS.iter().find(|f| f.id == id)
}
fn fam_bytes(f: &Fam, n: usize) -> Vec<u8> {
    let mut v = Vec::with_capacity(f.head.len() + n * (f.unit.len() + f.unit2.len()) + f.tail.len());
    v.extend_from_slice(f.head);
    for _ in 0..n {
        v.extend_from_slice(f.unit);
    }
    for _ in 0..n {
        v.extend_from_slice(f.unit2);
    }
    v.extend_from_slice(f.tail);
    v
}
/// repetition counts so that the total is about each target size, at most `cap` bytes
fn fam_counts(f: &Fam, targets: &[usize], cap: usize) -> Vec<usize> {
    let ul = f.unit.len() + f.unit2.len();
    let maxn = (cap / ul).max(1);
    let mut set = BTreeSet::new();
    for &t in targets {
        let n = if t == 0 { 0 } else { (t / ul).max(1) };
        set.insert(n.min(maxn));
    }
    for &e in f.extra {
        if e <= maxn {
            set.insert(e);
        }
    }
    set.into_iter().collect()
}

const URL_PREFIXES: [&str; 15] = [
    "", "http://h/", "http://", "a:", "a://", "a:/", "file:///", "file://", "blob:", "data:", "http://h/?", "http://h/#", "http://u:", "http://h:", "http://[",
];
/// prefixes used for inputs above 1000 bytes (the ones that put the family into a different parser state)
const URL_PREFIXES_BIG: [&str; 8] = ["", "http://h/", "http://", "a:", "a:/", "file:///", "http://h/?", "http://u:"];
const DATA_PREFIXES: [&str; 6] = ["", "data:", "data:,", "data:;base64,", "data:text/plain;charset=x,", "data:a/b;base64;x=,"];
const BASES: [&str; 8] = ["http://h/a/b?q#f", "a://h/a/b", "a:/a/b", "a:opaque", "file:///a/b", "file://h/C:/a", "blob:http://h/x", "file:///a/c:"];
/// extra start URLs of the setter rows: the shapes the known classes are about stay reachable
const STARTS_EXTRA: [&str; 5] = ["a://h:80/p", "a://u:p@h", "a://h?q", "file:///a/c:", "http://u:p@h:81/a/b?q#f"];

fn dummy_url() -> &'static Url {
    static U: OnceLock<Url> = OnceLock::new();
    U.get_or_init(|| Url::parse("http://h/a/b?q#f").expect("dummy"))
}
fn small_of(b: &[u8]) -> u64 {
    let mut h: u64 = 0xcbf29ce484222325 ^ b.len() as u64;
    for &x in b.iter().take(16) {
        h ^= x as u64;
        h = h.wrapping_mul(0x100000001b3);
    }
    h >> 7
}

// ================================================================ one call = one case
struct CaseOut {
    model: String,
    imp: String,
    class: &'static str,
    strings: u64,
    known: Option<&'static str>,
    inv: Option<String>,
    called: bool,
}
fn exec(row: &Row, ctx: &Ctx) -> CaseOut {
    let mut k = Sink::new();
    let _ = take_panic();
    let r = catch_unwind(AssertUnwindSafe(|| (row.f)(ctx, &mut k)));
    let mut out = CaseOut { model: "ok".into(), imp: "ok".into(), class: k.class, strings: k.strings, known: None, inv: k.inv.take(), called: true };
    match r {
        Ok(()) => {
            if let Some(w) = k.invalid {
                out.imp = format!("INVALID-UTF8:{}", w);
                out.class = "invalid-utf8";
            } else if let Some(e) = k.strict_inv {
                out.imp = format!("INVARIANT:{}", clip(&e, 160));
                out.class = "invariant";
            }
        }
        Err(_) => {
            let (msg, loc) = take_panic();
            match k.known {
                Some(m) if msg.contains(m.msg) && loc.contains(m.loc) && (m.id != K_C11_2.id || k.c11.map_or(false, |(d, h)| known11(ctx.bytes, d, h))) => {
                    out.model = format!("PANIC(known:{})", m.id);
                    out.imp = out.model.clone();
                    out.known = Some(m.id);
                    out.class = "panic-known";
                }
                _ => {
                    out.imp = format!("PANIC:{} @ {}", clip(&msg, 120), loc);
                    out.class = "panic";
                }
            }
        }
    }
    out
}
fn not_called(class: &'static str) -> CaseOut {
    CaseOut { model: "ok".into(), imp: "ok".into(), class, strings: 0, known: None, inv: None, called: false }
}
/// parse the input of a `UrlGet` row (under catch_unwind: the parse itself is the business of other rows)
fn parse_for_get(text: &str, base: Option<&Url>) -> Option<Url> {
    catch_unwind(AssertUnwindSafe(|| match base {
        Some(b) => b.join(text).ok(),
        None => Url::parse(text).ok(),
    }))
    .ok()
    .flatten()
}
fn run_row(row: &Row, full: &[u8], base: Option<&Url>, small: Option<u64>) -> CaseOut {
    let text = String::from_utf8_lossy(full);
    let small = small.unwrap_or_else(|| small_of(full));
    match row.kind {
        Kind::Internal(_) => not_called("internal"),
        Kind::UrlGet => match parse_for_get(&text, base) {
            Some(u) => exec(row, &Ctx { bytes: b"", text: "", url: &u, small }),
            None => not_called("noparse"),
        },
        Kind::UrlRef | Kind::UrlSet => exec(row, &Ctx { bytes: text.as_bytes(), text: &text, url: base.unwrap_or_else(|| dummy_url()), small }),
        Kind::Bytes => exec(row, &Ctx { bytes: full, text: &text, url: dummy_url(), small }),
        Kind::Str | Kind::UrlStr | Kind::Small => exec(row, &Ctx { bytes: text.as_bytes(), text: &text, url: dummy_url(), small }),
    }
}

// ================================================================ requests
fn find_row(full: &str) -> Option<&'static Row> {
    rows().iter().find(|r| r.full() == full)
}
fn req_line(row: &Row, ins: &str, pre: &str, base: Option<&str>) -> String {
    let mut s = format!("{} {}", row.full(), ins);
    if !pre.is_empty() {
        s.push_str(" pre=");
        s.push_str(&esc(pre.as_bytes()));
    }
    if let Some(b) = base {
        s.push_str(" base=");
        s.push_str(&esc(b.as_bytes()));
    }
    s
}
fn kv<'a>(w: &[&'a str], key: &str) -> Option<&'a str> {
    w.iter().find_map(|t| t.strip_prefix(key).and_then(|r| r.strip_prefix('=')))
}
/// the input bytes a request line describes (prefix included), its base URL and its small argument
fn request_input(w: &[&str]) -> Result<(Vec<u8>, Option<Url>, Option<u64>), String> {
    let mut full = kv(w, "pre").map(unesc).unwrap_or_default();
    if let Some(id) = kv(w, "fam") {
        let f = fam_by_id(id).ok_or_else(|| format!("unknown family {}", id))?;
        let n: usize = kv(w, "n").and_then(|x| x.parse().ok()).ok_or("missing n")?;
        full.extend(fam_bytes(f, n));
    } else if let Some(h) = kv(w, "hex") {
        full.extend(unhexb(h));
    }
    let base = match kv(w, "base") {
        Some(b) => Some(Url::parse(&String::from_utf8_lossy(&unesc(b))).map_err(|e| format!("base does not parse: {}", e))?),
        None => None,
    };
    let small = kv(w, "small").and_then(|x| x.parse().ok());
    Ok((full, base, small))
}
/// re-run one request line: (model, implementation)
fn run_request_pair(req: &str) -> (String, String) {
    let w: Vec<&str> = req.split(' ').filter(|t| !t.is_empty()).collect();
    if w.is_empty() {
        return ("?".into(), "empty request".into());
    }
    match w[0] {
        "history" => {
            let start = kv(&w, "start").map(unesc).unwrap_or_default();
            let ops = kv(&w, "ops").unwrap_or("");
            let (m, i, _) = run_history(&String::from_utf8_lossy(&start), ops);
            (m, i)
        }
        "blobdepth" => {
            let n = kv(&w, "n").and_then(|x| x.parse().ok()).unwrap_or(1);
            ("ok".into(), blob_child(n))
        }
        "documented" => match documented_probes().into_iter().find(|p| Some(p.id) == w.get(1).copied()) {
            Some(p) => run_documented(&p),
            None => ("?".into(), "unknown documented probe".into()),
        },
        "generic" => ("ok".into(), "generic probes are re-run by replay/search".into()),
        "timing" => match timing_experiments().into_iter().find(|e| format!("timing {} fam={}", e.row, e.fam) == req) {
            None => ("?".into(), "unknown timing experiment".into()),
            Some(e) => {
                if DBG {
                    ("linear".into(), "linear".into()) // not measured in a dev-profile build
                } else {
                    let (line, flagged) = doubling(&e);
                    ("linear".into(), if flagged && e.listed.is_none() { format!("SUPERLINEAR:{}", clip(&line, 200)) } else { "linear".into() })
                }
            }
        },
        name => match find_row(name) {
            None => ("listed".into(), format!("no table row {}", name)),
            Some(row) => match request_input(&w) {
                Err(e) => ("?".into(), e),
                Ok((full, base, small)) => {
                    let o = run_row(row, &full, base.as_ref(), small);
                    (o.model, o.imp)
                }
            },
        },
    }
}
fn run_request(req: &str) -> String {
    run_request_pair(req).1
}

// ================================================================ histories of mutating operations
fn ops_token(ops: &[Op]) -> String {
    ops.iter().map(|o| o.token().replace(' ', ",")).collect::<Vec<_>>().join("|")
}
/// apply the operations one by one; after each one run every accessor.  Returns (model, impl, class).
fn run_history(start: &str, ops: &str) -> (String, String, &'static str) {
    let u0 = match Url::parse(start) {
        Ok(u) => u,
        Err(_) => return ("ok".into(), "ok".into(), "noparse"),
    };
    let ops: Vec<Op> = ops.split('|').filter(|t| !t.is_empty()).filter_map(|t| Op::from_token(&t.replace(',', " "))).collect();
    let mut k = Sink::new();
    let mut line_panic: Option<String> = None;
    let _ = take_panic();
    let r = catch_unwind(AssertUnwindSafe(|| {
        let mut u = u0;
        for op in &ops {
            if matches!(op, Op::SetHost(None)) && c04_1_class(&u) {
                k.known = Some(K_C04_1);
            }
            let _ = op.apply(&mut u);
            k.known = None;
            url_all(&u, &mut k, false);
            if k.known.is_some() {
                // F-C04-3: the record is corrupt from here on; the history stops
                k.class = "reached-F-C04-3";
                break;
            }
            for (name, line) in [("getters_line", getters_line(&u)), ("quirks_get_line", quirks_get_line(&u))] {
                if line.split(' ').any(|t| t == "panic") {
                    line_panic = Some(format!("{}: an accessor panicked", name));
                }
            }
            // positions_line also takes the reversed ranges (about 120 caught panics per call): last operation only
            let pl = if std::ptr::eq(op, &ops[ops.len() - 1]) && ops.len() > 1 { positions_line(&u) } else { String::new() };
            for (i, t) in pl.split(' ').enumerate() {
                // entry i: position a = i / 18; 0 = a.., 1 = ..a, 2 + b = a..b; reversed ranges panic as for str
                let (a, j) = (i / 18, i % 18);
                if t == "panic" && (j < 2 || j - 2 >= a) {
                    line_panic = Some(format!("positions_line: slicing at position {} / entry {} panicked", a, j));
                }
            }
            if line_panic.is_some() {
                break;
            }
        }
    }));
    match r {
        Ok(()) => {
            if let Some(w) = k.invalid {
                ("ok".into(), format!("INVALID-UTF8:{}", w), "invalid-utf8")
            } else if let Some(p) = line_panic {
                ("ok".into(), format!("PANIC:{}", p), "panic")
            } else {
                ("ok".into(), "ok".into(), if k.inv.is_some() { "ok-invariant-broken" } else { k.class })
            }
        }
        Err(_) => {
            let (msg, loc) = take_panic();
            match k.known {
                Some(m) if msg.contains(m.msg) && loc.contains(m.loc) => {
                    let s = format!("PANIC(known:{})", m.id);
                    (s.clone(), s, "panic-known")
                }
                _ => ("ok".into(), format!("PANIC:{} @ {}", clip(&msg, 120), loc), "panic"),
            }
        }
    }
}

// ================================================================ deep blob: nesting in a child process
/// a stack overflow aborts the process and cannot be caught: Url::origin / quirks::origin of
/// "blob:" x n ++ "http://h/" run in a child process; returns "ok" or "ABORT:<how>"
fn blob_child(n: usize) -> String {
    let exe = match std::env::current_exe() {
        Ok(e) => e,
        Err(e) => return format!("ABORT:cannot find own executable: {}", e),
    };
    let st = std::process::Command::new(exe)
        .arg("--mode")
        .arg("child-blob")
        .arg(n.to_string())
        .stdout(std::process::Stdio::null())
        .stderr(std::process::Stdio::null())
        .status();
    match st {
        Ok(s) if s.success() => "ok".into(),
        Ok(s) => {
            use std::os::unix::process::ExitStatusExt;
            match s.signal() {
                Some(sig) => format!("ABORT:signal {}", sig),
                None => format!("ABORT:exit {}", s.code().unwrap_or(-1)),
            }
        }
        Err(e) => format!("ABORT:cannot start the child: {}", e),
    }
}
fn child_blob(args: &Args) {
    let n: usize = args.extra.first().and_then(|x| x.parse().ok()).unwrap_or(1);
    let s = format!("{}http://h/", "blob:".repeat(n));
    let r = catch_unwind(|| {
        if let Ok(u) = Url::parse(&s) {
            let o = u.origin();
            let _ = std::hint::black_box(o.ascii_serialization());
            let _ = std::hint::black_box(url::quirks::origin(&u));
        }
    });
    std::process::exit(if r.is_ok() { 0 } else { 101 });
}

// ================================================================ documented panics, probed deliberately
struct DocProbe {
    id: &'static str,
    what: &'static str,
    expect: &'static str,
    debug_only: bool,
    f: fn(),
}
fn documented_probes() -> Vec<DocProbe> {
    fn p(id: &'static str, what: &'static str, expect: &'static str, debug_only: bool, f: fn()) -> DocProbe {
        DocProbe { id, what, expect, debug_only, f }
    }
    vec![
        p("finish-twice", "Serializer::finish called twice", "double finish", false, || {
            let mut s = Serializer::new(String::new());
            s.append_pair("a", "b");
            let _ = s.finish();
            let _ = s.finish();
        }),
        p("append-after-finish", "Serializer::append_pair after finish", "Serializer finished", false, || {
            let mut s = Serializer::new(String::new());
            let _ = s.finish();
            s.append_pair("a", "b");
        }),
        p("key-after-finish", "Serializer::append_key_only after finish", "Serializer finished", false, || {
            let mut s = Serializer::new(String::new());
            let _ = s.finish();
            s.append_key_only("a");
        }),
        p("clear-after-finish", "Serializer::clear after finish", "Serializer finished", false, || {
            let mut s = Serializer::new(String::new());
            let _ = s.finish();
            s.clear();
        }),
        p("extend-after-finish", "Serializer::extend_pairs after finish", "Serializer finished", false, || {
            let mut s = Serializer::new(String::new());
            let _ = s.finish();
            s.extend_pairs(&[("a", "b")]);
        }),
        p("query-pairs-mut-after-finish", "Url::query_pairs_mut(): append_pair after finish", "Serializer finished", false, || {
            let mut u = Url::parse("http://h/?x").unwrap();
            let mut s = u.query_pairs_mut();
            s.finish();
            s.append_pair("a", "b");
        }),
        p("for-suffix-beyond-end", "Serializer::for_suffix(\"ab\", 3)", "invalid length", false, || {
            let _ = Serializer::for_suffix(String::from("ab"), 3);
        }),
        p("deny-list-letter", "AsciiDenyList::new(false, \"a\")", "must not contain letters", false, || {
            let _ = AsciiDenyList::new(false, std::hint::black_box("a"));
        }),
        p("deny-list-upper", "AsciiDenyList::new(false, \"Z\")", "must not contain letters", false, || {
            let _ = AsciiDenyList::new(false, std::hint::black_box("Z"));
        }),
        p("deny-list-digit", "AsciiDenyList::new(true, \"0\")", "must not contain digits", false, || {
            let _ = AsciiDenyList::new(true, std::hint::black_box("0"));
        }),
        p("deny-list-dot", "AsciiDenyList::new(false, \"?.\")", "must not contain the dot", false, || {
            let _ = AsciiDenyList::new(false, std::hint::black_box("?."));
        }),
        p("deny-list-hyphen", "AsciiDenyList::new(false, \"-\")", "must not contain the hyphen", false, || {
            let _ = AsciiDenyList::new(false, std::hint::black_box("-"));
        }),
        p("deny-list-non-ascii", "AsciiDenyList::new(false, \"\u{e9}\")", "must be ASCII", false, || {
            let _ = AsciiDenyList::new(false, std::hint::black_box("\u{e9}"));
        }),
        p("idna-2008", "Config::use_idna_2008_rules(true)", "no longer supported", false, || {
            let _ = idna::Config::default().use_idna_2008_rules(std::hint::black_box(true));
        }),
        p("verify-dns-length-non-ascii", "uts46::verify_dns_length(\"\u{e9}\", true) (debug builds only)", "is_ascii", true, || {
            let _ = idna::uts46::verify_dns_length(std::hint::black_box("\u{e9}"), true);
        }),
    ]
}
fn run_documented(p: &DocProbe) -> (String, String) {
    let model = if p.debug_only && !DBG { "ok".to_string() } else { "PANIC(documented)".to_string() };
    let _ = take_panic();
    let imp = match catch_unwind(p.f) {
        Ok(()) => "ok".to_string(),
        Err(_) => {
            let (msg, loc) = take_panic();
            if msg.contains(p.expect) { "PANIC(documented)".to_string() } else { format!("PANIC:{} @ {}", clip(&msg, 120), loc) }
        }
    };
    (model, imp)
}

// ================================================================ recording
struct Col {
    rep: Report,
    search: bool,
    thorough: bool,
}
impl Col {
    fn add(&mut self, key: &str, n: u64) {
        *self.rep.histogram.entry(key.to_string()).or_insert(0) += n;
    }
    fn record(&mut self, stream: &str, req: &str, model: &str, imp: &str, nontrivial: bool, sig: &str) {
        if self.search {
            self.rep.evaluations += 1;
            if model != imp && self.rep.failures.len() < 20 {
                self.rep.failures.push((req.to_string(), describe_failure(imp)));
            }
        } else {
            self.rep.case(stream, req, model, imp, nontrivial, sig);
        }
    }
    fn case(&mut self, stream: &str, req: &str, row: &Row, out: &CaseOut, nontrivial: bool) {
        if !out.called {
            return;
        }
        self.add(&format!("row:{}", row.full()), 1);
        self.add("strings-validated", out.strings);
        if let Some(id) = out.known {
            self.add(&format!("panic-known:{}", id), 1);
        }
        match &out.inv {
            Some(e) if e.starts_with("F-C02-1:") => self.add("check_invariants-Err-known:F-C02-1", 1),
            Some(_) => self.add("check_invariants-Err-after-setter", 1),
            None => {}
        }
        self.record(stream, req, &out.model, &out.imp, nontrivial, &format!("{}:{}", row.kind.tag(), out.class));
    }
}
fn describe_failure(imp: &str) -> String {
    if let Some(m) = imp.strip_prefix("PANIC:") {
        format!("panics outside every listed class: {}", m)
    } else if let Some(m) = imp.strip_prefix("INVALID-UTF8:") {
        format!("returns a str that is not valid UTF-8 ({})", m)
    } else if let Some(m) = imp.strip_prefix("INVARIANT:") {
        format!("the parser produced a Url whose check_invariants() fails: {}", m)
    } else if let Some(m) = imp.strip_prefix("ABORT:") {
        format!("the process is killed ({})", m)
    } else {
        format!("outcome {} differs from the prediction", imp)
    }
}

// ================================================================ streams
fn rows_of(kinds: &[Kind]) -> Vec<&'static Row> {
    rows().iter().filter(|r| kinds.contains(&r.kind)).collect()
}
/// the setter rows that are still run on inputs above 100 KB
fn heavy_ok(r: &Row) -> bool {
    matches!(r.name, "Url::set_path" | "Url::set_query" | "Url::set_fragment" | "quirks::set_href" | "quirks::set_pathname" | "Url::set_host" | "Url::set_username")
}
fn cap_bytes(cap: Cap, thorough: bool) -> usize {
    match cap {
        Cap::Full | Cap::Data => usize::MAX,
        Cap::Idna => if thorough { 65536 } else { 16384 },
        Cap::Puny => 4096,
    }
}

/// all rows on one input; `ins` is the input part of the request line.  `level`: 0 = up to 1000 bytes
/// (everything), 1 = up to ~64 KiB (reduced prefix / base / start lists), 2 = above (a handful of calls)
fn feed_url_rows(col: &mut Col, stream: &str, ins: &str, inp: &[u8], level: u8, bases: &[Url], starts: &[Url]) {
    let nontrivial = !inp.is_empty();
    let prefixes: &[&str] = match level {
        0 => &URL_PREFIXES,
        1 => &URL_PREFIXES_BIG,
        _ => &["", "http://h/", "a:/"],
    };
    let getters = rows_of(&[Kind::UrlGet]);
    for pre in prefixes {
        let mut full = pre.as_bytes().to_vec();
        full.extend_from_slice(inp);
        for row in rows_of(&[Kind::UrlStr]) {
            let out = run_row(row, &full, None, None);
            col.case(stream, &req_line(row, ins, pre, None), row, &out, nontrivial);
        }
        let text = String::from_utf8_lossy(&full);
        if let Some(u) = parse_for_get(&text, None) {
            for row in &getters {
                let out = exec(row, &Ctx { bytes: b"", text: "", url: &u, small: 0 });
                col.case(stream, &req_line(row, ins, pre, None), row, &out, nontrivial);
            }
        }
    }
    let nb = match level {
        0 => bases.len(),
        1 => 5.min(bases.len()),
        _ => 1,
    };
    for b in bases.iter().take(nb) {
        for row in rows_of(&[Kind::UrlRef]) {
            let out = run_row(row, inp, Some(b), None);
            col.case(stream, &req_line(row, ins, "", Some(b.as_str())), row, &out, nontrivial);
        }
    }
    let ns = match level {
        0 => starts.len(),
        1 => 3.min(starts.len()),
        _ => 1,
    };
    for (i, s) in starts.iter().enumerate() {
        // level 1: the special, the path-only non-special and the file: start
        if level >= 1 && !(i == 0 || (level == 1 && (i == 2 || i == 4))) {
            continue;
        }
        let _ = ns;
        for row in rows_of(&[Kind::UrlSet]) {
            if level >= 2 && !heavy_ok(row) {
                continue;
            }
            let out = run_row(row, inp, Some(s), None);
            col.case(stream, &req_line(row, ins, "", Some(s.as_str())), row, &out, nontrivial);
        }
    }
}
fn feed_plain_rows(col: &mut Col, stream: &str, ins: &str, inp: &[u8], cap: Option<Cap>) {
    let nontrivial = !inp.is_empty();
    for row in rows_of(&[Kind::Str, Kind::Bytes]) {
        if let Some(c) = cap {
            if row.cap != c {
                continue;
            }
        }
        let prefixes: &[&str] = if row.cap == Cap::Data { &DATA_PREFIXES } else { &[""] };
        for pre in prefixes {
            let mut full = pre.as_bytes().to_vec();
            full.extend_from_slice(inp);
            let out = run_row(row, &full, None, None);
            col.case(stream, &req_line(row, ins, pre, None), row, &out, nontrivial);
        }
    }
}
fn base_urls() -> Vec<Url> {
    BASES.iter().map(|s| Url::parse(s).expect("base")).collect()
}
fn start_urls(thorough: bool) -> Vec<Url> {
    let mut v = base_urls();
    v.extend(STARTS_EXTRA.iter().map(|s| Url::parse(s).expect("start")));
    if thorough {
        v.extend(start_pool());
    }
    v
}

fn stream_families(col: &mut Col) {
    let thorough = col.thorough;
    let targets: Vec<usize> = if thorough { vec![0, 1, 2, 3, 7, 64, 1000, 65536, 1 << 20, 4 << 20] } else { vec![0, 1, 2, 3, 7, 64, 1000, 65536] };
    let bases = base_urls();
    let starts = start_urls(thorough);
    let trace = std::env::var("C04_TRACE").is_ok();
    for f in FAMS {
        let t0 = Instant::now();
        for cap in [Cap::Full, Cap::Idna, Cap::Puny, Cap::Data] {
            for n in fam_counts(f, &targets, cap_bytes(cap, thorough)) {
                let inp = fam_bytes(f, n);
                feed_plain_rows(col, "families", &format!("fam={} n={}", f.id, n), &inp, Some(cap));
            }
        }
        for n in fam_counts(f, &targets, usize::MAX) {
            let inp = fam_bytes(f, n);
            let level = if inp.len() <= 1100 { 0 } else if inp.len() <= 100_000 { 1 } else { 2 };
            feed_url_rows(col, "families", &format!("fam={} n={}", f.id, n), &inp, level, &bases, &starts);
            if trace {
                eprintln!("c04:   family {} n={} cumulative {:.2} s", f.id, n, t0.elapsed().as_secs_f64());
            }
        }
    }
    col.rep.notes.push(format!(
        "families: {} families x total sizes {:?} bytes; rows that reach IDNA directly are capped at {} bytes, the public punycode functions at 4096 bytes (quadratic, F-C04-10); above 1000 bytes the URL rows use {} prefixes, 5 bases, 3 start URLs; above 100 KB 3 prefixes, 1 base, 1 start URL and the setters {}",
        FAMS.len(), targets, cap_bytes(Cap::Idna, thorough), URL_PREFIXES_BIG.len(), "set_path/set_query/set_fragment/set_host/set_username/set_href/set_pathname"
    ));
}

fn stream_small(col: &mut Col) {
    let mut vals: Vec<u64> = (0..=256).collect();
    vals.extend([65535, 65536, u32::MAX as u64, u64::MAX]);
    for row in rows_of(&[Kind::Small]) {
        for &s in &vals {
            let out = run_row(row, b"", None, Some(s));
            col.case("small", &format!("{} small={}", row.full(), s), row, &out, true);
        }
    }
}

fn stream_documented(col: &mut Col) {
    for p in documented_probes() {
        let (m, i) = run_documented(&p);
        col.add("documented-probe", 1);
        col.record("documented", &format!("documented {}", p.id), &m, &i, true, &format!("documented:{}", if i.starts_with("PANIC(doc") { "panics" } else { "returns" }));
        let _ = p.what;
    }
}

fn stream_blob(col: &mut Col) {
    let ns: &[usize] = if col.thorough { &[16, 256, 2000, 8000] } else { &[16, 256, 2000] };
    for &n in ns {
        let imp = blob_child(n);
        col.add("row:url::Url::origin(child process)", 1);
        col.record("deep-blob", &format!("blobdepth n={}", n), "ok", &imp, true, &format!("blob:{}", if imp == "ok" { "ok" } else { "abort" }));
    }
    col.rep.notes.push(
        "F-C04-11 (K-blob-depth, open): Url::origin / quirks::origin recurse once per nested `blob:` and re-parse the remainder at every level: the process aborts with a stack overflow between n = 32000 and 36000 (release, 8 MiB stack; dev: between 30000 and 40000) and the time is quadratic (release 3.2 s at n = 10000, 39.5 s at n = 32000); the child process is therefore run only up to the sizes above"
            .into(),
    );
}

const CLASS_ALPHABET: [u8; 25] = [
    b'a', b'A', b'0', b'%', b'/', b'\\', b'.', b':', b'@', b'?', b'#', b'[', b']', b'=', b'&', b'+', b'-', b' ', b'\t', 0x80, 0xC3, 0xA9, 0xFF, b'x', b'n',
];
fn stream_exhaustive(col: &mut Col) {
    let bases = base_urls();
    let starts: Vec<Url> = ["http://h/a/b?q#f", "a://h:80/p"].iter().map(|s| Url::parse(s).expect("start")).collect();
    let mut count = 0u64;
    let mut run = |col: &mut Col, s: &[u8]| {
        count += 1;
        let ins = format!("hex={}", hexb(s));
        feed_plain_rows(col, "exhaustive", &ins, s, None);
        if std::str::from_utf8(s).is_ok() {
            feed_url_rows(col, "exhaustive", &ins, s, 2, &bases[..1], &[]);
            for st in &starts {
                for row in rows_of(&[Kind::UrlSet]) {
                    let out = run_row(row, s, Some(st), None);
                    col.case("exhaustive", &req_line(row, &ins, "", Some(st.as_str())), row, &out, !s.is_empty());
                }
            }
        }
    };
    for_all_strings(&CLASS_ALPHABET, 2, |s| run(col, s));
    let mut scope = "all byte strings of length <= 2 over {a,A,0,%,/,\\,.,:,@,?,#,[,],=,&,+,-,space,tab,0x80,0xC3,0xA9,0xFF,x,n} through every Bytes and Str row (Str rows see the lossy text), the UTF-8-valid ones also through Url::parse with 3 prefixes + all getters, the base-taking rows on 1 base and every setter row on 2 start URLs".to_string();
    if col.thorough {
        let a12: [u8; 12] = [b'a', b'%', b'/', b'.', b':', b'@', b'?', b'#', b'=', 0xC3, 0xA9, 0xFF];
        for_all_strings(&a12, 3, |s| {
            if s.len() == 3 {
                run(col, s)
            }
        });
        scope.push_str("; all strings of length 3 over {a,%,/,.,:,@,?,#,=,0xC3,0xA9,0xFF}");
    }
    col.rep.exhaustive.push(format!("{} ({} inputs)", scope, count));
}

fn random_bytes(rng: &mut Rng, maxlen: usize) -> Vec<u8> {
    let n = rng.below(maxlen + 1);
    (0..n)
        .map(|_| match rng.below(10) {
            0 => b'%',
            1 => *rng.pick(b"0123456789abcdefABCDEF"),
            2 => *rng.pick(b"=&+;,/?#:@.-"),
            3 => 0x80 + rng.below(0x80) as u8,
            4 => rng.below(0x20) as u8,
            5 => *rng.pick(&[0xC3u8, 0xA9, 0xE2, 0x82, 0xAC, 0xF0, 0x9F, 0x92, 0x96, 0xED, 0xA0, 0x80, 0xD7, 0x90]),
            6 => *rng.pick(b"xn--AZaz"),
            _ => 0x20 + rng.below(0x5f) as u8,
        })
        .collect()
}
fn clip_bytes(mut v: Vec<u8>, n: usize) -> Vec<u8> {
    v.truncate(n);
    v
}
fn stream_generators(col: &mut Col, seed: u64) {
    let mut rng = Rng::new(seed);
    let thorough = col.thorough;
    let (n_str, n_hist) = if thorough { (100_000, 60_000) } else { (5_000, 3_000) };
    let bases: Vec<Url> = base_pool().iter().filter_map(|s| Url::parse(s).ok()).collect();
    let starts = start_pool();
    let getters = rows_of(&[Kind::UrlGet]);
    let urlstr = rows_of(&[Kind::UrlStr]);
    let urlref = rows_of(&[Kind::UrlRef]);
    let urlset = rows_of(&[Kind::UrlSet]);
    for i in 0..n_str {
        let s = match rng.below(4) {
            0 => {
                let b = *rng.pick(&base_pool());
                mutate_string(&mut rng, b)
            }
            1 => {
                let a = atoms();
                (0..rng.below(5)).map(|_| *rng.pick(&a)).collect::<Vec<_>>().concat()
            }
            _ => random_url_string(&mut rng),
        };
        let s = clip_bytes(s.into_bytes(), 300);
        let ins = format!("hex={}", hexb(&s));
        let nontrivial = !s.is_empty();
        for row in &urlstr {
            let out = run_row(row, &s, None, None);
            col.case("gen-strings", &req_line(row, &ins, "", None), row, &out, nontrivial);
        }
        let base = &bases[rng.below(bases.len())];
        for row in &urlref {
            let out = run_row(row, &s, Some(base), None);
            col.case("gen-strings", &req_line(row, &ins, "", Some(base.as_str())), row, &out, nontrivial);
        }
        // every getter on the parse result and on the join result
        let text = String::from_utf8_lossy(&s);
        for (b, bs) in [(None, None), (Some(base), Some(base.as_str()))] {
            if let Some(u) = parse_for_get(&text, b) {
                for row in &getters {
                    let out = exec(row, &Ctx { bytes: b"", text: "", url: &u, small: 0 });
                    col.case("gen-strings", &req_line(row, &ins, "", bs), row, &out, nontrivial);
                }
            }
        }
        // one setter row on a random start URL
        let row = urlset[rng.below(urlset.len())];
        let st = &starts[rng.below(starts.len())];
        let out = run_row(row, &s, Some(st), None);
        col.case("gen-strings", &req_line(row, &ins, "", Some(st.as_str())), row, &out, nontrivial);
        // the plain rows: the url string itself, and a random byte string
        if i % 4 == 0 {
            feed_plain_rows(col, "gen-strings", &ins, &s, None);
        }
        let rb = random_bytes(&mut rng, 64);
        feed_plain_rows(col, "gen-bytes", &format!("hex={}", hexb(&rb)), &rb, None);
    }
    // every single operation of urlops on a few start URLs, then random histories
    let singles = all_single_ops();
    let single_starts: Vec<&Url> = if thorough { starts.iter().collect() } else { starts.iter().step_by(4).collect() };
    for st in &single_starts {
        for op in &singles {
            let toks = ops_token(std::slice::from_ref(op));
            let (m, i, class) = run_history(st.as_str(), &toks);
            col.add("row:history", 1);
            if class == "panic-known" {
                col.add(&format!("panic-known:{}", m.trim_start_matches("PANIC(known:").trim_end_matches(')')), 1);
            }
            col.record("gen-single-ops", &format!("history start={} ops={}", esc(st.as_str().as_bytes()), toks), &m, &i, true, &format!("history:{}", class));
        }
    }
    for _ in 0..n_hist {
        let st = &starts[rng.below(starts.len())];
        let len = 1 + rng.below(5);
        let ops: Vec<Op> = (0..len).map(|_| random_op(&mut rng, false)).collect();
        let toks = ops_token(&ops);
        let (m, i, class) = run_history(st.as_str(), &toks);
        col.add("row:history", 1);
        if class == "panic-known" {
            col.add(&format!("panic-known:{}", m.trim_start_matches("PANIC(known:").trim_end_matches(')')), 1);
        }
        col.record("gen-histories", &format!("history start={} ops={}", esc(st.as_str().as_bytes()), toks), &m, &i, true, &format!("history:{}", class));
    }
}

/// directed inputs for arithmetic boundaries that neither the repetition families nor the random
/// generators reach: Punycode payloads whose first delta sits on a u32 / char boundary, as a bare payload
/// (public punycode functions), as an "xn--" label (IDNA entry points) and as a URL host
fn stream_directed(col: &mut Col) {
    let bases = base_urls();
    let starts = start_urls(false);
    let payloads = verif_harness::puny_boundary_payloads();
    let n = payloads.len();
    for (i, p) in payloads.into_iter().enumerate() {
        let ins = format!("hex={}", hexb(&p));
        feed_plain_rows(col, "directed-puny", &ins, &p, None);
        let mut lab = b"xn--".to_vec();
        lab.extend_from_slice(&p);
        let ins2 = format!("hex={}", hexb(&lab));
        feed_plain_rows(col, "directed-puny", &ins2, &lab, None);
        // as a host: every 4th payload through all URL rows (level 1 prefixes include "http://")
        if i % 4 == 0 || col.thorough {
            feed_url_rows(col, "directed-puny", &ins2, &lab, 1, &bases, &starts);
        }
    }
    col.rep.notes.push(format!("directed-puny: {} Punycode payloads on the u32 / surrogate / char::MAX boundaries of the first delta (0..3 basic code points, offsets -2..+2), bare, as xn-- label and as URL host", n));
}

fn run_streams(col: &mut Col, seed: u64) {
    let trace = std::env::var("C04_TRACE").is_ok();
    let t0 = Instant::now();
    let lap = |what: &str| {
        if trace {
            eprintln!("c04: {} done at {:.1} s", what, t0.elapsed().as_secs_f64());
        }
    };
    stream_documented(col);
    stream_small(col);
    lap("documented+small");
    stream_exhaustive(col);
    lap("exhaustive");
    stream_generators(col, seed);
    lap("generators");
    stream_directed(col);
    lap("directed");
    stream_families(col);
    lap("families");
    stream_blob(col);
    lap("deep-blob");
}

// ================================================================ the inventory
struct ApiEntry {
    krate: String,
    name: String,
    file: String,
    line: u64,
    sig: String,
}
fn tables_path() -> String {
    if let Ok(p) = std::env::var("C04_TABLES") {
        return p;
    }
    let rel = "coq/Gen/tables.json";
    if std::path::Path::new(rel).exists() {
        return rel.to_string();
    }
    match std::env::var("VERIF_ROOT") {
        Ok(r) => format!("{}/{}", r, rel),
        Err(_) => rel.to_string(),
    }
}
fn load_inventory() -> Result<Vec<ApiEntry>, String> {
    let p = tables_path();
    let txt = std::fs::read_to_string(&p).map_err(|e| format!("cannot read {}: {}", p, e))?;
    let j: serde_json::Value = serde_json::from_str(&txt).map_err(|e| format!("cannot parse {}: {}", p, e))?;
    let arr = j.get("c04_api").and_then(|a| a.as_array()).ok_or_else(|| format!("{} has no c04_api list", p))?;
    let st = |e: &serde_json::Value, k: &str| e.get(k).and_then(|x| x.as_str()).unwrap_or("").to_string();
    Ok(arr
        .iter()
        .map(|e| ApiEntry { krate: st(e, "crate"), name: st(e, "name"), file: st(e, "file"), line: e.get("line").and_then(|x| x.as_u64()).unwrap_or(0), sig: st(e, "sig") })
        .collect())
}
/// startup check of every mode: inventory entries without a table row (returned), rows without an entry (noted)
fn check_inventory(col: &mut Col) -> Vec<ApiEntry> {
    let inv = match load_inventory() {
        Ok(v) => v,
        Err(e) => {
            col.record("inventory", "inventory unreadable", "listed", &format!("UNREADABLE:{}", clip(&e, 200)), true, "unreadable");
            return vec![];
        }
    };
    let mut kinds: std::collections::BTreeMap<&'static str, u64> = Default::default();
    for r in rows() {
        *kinds.entry(r.kind.tag()).or_insert(0) += 1;
        if !inv.iter().any(|e| e.krate == r.krate && e.name == r.name) {
            col.rep.notes.push(format!("table row {} is not in the inventory (removed or renamed public fn)", r.full()));
        }
    }
    col.rep.notes.push(format!("entry-point table: {} rows {:?}; inventory: {} public fns", rows().len(), kinds, inv.len()));
    let mut unlisted = vec![];
    for e in inv {
        if rows().iter().any(|r| r.krate == e.krate && r.name == e.name) {
            if !col.search {
                col.rep.case("inventory", &format!("listed public fn {}::{}", e.krate, e.name), "listed", "listed", false, "listed");
            }
        } else {
            let req = format!("unlisted public fn {}::{} ({}:{})", e.krate, e.name, e.file, e.line);
            if col.search {
                col.rep.notes.push(req);
            } else {
                col.rep.case("inventory", &req, "listed", "UNLISTED", true, "unlisted");
            }
            unlisted.push(e);
        }
    }
    unlisted
}

// ================================================================ modes
fn run_corr(args: &Args) -> Report {
    let mut col = Col { rep: Report::new(), search: false, thorough: args.tier == "thorough" };
    check_inventory(&mut col);
    run_streams(&mut col, args.seed);
    col.rep.notes.push(
        "outside the streams: F-C13-2 (needs 4 GiB; see C13, known mode thorough tier); leaked PathSegmentsMut / Serializer guards (mem::forget) are outside the quantifier; Url::socket_addrs is called only when it cannot reach the resolver (no host, IP-literal host, or no port and a closure returning None); Url::deserialize_internal is fed only the output of serialize_internal; Serializer::for_suffix start positions are clamped to character boundaries (F-C15-1) and to the length (documented panic); Idna::to_ascii is given an ASCII-only `out` (F-C04-13: a non-ASCII `out` with verify_dns_length fails the debug assertion of uts46::verify_dns_length)"
            .into(),
    );
    if col.thorough && !DBG {
        // thorough tier, release build: the correspondence of COST (DESIGN.md section 8, C04): the cost
        // theorems / the list of timing findings predict "linear" for every experiment that is not a
        // listed finding; a flagged unlisted experiment is a mismatch.  Never run in the quick tier.
        let mut t = Report::new();
        run_timing_into(&mut t, true);
        for (req, what) in t.failures.iter() {
            col.rep.case("timing", req, "linear", &format!("SUPERLINEAR:{}", clip(what, 200)), true, "timing:flagged-unlisted");
        }
        col.rep.notes.extend(t.notes);
        for (k, v) in t.histogram.iter() {
            *col.rep.histogram.entry(k.clone()).or_insert(0) += *v;
        }
        col.rep.evaluations += t.evaluations;
        col.rep.notes.push("profile: release; thorough tier: doubling-time experiment run after the corr streams (nothing is timed in the quick tier)".into());
    } else if !DBG {
        // quick tier, release build: the conservative one-step guard (see quick_ratio)
        let mut t = Report::new();
        run_quick_timing_into(&mut t);
        for (req, what) in t.failures.iter() {
            col.rep.case("timing", req, "linear", &format!("SUPERLINEAR:{}", clip(what, 200)), true, "timing:flagged-unlisted");
        }
        col.rep.notes.extend(t.notes);
        col.rep.evaluations += t.evaluations;
        col.rep.notes.push("profile: release; quick tier: conservative 8x-step timing guard after the corr streams".into());
    } else {
        col.rep.notes.push("profile: dev (debug assertions, overflow checks); nothing is timed in this run".into());
    }
    col.rep
}

fn is_failure(model: &str, imp: &str) -> bool {
    model != imp
}
fn run_search(args: &Args) -> Report {
    let mut col = Col { rep: Report::new(), search: true, thorough: args.tier == "thorough" };
    let unlisted = check_inventory(&mut col);
    // 1. the differing requests
    if let Ok(txt) = std::fs::read_to_string(&args.file) {
        for l in txt.lines().filter(|l| !l.is_empty()) {
            if l.starts_with("unlisted public fn") || l.starts_with("listed public fn") || l.starts_with("inventory") {
                continue;
            }
            if l.starts_with("timing ") && DBG {
                continue; // re-measured by the release build only
            }
            let (m, i) = run_request_pair(l);
            col.rep.evaluations += 1;
            if is_failure(&m, &i) && col.rep.failures.len() < 20 {
                col.rep.failures.push((l.to_string(), describe_failure(&i)));
            }
        }
    }
    if col.rep.failures.iter().any(|(c, _)| c.starts_with("timing ")) {
        // a differing timing request reproduced: report it now (the streams and the full experiment would
        // only repeat what the correspondence run already did)
        return col.rep;
    }
    // 3. generic exercise of public fns that have no table row
    for e in &unlisted {
        generic_probe(e, &mut col.rep);
    }
    // 2. the streams, with the property evaluated directly
    run_streams(&mut col, args.seed ^ 0x5EA4C4);
    // 4. doubling-time experiment
    if col.thorough {
        if DBG {
            col.rep.notes.push("timing: skipped (dev-profile build; the doubling-time experiment runs only in the release build)".into());
        } else {
            run_timing_into(&mut col.rep, true);
        }
    }
    col.rep.failures.sort_by_key(|(c, _)| c.len());
    col.rep
}

fn run_replay(args: &Args) -> Report {
    let mut rep = Report::new();
    let txt = std::fs::read_to_string(&args.file).unwrap_or_default();
    let req = txt.split("\"request\":").nth(1).and_then(|s| s.split('"').nth(1)).unwrap_or("").to_string();
    if req.is_empty() {
        rep.notes.push("replay file has no request (no-failing-input-found replay): nothing to re-run".into());
        return rep;
    }
    rep.notes.push(format!("request: {}", req));
    rep.evaluations = 1;
    if let Some(name) = req.strip_prefix("generic ") {
        let name = name.split('(').next().unwrap_or(name).trim();
        match load_inventory() {
            Ok(inv) => match inv.into_iter().find(|e| format!("{}::{}", e.krate, e.name) == name) {
                Some(e) => generic_probe(&e, &mut rep),
                None => rep.notes.push(format!("implementation: {} is not in the inventory any more", name)),
            },
            Err(e) => rep.notes.push(format!("implementation: {}", e)),
        }
        return rep;
    }
    if req.starts_with("unlisted public fn") {
        rep.notes.push("implementation: the inventory theorem is broken by this function; see the generic probe in the search report".into());
        return rep;
    }
    let (m, _) = run_request_pair(&req);
    let i = run_request(&req);
    rep.notes.push(format!("implementation: {}", i));
    rep.notes.push(format!("prediction: {}", m));
    if is_failure(&m, &i) {
        rep.failures.push((req, describe_failure(&i)));
    }
    rep
}

// ================================================================ known findings
fn run_known(args: &Args) -> Report {
    let mut rep = Report::new();
    let thorough = args.tier == "thorough";
    let probe = |f: &mut dyn FnMut() -> String| -> (bool, String) {
        let _ = take_panic();
        match catch_unwind(AssertUnwindSafe(|| f())) {
            Ok(s) => (false, s),
            Err(_) => {
                let (m, l) = take_panic();
                (true, format!("panics: {} @ {}", clip(&m, 120), l))
            }
        }
    };
    // F-C04-1
    let (p, o) = probe(&mut || {
        let mut u = Url::parse("a://h?q").unwrap();
        let r = u.set_host(None);
        format!("returns {:?}, url = {}{}", r, u.as_str(), if DBG { "" } else { " (release build: no debug assertions)" })
    });
    rep.known.push(("F-C04-1".into(), p && c04_1_class(&Url::parse("a://h?q").unwrap()), format!("Url::parse(\"a://h?q\").set_host(None): {}", o)));
    // F-C04-3
    let (p, o) = probe(&mut || {
        let mut u = Url::parse("a://h:80/").unwrap();
        let r = u.set_host(Some(""));
        let corrupt = corrupt_empty_host(&u);
        format!("set_host returns {:?}, url = {}, in class = {}, password() = {:?}", r, u.as_str(), corrupt, u.password())
    });
    rep.known.push(("F-C04-3".into(), p, format!("a://h:80/ set_host(Some(\"\")) then password(): {}", o)));
    // F-C04-7
    let (p, o) = probe(&mut || {
        let b = Url::parse("file:///%b//c:").unwrap();
        format!("in class = {}; join returns {:?}{}", c04_7_class(&b, "../x"), b.join("../x").map(|u| u.to_string()), if DBG { "" } else { " (release build: no debug assertions)" })
    });
    rep.known.push(("F-C04-7".into(), p, format!("Url::parse(\"file:///%b//c:\").join(\"../x\"): {}", o)));
    // timing findings: never decided by a measurement
    let timing_note = |id: &str, what: &str, rep: &mut Report, measure: &mut dyn FnMut() -> String| {
        let obs = if thorough && !DBG { measure() } else { "timing finding: not measured in known mode (quick tier / dev profile)".to_string() };
        rep.known.push((id.to_string(), true, format!("{}: {}", what, obs)));
    };
    let ms = |f: &mut dyn FnMut()| -> f64 {
        let t = Instant::now();
        f();
        t.elapsed().as_secs_f64() * 1000.0
    };
    timing_note("F-C04-6", "path_segments_mut().extend of n segments on file:///", &mut rep, &mut || {
        let mut v = vec![];
        for n in [10_000usize, 20_000, 40_000] {
            let segs = vec!["a"; n];
            let mut u = Url::parse("file:///").unwrap();
            v.push(format!("n={} {:.1} ms", n, ms(&mut || {
                u.path_segments_mut().unwrap().extend(segs.iter());
            })));
        }
        v.join(", ")
    });
    timing_note("F-C04-8", "Url::parse(\"http://\" + \"a\"*n + \"/\" + \"../\"*n)", &mut rep, &mut || {
        let mut v = vec![];
        for n in [20_000usize, 40_000, 80_000] {
            let s = format!("http://{}/{}", "a".repeat(n), "../".repeat(n));
            v.push(format!("n={} {:.1} ms", n, ms(&mut || {
                let _ = std::hint::black_box(Url::parse(&s));
            })));
        }
        v.join(", ")
    });
    timing_note("F-C04-9", "\"a/b\" + \";p<i>=1\" for i < n parsed as Mime", &mut rep, &mut || {
        let mut v = vec![];
        for n in [5_000usize, 10_000, 20_000] {
            let s = mime_distinct(n);
            v.push(format!("n={} {:.1} ms", n, ms(&mut || {
                let _ = std::hint::black_box(s.parse::<Mime>());
            })));
        }
        v.join(", ")
    });
    timing_note("F-C04-10", "punycode::decode_to_string(\"a-\" + \"a\"*n)", &mut rep, &mut || {
        let mut v = vec![];
        for n in [10_000usize, 20_000, 40_000] {
            let s = format!("a-{}", "a".repeat(n));
            v.push(format!("n={} {:.1} ms", n, ms(&mut || {
                let _ = std::hint::black_box(idna::punycode::decode_to_string(&s));
            })));
        }
        v.join(", ")
    });
    // F-C04-11 (K-blob-depth): never re-measured here (quadratic time, aborts the process)
    rep.known.push((
        "F-C04-11".into(),
        true,
        "Url::origin / quirks::origin of \"blob:\" x n ++ \"http://h/\": unbounded recursion, stack overflow aborts the process (SIGABRT) between n = 32000 and 36000 in the release build and between 30000 and 40000 in the dev profile (8 MiB main-thread stack), quadratic time (release: 3.2 s at n = 10000, 39.5 s at n = 32000); measured once, not re-measured in known mode (request `blobdepth n=36000` re-runs it in a child process)".into(),
    ));
    // F-C04-12: Position slicing in component order on a record of F-C02-2 / F-C02-8
    let (p, o) = probe(&mut || {
        let mut u = Url::parse("a:/a/b").unwrap();
        u.set_path("//");
        let lookalike = authority_lookalike(&u);
        format!("url = {}, in class = {}, slice = {:?}", u.as_str(), lookalike, &u[Position::BeforeUsername..Position::AfterUsername])
    });
    rep.known.push(("F-C04-12".into(), p, format!("a:/a/b set_path(\"//\") then &u[Position::BeforeUsername..Position::AfterUsername]: {}", o)));
    // F-C04-13: the deprecated Idna::to_ascii hands the caller's `out` to verify_dns_length (debug assertion is_ascii)
    let (p, o) = probe(&mut || {
        let mut out = String::from("\u{e9}");
        let r = idna::Idna::new(idna::Config::default().verify_dns_length(true)).to_ascii("\u{e9}x", &mut out);
        format!("returns {:?}, out = {:?}{}", r.is_ok(), out, if DBG { "" } else { " (release build: no debug assertions)" })
    });
    rep.known.push(("F-C04-13".into(), p, format!("Idna::new(Config::default().verify_dns_length(true)).to_ascii(\"\\u{{e9}}x\", &mut String::from(\"\\u{{e9}}\")): {}", o)));
    // F-C14-1
    let (p, o) = probe(&mut || format!("returns {:?}", AsciiSet::EMPTY.add(std::hint::black_box(0x80))));
    rep.known.push(("F-C14-1".into(), p, format!("AsciiSet::EMPTY.add(0x80): {}", o)));
    // F-C15-1
    let (p, o) = probe(&mut || {
        let mut s = Serializer::for_suffix(String::from("\u{e9}"), 1);
        s.clear();
        format!("returns {:?}", s.finish())
    });
    rep.known.push(("F-C15-1".into(), p, format!("Serializer::for_suffix(String::from(\"\\u{{e9}}\"), 1).clear(): {}", o)));
    // F-C11-2
    {
        let input = "1a.xn--4db";
        let a = Uts46::new().to_ascii(input.as_bytes(), AsciiDenyList::EMPTY, Hyphens::Allow, DnsLength::Ignore).is_err();
        let (p, o) = probe(&mut || {
            let (t, e) = Uts46::new().to_user_interface(input.as_bytes(), AsciiDenyList::EMPTY, Hyphens::Allow, |_, _, _| false);
            format!("to_user_interface = ({:?}, is_err {})", t, e.is_err())
        });
        let in_class = known11(input.as_bytes(), AsciiDenyList::EMPTY, Hyphens::Allow);
        let reproduces = if DBG { p } else { a && o.contains("is_err false") };
        rep.known.push(("F-C11-2".into(), reproduces && in_class, format!("to_ascii({:?}) is_err = {}; in class = {}; {}", input, a, in_class, o)));
    }
    // F-C13-2: needs 4 GiB and ~20 s
    if thorough {
        let n: usize = 0xFFFF_FFFF;
        let mut s = String::new();
        if s.try_reserve_exact(n + 2).is_ok() {
            s.extend(std::iter::repeat('a').take(n));
            s.push_str("-a");
            let (p, o) = probe(&mut || format!("returns is_some = {}", idna::punycode::decode_to_string(&s).is_some()));
            rep.known.push(("F-C13-2".into(), p, format!("'a' x (2^32 - 1) ++ \"-a\": decode_to_string: {}", o)));
        } else {
            rep.known.push(("F-C13-2".into(), true, "not replayed: 4 GiB could not be allocated; see C13".into()));
        }
    } else {
        rep.known.push(("F-C13-2".into(), true, "not replayed in quick tier (needs 4 GiB and ~20 s); see C13".into()));
    }
    // fixed findings: must not reproduce
    let mut sink_panics = 0;
    let mut sink_errs = 0;
    for kfail in 0..8 {
        let (p, o) = probe(&mut || {
            let mut s1 = CountSink::new(Some(kfail));
            let r = Uts46::new().process("a.\u{e9}x.b".as_bytes(), AsciiDenyList::URL, Hyphens::Allow, ErrorPolicy::FailFast, |_, _, _| false, &mut s1, None);
            format!("{:?}", r)
        });
        if p {
            sink_panics += 1;
        }
        if o.contains("SinkError") {
            sink_errs += 1;
        }
    }
    rep.known.push(("F-C04-5".into(), sink_panics > 0, format!("Uts46::process(\"a.\\u{{e9}}x.b\") with a sink failing at its k-th write, k < 8: {} panics, {} Err(SinkError)", sink_panics, sink_errs)));
    let (p1, o1) = probe(&mut || {
        let u = Url::parse("foo://").unwrap();
        format!("{:?} {:?}", &u[Position::BeforePassword..], &u[Position::AfterPassword..])
    });
    let (p2, o2) = probe(&mut || {
        let u = Url::parse("http://user@host/").unwrap();
        format!("{:?} {:?}", &u[Position::BeforePassword..Position::AfterPassword], &u[Position::BeforePassword..])
    });
    rep.known.push(("F-C03-1".into(), p1 || p2 || o2.starts_with("\"@\""), format!("foo:// sliced at BeforePassword.. / AfterPassword..: {}; http://user@host/ BeforePassword..AfterPassword: {}", o1, o2)));
    rep
}
fn mime_distinct(n: usize) -> String {
    let mut s = String::from("a/b");
    for i in 0..n {
        s.push_str(&format!(";p{}=1", i));
    }
    s
}

// ================================================================ stubs (filled in below)
// ================================================================ generic exercise of a public fn without a table row
/// parameter types of a signature text of tables.json (tokens separated by spaces); Err = why it cannot be
/// called generically
fn sig_params(sig: &str) -> Result<Vec<String>, String> {
    let t: Vec<&str> = sig.split(' ').filter(|x| !x.is_empty()).collect();
    let fi = t.iter().position(|x| *x == "fn").ok_or("no `fn` in the signature")?;
    if t.get(fi + 2) != Some(&"(") {
        return Err("generic function (type parameters)".into());
    }
    let mut depth = 0i32;
    let mut params: Vec<Vec<&str>> = vec![vec![]];
    let mut closed = false;
    for x in &t[fi + 2..] {
        match *x {
            "(" | "[" | "<" => {
                depth += 1;
                if depth > 1 {
                    params.last_mut().unwrap().push(x);
                }
            }
            ")" | "]" | ">" => {
                depth -= 1;
                if depth == 0 {
                    closed = true;
                    break;
                }
                params.last_mut().unwrap().push(x);
            }
            "," if depth == 1 => params.push(vec![]),
            _ => params.last_mut().unwrap().push(x),
        }
    }
    if !closed {
        return Err("unbalanced signature".into());
    }
    let mut out = vec![];
    for p in params.into_iter().filter(|p| !p.is_empty()) {
        let p: Vec<&str> = p.into_iter().filter(|x| *x != "mut" || true).collect();
        let joined = p.join("");
        if matches!(joined.as_str(), "&self" | "&mutself" | "self" | "mutself") {
            out.push(joined);
            continue;
        }
        let colon = p.iter().position(|x| *x == ":").ok_or_else(|| format!("parameter `{}` not understood", p.join(" ")))?;
        out.push(p[colon + 1..].iter().filter(|x| !x.starts_with('\'')).cloned().collect::<Vec<_>>().join(""));
    }
    Ok(out)
}
/// (declaration of the value list, expression passing one element `x<i>`) for a parameter type
fn probe_values(ty: &str, i: usize) -> Option<(String, String)> {
    let ints = |t: &str, max: bool| {
        let mut v = vec!["0", "1", "127"];
        if t != "u8" || true {
            v.push("128");
            v.push("255");
        }
        let mut s = v.join(", ");
        if max && t != "u8" {
            s.push_str(&format!(", {}::MAX", t));
        }
        (format!("let a{}: &[{}] = &[{}];", i, t, s), format!("*x{}", i))
    };
    Some(match ty {
        "&str" => (format!("let a{}: &[&str] = &[\"\", \"a\", \"%\", \"\\u{{e9}}\", &big];", i), format!("*x{}", i)),
        "String" => (format!("let a{}: &[&str] = &[\"\", \"a\", \"%\", \"\\u{{e9}}\", &big];", i), format!("x{}.to_string()", i)),
        "&[u8]" => (format!("let a{}: &[&[u8]] = &[&[], &[0xFF], b\"a\", big.as_bytes()];", i), format!("*x{}", i)),
        "u8" | "u16" | "u32" | "usize" => ints(ty, true),
        "bool" => (format!("let a{}: &[bool] = &[false, true];", i), format!("*x{}", i)),
        "char" => (format!("let a{}: &[char] = &['a', '\\u{{e9}}', '\\0', char::MAX];", i), format!("*x{}", i)),
        _ => return None,
    })
}
fn crate_package(dir: &str) -> &'static str {
    match dir {
        "url" => "url",
        "idna" => "idna",
        "percent_encoding" => "percent-encoding",
        "form_urlencoded" => "form_urlencoded",
        _ => "data-url",
    }
}
fn probe_source(e: &ApiEntry, path: &str, params: &[String]) -> Option<String> {
    let method = params.first().map_or(false, |p| p.contains("self"));
    let mut decls = String::new();
    let mut loops_open = String::new();
    let mut loops_close = String::new();
    let mut args = vec![];
    let mut shows = vec![];
    for (i, ty) in params.iter().enumerate().skip(if method { 1 } else { 0 }) {
        let (d, x) = probe_values(ty, i)?;
        decls.push_str(&format!("    {}\n", d));
        loops_open.push_str(&format!("    for x{} in a{}.iter() {{\n", i, i));
        loops_close.push_str("    }\n");
        args.push(x);
        shows.push(format!("short(&format!(\"{{:?}}\", x{}))", i));
    }
    let call = if method {
        let m = e.name.rsplit("::").next().unwrap_or(&e.name);
        format!("{{ let mut u = url::Url::parse(\"http://example.com/a?b#c\").unwrap(); let _ = std::hint::black_box(u.{}({})); let _ = &mut u; }}", m, args.join(", "))
    } else {
        format!("{{ let _ = std::hint::black_box({}({})); }}", path, args.join(", "))
    };
    let show = if shows.is_empty() { "String::new()".to_string() } else { format!("[{}].join(\", \")", shows.join(", ")) };
    Some(format!(
        r#"#![allow(unused_mut, unused_variables, deprecated)]
use std::sync::Mutex;
static LAST: Mutex<String> = Mutex::new(String::new());
fn short(s: &str) -> String {{ if s.len() > 40 {{ format!("{{}}... ({{}} bytes)", s.chars().take(24).collect::<String>(), s.len()) }} else {{ s.to_string() }} }}
fn main() {{
    std::panic::set_hook(Box::new(|i| {{ *LAST.lock().unwrap() = i.to_string().replace('\n', " "); }}));
    let big = "a/../".repeat(13108);
    let mut calls = 0usize;
{decls}{open}        calls += 1;
        if calls <= 200 {{
            let r = std::panic::catch_unwind(std::panic::AssertUnwindSafe(|| {call}));
            if r.is_err() {{
                println!("PANIC\t{{}}\t{{}}", {show}, LAST.lock().unwrap());
            }}
        }}
{close}    println!("CALLS\t{{}}", calls.min(200));
}}
"#,
        decls = decls,
        open = loops_open,
        close = loops_close,
        call = call,
        show = show
    ))
}
fn generic_probe(e: &ApiEntry, rep: &mut Report) {
    let full = format!("{}::{}", e.krate, e.name);
    let cannot = |rep: &mut Report, why: String| rep.notes.push(format!("unlisted public fn {}: cannot be exercised generically ({})", full, why));
    let params = match sig_params(&e.sig) {
        Ok(p) => p,
        Err(w) => return cannot(rep, w),
    };
    let method = params.first().map_or(false, |p| p.contains("self"));
    if method && !(e.krate == "url" && e.name.starts_with("Url::")) {
        return cannot(rep, format!("method of a type that cannot be constructed generically: {}", e.name));
    }
    if params.len() > 4 {
        return cannot(rep, "more than 4 parameters".into());
    }
    let dir = e.file.split('/').next().unwrap_or("").to_string();
    let module = e.file.rsplit('/').next().unwrap_or("").trim_end_matches(".rs").to_string();
    let mut candidates = vec![format!("{}::{}", e.krate, e.name)];
    if module != "lib" && module != "mod" && !e.name.starts_with(&format!("{}::", module)) {
        candidates.push(format!("{}::{}::{}", e.krate, module, e.name));
    }
    if let Some(rest) = e.name.strip_prefix(&format!("{}::", module)) {
        candidates.push(format!("{}::{}", e.krate, rest));
    }
    let repo = std::env::var("VERIF_REPO").unwrap_or_else(|_| "/repo".into());
    let cwd = std::env::current_dir().map(|p| p.display().to_string()).unwrap_or_else(|_| ".".into());
    let proj = format!("{}/build/tmp/c04_probe_{}", cwd, std::process::id());
    let target = format!("{}/build/tmp/c04_probe_target", cwd);
    if let Err(err) = std::fs::create_dir_all(format!("{}/src", proj)) {
        return cannot(rep, format!("cannot create {}: {}", proj, err));
    }
    let features = if dir == "url" { ", features = [\"serde\", \"expose_internals\"]" } else { "" };
    let mut deps = format!("{} = {{ path = \"{}/{}\"{} }}\n", crate_package(&dir), repo, dir, features);
    if method && dir != "url" {
        deps.push_str(&format!("url = {{ path = \"{}/url\" }}\n", repo));
    }
    let manifest = format!(
        "[package]\nname = \"c04-probe\"\nversion = \"0.1.0\"\nedition = \"2021\"\n\n[workspace]\n\n[dependencies]\n{}\n[profile.dev]\nopt-level = 0\ndebug-assertions = true\noverflow-checks = true\n",
        deps
    );
    let _ = std::fs::write(format!("{}/Cargo.toml", proj), manifest);
    let _ = std::fs::copy(format!("{}/build/harness/Cargo.lock", cwd), format!("{}/Cargo.lock", proj));
    let mut built = false;
    let mut last_err = String::new();
    for path in &candidates {
        let src = match probe_source(e, path, &params) {
            Some(s) => s,
            None => {
                let _ = std::fs::remove_dir_all(&proj);
                return cannot(rep, format!("a parameter type outside {{&str, &[u8], u8, u16, u32, usize, bool, char, String}}: {:?}", params));
            }
        };
        let _ = std::fs::write(format!("{}/src/main.rs", proj), src);
        let out = std::process::Command::new("cargo").args(["build", "--offline", "--quiet"]).current_dir(&proj).env("CARGO_TARGET_DIR", &target).output();
        match out {
            Ok(o) if o.status.success() => {
                built = true;
                break;
            }
            Ok(o) => last_err = clip(String::from_utf8_lossy(&o.stderr).lines().find(|l| l.starts_with("error")).unwrap_or("cargo build failed"), 160),
            Err(err) => last_err = format!("cannot run cargo: {}", err),
        }
        if method {
            break;
        }
    }
    if !built {
        let _ = std::fs::remove_dir_all(&proj);
        return cannot(rep, format!("no call path compiles ({:?}): {}", candidates, last_err));
    }
    let out = std::process::Command::new(format!("{}/debug/c04-probe", target)).output();
    let _ = std::fs::remove_dir_all(&proj);
    match out {
        Err(err) => cannot(rep, format!("the probe does not start: {}", err)),
        Ok(o) => {
            let txt = String::from_utf8_lossy(&o.stdout).into_owned();
            let mut calls = 0;
            let mut panics = 0;
            for l in txt.lines() {
                let w: Vec<&str> = l.split('\t').collect();
                if w[0] == "CALLS" {
                    calls = w.get(1).and_then(|x| x.parse().ok()).unwrap_or(0);
                } else if w[0] == "PANIC" {
                    panics += 1;
                    if rep.failures.len() < 20 {
                        rep.failures.push((format!("generic {}({})", full, clip(w.get(1).unwrap_or(&""), 120)), format!("new public function panics: {}", clip(w.get(2).unwrap_or(&""), 200))));
                    }
                }
            }
            rep.evaluations += calls as u64;
            if !o.status.success() && panics == 0 {
                rep.failures.push((format!("generic {}", full), format!("new public function kills the probe process ({})", o.status)));
            }
            rep.notes.push(format!("unlisted public fn {}: generic probe made {} calls, {} panicked", full, calls, panics));
        }
    }
}
// ================================================================ doubling-time experiment (release build only)
struct Exp {
    row: &'static str,
    fam: &'static str,
    /// id of the listed timing finding this pair belongs to
    listed: Option<&'static str>,
    /// builds an input of about `size` bytes and returns the closure that makes the timed call(s)
    make: Box<dyn Fn(usize) -> Box<dyn FnMut()>>,
}
fn rep_str(unit: &str, size: usize) -> String {
    unit.repeat((size / unit.len().max(1)).max(1))
}
fn exp<F: Fn(usize) -> Box<dyn FnMut()> + 'static>(row: &'static str, fam: &'static str, listed: Option<&'static str>, make: F) -> Exp {
    Exp { row, fam, listed, make: Box::new(make) }
}
/// experiment "call f on head ++ unit x n ++ tail"
fn exp_str(row: &'static str, head: &'static str, unit: &'static str, tail: &'static str, listed: Option<&'static str>, f: fn(&str)) -> Exp {
    let fam: &'static str = Box::leak(format!("'{}'+'{}'*n+'{}'", head, unit, tail).replace("''+", "").replace("+''", "").into_boxed_str());
    exp(row, fam, listed, move |size| {
        let s = format!("{}{}{}", head, rep_str(unit, size), tail);
        Box::new(move || f(&s))
    })
}
fn bb<T>(x: T) {
    let _ = std::hint::black_box(x);
}
fn timing_experiments() -> Vec<Exp> {
    let mut v: Vec<Exp> = vec![];
    let parse: fn(&str) = |s| bb(Url::parse(s));
    // Url::parse: dot-segment families behind http:, a non-special scheme and file:
    for head in ["http://h/", "a:/", "file:///"] {
        for unit in ["a/../", "/..", "%2e%2e/", "../", "a/", "%", "\\", "?", "#&=", "\u{e9}"] {
            v.push(exp_str("url::Url::parse", head, unit, "", None, parse));
        }
        v.push(exp("url::Url::parse", Box::leak(format!("'{}'+'a/'*n+'../'*n", head).into_boxed_str()), None, move |size| {
            let n = (size / 5).max(1);
            let s = format!("{}{}{}", head, "a/".repeat(n), "../".repeat(n));
            Box::new(move || bb(Url::parse(&s)))
        }));
    }
    for unit in ["a.", "xn--4db.", "1.", "0x", "\u{e9}", "a", "%41", "["] {
        v.push(exp_str("url::Url::parse", "http://", unit, "/", None, parse));
    }
    v.push(exp_str("url::Url::parse", "http://u", ":", "@h/", None, parse));
    v.push(exp_str("url::Url::parse", "blob:", "blob", ":x", None, parse));
    // F-C04-8: n dot-dot segments resolved at the root while the text before the path is long
    let f8 = |pre: &'static str, mid: &'static str, up: &'static str| {
        move |size: usize| -> Box<dyn FnMut()> {
            let n = (size / (1 + up.len())).max(1);
            let s = format!("{}{}{}{}", pre, "a".repeat(n), mid, up.repeat(n));
            Box::new(move || bb(Url::parse(&s)))
        }
    };
    v.push(exp("url::Url::parse", "'http://'+'a'*n+'/'+'../'*n", Some("F-C04-8"), f8("http://", "/", "../")));
    v.push(exp("url::Url::parse", "'http://'+'a'*n+'/'+'%2e%2e/'*n", Some("F-C04-8"), f8("http://", "/", "%2e%2e/")));
    v.push(exp("url::Url::parse", "'a'*n+':/'+'../'*n", Some("F-C04-8"), f8("", ":/", "../")));
    v.push(exp("url::Url::parse", "'http://'+'u'*n+'@h/'+'../'*n", Some("F-C04-8"), f8("http://", "@h/", "../")));
    v.push(exp("url::Url::join", "base 'http://'+'a'*n+'/' ref '../'*n", Some("F-C04-8"), |size| {
        let n = (size / 4).max(1);
        let b = Url::parse(&format!("http://{}/", "a".repeat(n))).unwrap();
        let r = "../".repeat(n);
        Box::new(move || bb(b.join(&r)))
    }));
    v.push(exp("url::Url::set_path", "url 'http://'+'a'*n+'/' arg '../'*n", Some("F-C04-8"), |size| {
        let n = (size / 4).max(1);
        let b = Url::parse(&format!("http://{}/", "a".repeat(n))).unwrap();
        let r = "../".repeat(n);
        Box::new(move || {
            let mut u = b.clone();
            u.set_path(&r);
            bb(u)
        })
    }));
    v.push(exp("url::quirks::set_pathname", "url 'http://'+'a'*n+'/' arg '../'*n", Some("F-C04-8"), |size| {
        let n = (size / 4).max(1);
        let b = Url::parse(&format!("http://{}/", "a".repeat(n))).unwrap();
        let r = "../".repeat(n);
        Box::new(move || {
            let mut u = b.clone();
            url::quirks::set_pathname(&mut u, &r);
            bb(u)
        })
    }));
    // join: long references against short and long bases
    for (base, unit) in [("http://h/a/b", "a/../"), ("http://h/a/b", "../"), ("a:/a/b", "a/../"), ("file:///a/b", "a/../"), ("file:///a/b", "../"), ("http://h/a/b", "%2e%2e/")] {
        let fam: &'static str = Box::leak(format!("base {} ref '{}'*n", base, unit).into_boxed_str());
        v.push(exp("url::Url::join", fam, None, move |size| {
            let b = Url::parse(base).unwrap();
            let r = rep_str(unit, size);
            Box::new(move || bb(b.join(&r)))
        }));
    }
    for head in ["http://h/", "a:/", "file:///"] {
        let fam: &'static str = Box::leak(format!("base '{}'+'a/'*n ref '../'*n", head).into_boxed_str());
        v.push(exp("url::Url::join", fam, None, move |size| {
            let n = (size / 5).max(1);
            let b = Url::parse(&format!("{}{}", head, "a/".repeat(n))).unwrap();
            let r = "../".repeat(n);
            Box::new(move || bb(b.join(&r)))
        }));
    }
    // make_relative on long paths
    v.push(exp("url::Url::make_relative", "'http://h/'+'a/'*n vs 'http://h/'+'b/'*n", None, |size| {
        let n = (size / 2).max(1);
        let a = Url::parse(&format!("http://h/{}", "a/".repeat(n))).unwrap();
        let b = Url::parse(&format!("http://h/{}", "b/".repeat(n))).unwrap();
        Box::new(move || bb(a.make_relative(&b)))
    }));
    v.push(exp("url::Url::make_relative", "'http://h/'+'a/'*n vs the same +'x'", None, |size| {
        let n = (size / 2).max(1);
        let a = Url::parse(&format!("http://h/{}", "a/".repeat(n))).unwrap();
        let b = Url::parse(&format!("http://h/{}x", "a/".repeat(n))).unwrap();
        Box::new(move || bb(a.make_relative(&b)))
    }));
    // setters
    for (start, unit) in [("http://h/", "a/../"), ("file:///", "a/../"), ("a:/x", "a/../"), ("http://h/", "%"), ("file:///", "/")] {
        let fam: &'static str = Box::leak(format!("url {} arg '{}'*n", start, unit).into_boxed_str());
        v.push(exp("url::Url::set_path", fam, None, move |size| {
            let b = Url::parse(start).unwrap();
            let r = rep_str(unit, size);
            Box::new(move || {
                let mut u = b.clone();
                u.set_path(&r);
                bb(u)
            })
        }));
        v.push(exp("url::quirks::set_pathname", fam, None, move |size| {
            let b = Url::parse(start).unwrap();
            let r = rep_str(unit, size);
            Box::new(move || {
                let mut u = b.clone();
                url::quirks::set_pathname(&mut u, &r);
                bb(u)
            })
        }));
    }
    for (name, unit) in [("url::Url::set_query", "a=b&"), ("url::Url::set_fragment", "\u{e9}"), ("url::Url::set_username", "%"), ("url::Url::set_host", "a.")] {
        let fam: &'static str = Box::leak(format!("url http://u:p@h:81/a/b?q#f arg '{}'*n", unit).into_boxed_str());
        v.push(exp(name, fam, None, move |size| {
            let b = Url::parse("http://u:p@h:81/a/b?q#f").unwrap();
            let r = rep_str(unit, size);
            Box::new(move || {
                let mut u = b.clone();
                match name {
                    "url::Url::set_query" => u.set_query(Some(&r)),
                    "url::Url::set_fragment" => u.set_fragment(Some(&r)),
                    "url::Url::set_username" => bb(u.set_username(&r)),
                    _ => bb(u.set_host(Some(&r))),
                }
                bb(u)
            })
        }));
    }
    // path_segments_mut: extend / push (F-C04-6 on file: URLs)
    for (start, listed) in [("http://h/", None), ("a://h/", None), ("file:///", Some("F-C04-6"))] {
        let fam: &'static str = Box::leak(format!("url {} one extend of n segments 'a'", start).into_boxed_str());
        v.push(exp("url::PathSegmentsMut::extend", fam, listed, move |size| {
            let n = (size / 2).max(1);
            let b = Url::parse(start).unwrap();
            let segs = vec!["a"; n];
            Box::new(move || {
                let mut u = b.clone();
                u.path_segments_mut().unwrap().extend(segs.iter());
                bb(u)
            })
        }));
        let fam: &'static str = Box::leak(format!("url {} n calls of push('a')", start).into_boxed_str());
        v.push(exp("url::PathSegmentsMut::push", fam, listed, move |size| {
            let n = (size / 2).max(1);
            let b = Url::parse(start).unwrap();
            Box::new(move || {
                let mut u = b.clone();
                {
                    let mut p = u.path_segments_mut().unwrap();
                    for _ in 0..n {
                        p.push("a");
                    }
                }
                bb(u)
            })
        }));
    }
    v.push(exp("url::Url::query_pairs_mut", "n calls of append_pair('a','b')", None, |size| {
        let n = (size / 4).max(1);
        let b = Url::parse("http://h/").unwrap();
        Box::new(move || {
            let mut u = b.clone();
            {
                let mut q = u.query_pairs_mut();
                for _ in 0..n {
                    q.append_pair("a", "b");
                }
            }
            bb(u)
        })
    }));
    v.push(exp("url::Url::query_pairs", "'http://h/?'+'a=b&'*n iterated", None, |size| {
        let u = Url::parse(&format!("http://h/?{}", rep_str("a=b&", size))).unwrap();
        Box::new(move || bb(u.query_pairs().count()))
    }));
    v.push(exp("url::Url::path_segments", "'http://h/'+'a/'*n iterated", None, |size| {
        let u = Url::parse(&format!("http://h/{}", rep_str("a/", size))).unwrap();
        Box::new(move || bb(u.path_segments().map(|p| p.count())))
    }));
    // form_urlencoded / percent_encoding
    let form: fn(&str) = |s| bb(form_urlencoded::parse(s.as_bytes()).count());
    for unit in ["&", "=", "a=b&", "%41", "+", "%"] {
        v.push(exp_str("form_urlencoded::parse", "", unit, "", None, form));
    }
    v.push(exp_str("form_urlencoded::byte_serialize", "", " ", "", None, |s| bb(form_urlencoded::byte_serialize(s.as_bytes()).collect::<String>())));
    v.push(exp_str("form_urlencoded::byte_serialize", "", "\u{e9}", "", None, |s| bb(form_urlencoded::byte_serialize(s.as_bytes()).collect::<String>())));
    v.push(exp_str("form_urlencoded::Serializer::append_pair", "", "\u{e9} ", "", None, |s| bb(Serializer::new(String::new()).append_pair(s, s).finish())));
    for unit in ["%41", "%", "a", "%FF"] {
        v.push(exp_str("percent_encoding::percent_decode", "", unit, "", None, |s| bb(percent_decode(s.as_bytes()).collect::<Vec<u8>>())));
    }
    v.push(exp_str("percent_encoding::PercentDecode::decode_utf8_lossy", "", "%FF", "", None, |s| bb(percent_decode(s.as_bytes()).decode_utf8_lossy().len())));
    v.push(exp_str("percent_encoding::PercentDecode::decode_utf8_lossy", "", "%C3", "", None, |s| bb(percent_decode(s.as_bytes()).decode_utf8_lossy().len())));
    for unit in ["\u{e9}", " ", "a", "a "] {
        v.push(exp_str("percent_encoding::utf8_percent_encode", "", unit, "", None, |s| bb(utf8_percent_encode(s, NON_ALPHANUMERIC).to_string())));
    }
    // data-url
    for unit in ["A", " ", " A", "A=", "AAA="] {
        v.push(exp_str("data_url::forgiving_base64::decode_to_vec", "", unit, "", None, |s| bb(forgiving_base64::decode_to_vec(s.as_bytes()).map(|v| v.len()))));
    }
    let data: fn(&str) = |s| bb(DataUrl::process(s).map(|d| d.decode_to_vec().map(|(b, _)| b.len())));
    for (head, unit, tail) in [("data:", ",", ""), ("data:;base64,", "A", ""), ("data:", "%", ","), ("data:,", "%", ""), ("data:,%4", "#", ""), ("data:,", "%41", ""), ("data:", ";", ","), ("data:a/b", ";a=1", ","), ("data:;base64,", " A", "")] {
        v.push(exp_str("data_url::DataUrl::process+decode_to_vec", head, unit, tail, None, data));
    }
    let mime: fn(&str) = |s| bb(s.parse::<Mime>().map(|m| m.parameters.len()));
    for (head, unit) in [("a/b", ";"), ("a/b", ";a=1"), ("a/b", ";a=\""), ("a/b;x=\"", "\\"), ("", "a/b;"), ("a/b", "; "), ("a/b;a=", "\u{e9}")] {
        v.push(exp_str("data_url::Mime::from_str", head, unit, "", None, mime));
    }
    // F-C04-9: distinct parameter names
    v.push(exp("data_url::Mime::from_str", "'a/b'+';p<i>=1' for i<n (distinct names)", Some("F-C04-9"), |size| {
        let s = mime_distinct((size / 8).max(1));
        Box::new(move || bb(s.parse::<Mime>().map(|m| m.parameters.len())))
    }));
    v.push(exp("data_url::DataUrl::process+decode_to_vec", "'data:a/b'+';p<i>=1' for i<n+','", Some("F-C04-9"), |size| {
        let s = format!("data:{},", mime_distinct((size / 8).max(1)));
        Box::new(move || bb(DataUrl::process(&s).map(|d| d.mime_type().parameters.len())))
    }));
    // punycode: the public functions are quadratic and uncapped (F-C04-10)
    v.push(exp("idna::punycode::encode_str", "n distinct CJK characters", Some("F-C04-10"), |size| {
        let s: String = (0..(size / 3).max(1)).map(|i| char::from_u32(0x4E00 + (i % 20000) as u32).unwrap()).collect();
        Box::new(move || bb(idna::punycode::encode_str(&s)))
    }));
    v.push(exp_str("idna::punycode::encode_str", "", "\u{e9}", "", Some("F-C04-10"), |s| bb(idna::punycode::encode_str(s))));
    v.push(exp_str("idna::punycode::encode_str", "", "a", "\u{e9}", Some("F-C04-10"), |s| bb(idna::punycode::encode_str(s))));
    v.push(exp_str("idna::punycode::decode_to_string", "a-", "a", "", Some("F-C04-10"), |s| bb(idna::punycode::decode_to_string(s))));
    v.push(exp_str("idna::punycode::decode_to_string", "", "a", "-a", Some("F-C04-10"), |s| bb(idna::punycode::decode_to_string(s))));
    v.push(exp_str("idna::punycode::decode", "", "a", "", Some("F-C04-10"), |s| bb(idna::punycode::decode(s))));
    // idna
    let toa: fn(&str) = |s| bb(idna::domain_to_ascii(s));
    let tou: fn(&str) = |s| bb(idna::domain_to_unicode(s).0.len());
    for unit in ["a.", "xn--a.", "xn--4db.", "xn--bcher-kva.", "\u{e9}", "\u{e9}.", "A", ".", "xn--", "\u{5d0}", "a-", "\u{df}"] {
        v.push(exp_str("idna::domain_to_ascii", "", unit, "", None, toa));
        v.push(exp_str("idna::domain_to_unicode", "", unit, "", None, tou));
    }
    // two-part families: many short labels and one long label (a cost of the form #labels x longest label is
    // invisible to every single-unit repetition family)
    for (fam, short, long, long_last) in [
        ("'\u{e9}.'*n+'a'*4n", "\u{e9}.", "a", true),
        ("'a'*4n+'.\u{e9}'*n", ".\u{e9}", "a", false),
        ("'xn--4db.'*n+'a'*4n", "xn--4db.", "a", true),
        ("'a.'*n+'\u{e9}'*n", "a.", "\u{e9}", true),
    ] {
        for (row, f) in [("idna::domain_to_ascii", toa), ("idna::domain_to_unicode", tou)] {
            v.push(exp(row, fam, None, move |size| {
                let n = (size / 8).max(1);
                let many = short.repeat(n);
                let one = long.repeat(4 * n / long.len().max(1));
                let s = if long_last { format!("{}{}", many, one) } else { format!("{}{}", one, many) };
                Box::new(move || f(&s))
            }));
        }
    }
    v.push(exp_str("url::Host::parse", "", "a.", "", None, |s| bb(Host::parse(s))));
    v.push(exp_str("url::Host::parse", "", "1.", "", None, |s| bb(Host::parse(s))));
    v.push(exp_str("url::Host::parse", "", "0x", "", None, |s| bb(Host::parse(s))));
    v.push(exp_str("url::Host::parse", "[", ":", "]", None, |s| bb(Host::parse(s))));
    v.push(exp_str("url::Host::parse_opaque", "", "%", "", None, |s| bb(Host::parse_opaque(s))));
    v
}
fn time_ms(f: &mut dyn FnMut()) -> f64 {
    let t = Instant::now();
    f();
    t.elapsed().as_secs_f64() * 1000.0
}
/// (note line, flagged).  Start size: grown geometrically from 4 KiB until one call takes >= 20 ms; then
/// s, 2s, 4s, 8s, each the minimum of 5 runs; flagged iff three consecutive doublings each cost > 3.2x.
fn doubling(e: &Exp) -> (String, bool) {
    let id = format!("timing {} fam={}", e.row, e.fam);
    let mut s = 4096usize;
    loop {
        let mut call = (e.make)(s);
        let t = time_ms(&mut *call);
        if t > 10_000.0 {
            return (format!("{}: gave up (a single call of {} bytes took {:.0} ms)", id, s, t), false);
        }
        if t >= 20.0 {
            break;
        }
        if s >= 64 << 20 {
            return (format!("{}: gave up (more than 64 MiB needed for 20 ms; {} bytes take {:.2} ms)", id, s, t), false);
        }
        let grow = if t < 1.0 { 8 } else if t < 8.0 { 2 } else { 2 };
        s *= grow;
    }
    let mut ts: Vec<f64> = vec![];
    for k in 0..4 {
        let mut call = (e.make)(s << k);
        let mut best = f64::MAX;
        for _ in 0..5 {
            let t = time_ms(&mut *call);
            best = best.min(t);
            if t > 10_000.0 {
                break;
            }
        }
        ts.push(best);
        if best > 10_000.0 {
            break;
        }
    }
    let ratios: Vec<f64> = ts.windows(2).map(|w| w[1] / w[0]).collect();
    let flagged = ratios.len() == 3 && ratios.iter().all(|r| *r > 3.2);
    let line = format!(
        "{}: s={} t=[{}] ratios=[{}] {}{}",
        id,
        s,
        ts.iter().map(|t| format!("{:.1}", t)).collect::<Vec<_>>().join(", "),
        ratios.iter().map(|r| format!("{:.2}", r)).collect::<Vec<_>>().join(", "),
        if flagged { "FLAG" } else { "ok" },
        match e.listed {
            Some(l) => format!(" (listed: {})", l),
            None => String::new(),
        }
    );
    (line, flagged)
}
/// Quick-tier guard (release build only): one size step of 8x, flagged only if the cost ratio exceeds 30 (linear: 8,
/// n log n: about 9, quadratic: 64) in three independent repetitions (each the minimum of 5 runs) and the larger call
/// takes at least 40 ms - wide enough margins that machine load cannot produce a flag.  Listed findings are skipped.
fn quick_ratio(e: &Exp) -> (String, bool) {
    let id = format!("timing {} fam={}", e.row, e.fam);
    let mut s = 2048usize;
    let mut t1;
    loop {
        let mut call = (e.make)(s);
        t1 = time_ms(&mut *call);
        if t1 > 2_000.0 {
            return (format!("{}: quick guard gave up (a single call of {} bytes took {:.0} ms)", id, s, t1), false);
        }
        if t1 >= 3.0 || s >= (4 << 20) {
            break;
        }
        s *= 4;
    }
    let best = |size: usize| -> f64 {
        let mut call = (e.make)(size);
        let mut b = f64::MAX;
        for _ in 0..5 {
            let t = time_ms(&mut *call);
            b = b.min(t);
            if t > 4_000.0 {
                break;
            }
        }
        b
    };
    let mut ratios = vec![];
    let mut big = 0.0;
    for _ in 0..3 {
        let a = best(s).max(0.001);
        let b = best(8 * s);
        big = b;
        ratios.push(b / a);
        if b / a <= 30.0 || b < 40.0 {
            break;
        }
    }
    let flagged = ratios.len() == 3 && ratios.iter().all(|r| *r > 30.0) && big >= 40.0;
    (format!("{}: quick guard s={} 8s-ratios=[{}] {}", id, s, ratios.iter().map(|r| format!("{:.1}", r)).collect::<Vec<_>>().join(", "), if flagged { "FLAG" } else { "ok" }), flagged)
}
fn run_quick_timing_into(rep: &mut Report) {
    let trace = std::env::var("C04_TRACE").is_ok();
    let mut n = 0;
    for e in timing_experiments() {
        if e.listed.is_some() {
            continue;
        }
        let (line, flagged) = quick_ratio(&e);
        if trace {
            eprintln!("c04: {}", line);
        }
        n += 1;
        rep.evaluations += 1;
        if flagged {
            rep.failures.push((format!("timing {} fam={}", e.row, e.fam), format!("super-linear: an 8x larger input costs more than 30x in three repetitions ({})", line)));
        }
    }
    rep.notes.push(format!("quick timing guard: {} unlisted experiments, one 8x step each, flag threshold 30x in three repetitions and >= 40 ms", n));
}
/// `fail`: a flagged pair that is not a listed timing finding becomes a failure (search mode)
fn run_timing_into(rep: &mut Report, fail: bool) {
    if DBG {
        rep.notes.push("timing: this is a dev-profile build; the doubling-time experiment is meaningful only for the release build".into());
    }
    let only = std::env::var("C04_TIMING_ONLY").ok();
    let trace = std::env::var("C04_TRACE").is_ok();
    for e in timing_experiments() {
        if let Some(o) = &only {
            if !format!("{} {}", e.row, e.fam).contains(o.as_str()) {
                continue;
            }
        }
        let (line, flagged) = doubling(&e);
        if trace {
            eprintln!("c04: {}", line);
        }
        rep.evaluations += 1;
        if flagged {
            *rep.histogram.entry(format!("timing-flagged:{}", e.listed.unwrap_or("unlisted"))).or_insert(0) += 1;
            if fail && e.listed.is_none() {
                rep.failures.push((format!("timing {} fam={}", e.row, e.fam), format!("super-linear: three consecutive doublings each cost more than 3.2x ({})", line)));
            }
        }
        rep.notes.push(line);
    }
}

/// development aid (`--mode selfcheck`, dev profile): the F-C04-7 class predicate against the observed
/// debug assertion over a small exhaustive scope of file: bases and references
fn run_selfcheck() -> Report {
    let mut rep = Report::new();
    let segs = ["a", "c:", "C:", "c|", "..", "", "%b", "z:"];
    let mut bases: Vec<String> = vec![];
    for host in ["", "h"] {
        for a in segs {
            bases.push(format!("file://{}/{}", host, a));
            for b in segs {
                bases.push(format!("file://{}/{}/{}", host, a, b));
                for c in ["c:", "a", ""] {
                    bases.push(format!("file://{}/{}/{}/{}", host, a, b, c));
                    bases.push(format!("file://{}/{}/{}/{}?q#f", host, a, b, c));
                }
            }
        }
    }
    bases.push("http://h/a/c:".into());
    bases.push("a:/a/c:".into());
    let firsts = ["..", ".", "%2e%2e", "%2E%2e", ".%2E", "%2e.", "x", "", "/..", "\\..", "?..", "#..", "c:", "\t..", " ..", "file:..", "FILE:%2E.", "file:/..", "file://h/..", "http:..", "..\\x", "...", "%2e", "..%2e"];
    let rests = ["", "/x", "/../..", "?q", "#f", "\\y"];
    for b in &bases {
        let base = match Url::parse(b) {
            Ok(u) => u,
            Err(_) => continue,
        };
        for f in firsts {
            for r in rests {
                let reference = format!("{}{}", f.replace("\\t", "\t").replace("\\\\", "\\"), r.replace("\\\\", "\\"));
                let predicted = c04_7_class(&base, &reference);
                let _ = take_panic();
                let observed = match catch_unwind(AssertUnwindSafe(|| base.join(&reference).is_ok())) {
                    Ok(_) => "ok".to_string(),
                    Err(_) => {
                        let (m, l) = take_panic();
                        if m.contains(K_C04_7.msg) && l.contains(K_C04_7.loc) { "F-C04-7".to_string() } else { format!("PANIC:{} @ {}", clip(&m, 80), l) }
                    }
                };
                let model = if predicted && DBG { "F-C04-7" } else { "ok" };
                rep.case("selfcheck-c04-7", &format!("base={} ref={}", esc(base.as_str().as_bytes()), esc(reference.as_bytes())), model, &observed, true, &format!("c047:{}", observed.split(':').next().unwrap_or("")));
            }
        }
    }
    rep
}

fn main() {
    install_hook();
    let args = parse_args();
    let rep = match args.mode.as_str() {
        "child-blob" => {
            child_blob(&args);
            return;
        }
        "corr" => run_corr(&args),
        "search" => run_search(&args),
        "known" => run_known(&args),
        "replay" => run_replay(&args),
        "selfcheck" => run_selfcheck(),
        "timing" => {
            let mut rep = Report::new();
            run_timing_into(&mut rep, false);
            rep
        }
        m => panic!("unknown mode {}", m),
    };
    finish(&args, &rep);
}
