//! C20 - Unix file paths <-> file: URLs: correspondence model <-> url crate (+ std::path),
//! property search, known findings, replay.
//!
//! Requests (every field is a dot-separated hex list, "-" = empty):
//!   path <path bytes>              five results in one line (one pipe round trip per generated path):
//!                                    from_file_path record | from_directory_path record
//!                                    | to_file_path of the first | to_file_path of the second
//!                                    | Path::is_absolute, Path::components (std vs the std::path section of the model)
//!   to s <url string code points>  to_file_path of Url::parse(string) (the model gets the parsed record)
//!   patheq <p> <q>                 PathBuf == PathBuf
//!   pathjoin <p> <f>               Path::join
//!   join <dir path bytes> <reference code points>   from_directory_path(p).join(reference): record | to_file_path
//!   name <file name bytes>         reference for the name, plain_name, simple_name (Coq vs Rust predicate)
use percent_encoding::{percent_encode, AsciiSet, CONTROLS};
use std::ffi::OsStr;
use std::os::unix::ffi::OsStrExt;
use std::path::{Component, Path, PathBuf};
use url::{Host, Url};
use verif_harness::urlrec::{url_oracle, url_token};
use verif_harness::*;

const DBG: bool = cfg!(debug_assertions);

// an independent spelling of parser.rs SPECIAL_PATH_SEGMENT (crate-private there); the `from` requests
// observe the crate's own set, the `name` requests compare this one with the regenerated Coq table
const FRAGMENT_SET: &AsciiSet = &CONTROLS.add(b' ').add(b'"').add(b'<').add(b'>').add(b'`');
const PATH_SET: &AsciiSet = &FRAGMENT_SET.add(b'#').add(b'?').add(b'{').add(b'}');
const SPECIAL_PATH_SEGMENT_SET: &AsciiSet = &PATH_SET.add(b'/').add(b'%').add(b'\\');

fn path_of(bytes: &[u8]) -> &Path {
    Path::new(OsStr::from_bytes(bytes))
}

fn name_reference(f: &[u8]) -> String {
    percent_encode(f, SPECIAL_PATH_SEGMENT_SET).collect()
}

// ---------------------------------------------------------------- the name classes (Rust side)
fn scheme_like(f: &[u8]) -> bool {
    if f.is_empty() || !f[0].is_ascii_alphabetic() {
        return false;
    }
    for &c in &f[1..] {
        if c == b':' {
            return true;
        }
        if !(c.is_ascii_alphanumeric() || c == b'+' || c == b'-' || c == b'.') {
            return false;
        }
    }
    false
}
fn drive_like(f: &[u8]) -> bool {
    f.len() == 2 && f[0].is_ascii_alphabetic() && (f[1] == b':' || f[1] == b'|')
}
fn plain_name(f: &[u8]) -> bool {
    !f.is_empty() && f.iter().all(|&b| b != 0 && b != b'/') && f != b"." && f != b".." && !scheme_like(f) && !drive_like(f)
}
fn simple_name(f: &[u8]) -> bool {
    !f.is_empty()
        && f.iter().all(|&b| b.is_ascii_alphanumeric() || b == b'.' || b == b'_' || b == b'-')
        && f != b"."
        && f != b".."
}

// ---------------------------------------------------------------- implementation side
fn show_path_res(r: Result<PathBuf, ()>) -> String {
    match r {
        Ok(p) => format!("ok {}", hexb(p.as_os_str().as_bytes())),
        Err(()) => "err".into(),
    }
}
fn g<F: FnOnce() -> String + std::panic::UnwindSafe>(f: F) -> String {
    match std::panic::catch_unwind(f) {
        Ok(s) => s,
        Err(_) => "panic".to_string(),
    }
}

fn impl_path(p: &[u8]) -> String {
    let path = path_of(p);
    let rf = std::panic::catch_unwind(|| Url::from_file_path(path));
    let rd = std::panic::catch_unwind(|| Url::from_directory_path(path));
    let show = |r: &std::thread::Result<Result<Url, ()>>| match r {
        Ok(Ok(u)) => format!("ok {}", url_token(u)),
        Ok(Err(())) => "err".to_string(),
        Err(_) => "panic".to_string(),
    };
    let to = |r: &std::thread::Result<Result<Url, ()>>| match r {
        Ok(Ok(u)) => impl_to(u),
        _ => "-".to_string(),
    };
    format!("{} | {} | {} | {} | {}", show(&rf), show(&rd), to(&rf), to(&rd), impl_components(p))
}

/// the Url a `to` request is about; None = the request names no Url (parse error / relative path)
fn url_of_to(kind: &str, arg: &str) -> Option<Url> {
    match kind {
        "s" => Url::parse(&unhexs(arg)).ok(),
        _ => None,
    }
}
fn impl_to(u: &Url) -> String {
    let u = u.clone();
    g(move || show_path_res(u.to_file_path()))
}

fn show_component(c: &Component) -> String {
    match c {
        Component::Prefix(_) => "X".into(),
        Component::RootDir => "R".into(),
        Component::CurDir => "C".into(),
        Component::ParentDir => "P".into(),
        Component::Normal(s) => format!("N{}", hexb(s.as_bytes())),
    }
}
fn impl_components(p: &[u8]) -> String {
    let path = path_of(p);
    let cs: Vec<String> = path.components().map(|c| show_component(&c)).collect();
    format!("{} {}", if path.is_absolute() { 1 } else { 0 }, if cs.is_empty() { "-".to_string() } else { cs.join("|") })
}

fn impl_join(p: &[u8], r: &str) -> String {
    let d = match std::panic::catch_unwind(|| Url::from_directory_path(path_of(p))) {
        Ok(Ok(d)) => d,
        Ok(Err(())) => return "direrr".into(),
        Err(_) => return "dirpanic".into(),
    };
    let r2 = r.to_string();
    let d2 = d.clone();
    let j = std::panic::catch_unwind(move || d2.join(&r2));
    match j {
        Err(_) => "panic | -".into(),
        Ok(Err(e)) => format!("err {:x} | -", verif_harness::urlrec::parse_error_code(e)),
        Ok(Ok(u)) => format!("ok {} | {}", url_token(&u), impl_to(&u)),
    }
}

fn impl_name(f: &[u8]) -> String {
    format!("{} {} {}", hexb(name_reference(f).as_bytes()), plain_name(f) as u8, simple_name(f) as u8)
}

fn impl_request(req: &str) -> String {
    let w: Vec<&str> = req.split(' ').collect();
    match (w[0], w.len()) {
        ("path", 2) => impl_path(&unhexb(w[1])),
        ("to", 3) => match url_of_to(w[1], w[2]) {
            Some(u) => impl_to(&u),
            None => "nourl".into(),
        },
        ("patheq", 3) => format!("{}", (path_of(&unhexb(w[1])) == path_of(&unhexb(w[2]))) as u8),
        ("pathjoin", 3) => hexb(path_of(&unhexb(w[1])).join(path_of(&unhexb(w[2]))).as_os_str().as_bytes()),
        ("join", 3) => impl_join(&unhexb(w[1]), &unhexs(w[2])),
        ("name", 2) => impl_name(&unhexb(w[1])),
        _ => "?".into(),
    }
}

/// the line sent to the model driver for a harness request
fn model_request(req: &str) -> Option<String> {
    let w: Vec<&str> = req.split(' ').collect();
    match (w[0], w.len()) {
        ("to", 3) => url_of_to(w[1], w[2]).map(|u| format!("to {} {}", DBG as u8, url_token(&u))),
        ("join", 3) => Some(format!("join {} {} {}", DBG as u8, w[1], w[2])),
        ("path", 2) => Some(format!("path {} {}", DBG as u8, w[1])),
        _ => Some(req.to_string()),
    }
}

fn signature(req: &str, out: &str) -> (bool, String) {
    let w: Vec<&str> = req.split(' ').collect();
    let cls = |s: &str| if s.starts_with("ok") { "ok" } else if s.starts_with("err") { "err" } else { "other" };
    match w[0] {
        "path" => {
            let p = unhexb(w[1]);
            let parts: Vec<&str> = out.split(" | ").collect();
            let kinds: String = parts.get(4).and_then(|c| c.split(' ').nth(1)).unwrap_or("").split('|').map(|c| c.chars().next().unwrap_or('-')).take(5).collect();
            let enc = parts[0].contains(".25.");
            let hack = parts.get(2).map_or(false, |t| {
                t.starts_with("ok") && {
                    let b = unhexb(&t[3..]);
                    b.len() > 3 && b[b.len() - 1] == b'/' && (b[b.len() - 2] == b':' || b[b.len() - 2] == b'|') && p.last() != Some(&b'/')
                }
            });
            (!p.is_empty(), format!("path:{}:{}:{}:{}:{}", cls(parts[0]), kinds, if enc { "pct" } else { "plain" }, p.last().map_or(false, |&b| b == b'/'), hack))
        }
        "to" => {
            let hack = out.starts_with("ok") && {
                let b = unhexb(&out[3..]);
                b.len() > 3 && b[b.len() - 1] == b'/' && (b[b.len() - 2] == b':' || b[b.len() - 2] == b'|')
            };
            (true, format!("to:{}:{}", cls(out), hack))
        }
        "patheq" => (true, format!("patheq:{}", out)),
        "pathjoin" => (true, format!("pathjoin:{}:{}:{}", w[1] == "-", w[1].ends_with("2f"), w[2].starts_with("2f"))),
        "join" => {
            let mut it = out.split(" | ");
            let a = it.next().unwrap_or("");
            let b = it.next().unwrap_or("");
            (true, format!("join:{}:{}", cls(a), cls(b)))
        }
        "name" => (w[1] != "-", format!("name:{}", out.split(' ').skip(1).collect::<Vec<_>>().join(""))),
        other => (true, other.to_string()),
    }
}

fn compare(drv: &mut Driver, rep: &mut Report, stream: &str, req: &str) {
    let mreq = match model_request(req) {
        Some(m) => m,
        None => {
            rep.bump("skipped:no-url");
            return;
        }
    };
    let model = drv.ask_with(&mreq, url_oracle);
    let imp = impl_request(req);
    let (nt, sig) = signature(req, &imp);
    rep.case(stream, req, &model, &imp, nt, &sig);
}

// ---------------------------------------------------------------- generators
/// the class alphabet of the exhaustive stream: the separators, '.', the bytes the encode set and the
/// URL parser treat specially, a drive-letter letter, a plain letter, space, a UTF-8 lead byte, 0xFF
const PATH_CLASSES: [u8; 13] = [b'/', b'.', b'a', b'%', b'?', b'#', b'\\', b':', b'|', b'c', b' ', 0xC3, 0xFF];

fn random_component(rng: &mut Rng) -> Vec<u8> {
    match rng.below(14) {
        0 => b".".to_vec(),
        1 => b"..".to_vec(),
        2 => vec![],
        3 => vec![*rng.pick(b"cCzZ"), *rng.pick(b":|")],
        4 => b"%2e".to_vec(),
        5 => b"%2F".to_vec(),
        6 => {
            // long component
            let n = 40 + rng.below(200);
            (0..n).map(|_| *rng.pick(b"abcXYZ019._-% \xC3\xA9\xFF")).collect()
        }
        7 => "\u{e9}t\u{e9} \u{1f600}".as_bytes().to_vec(),
        8 => vec![0x80 + rng.below(0x80) as u8, 0x80 + rng.below(0x80) as u8],
        9 => rng
            .pick(&[
                &b"index.html"[..], b"foo.txt", b"a b", b"x?y", b"p#q", b"back\\slash", b"semi;colon", b"http:x", b"a:b", b"tab\there", b"nl\nx", b"q\"uote", b"{b}", b"~",
                b"100%", b"%41", b"%", b"c:", b"C|", b"...", b".hidden", b" lead", b"trail ",
            ])
            .to_vec(),
        _ => {
            let n = 1 + rng.below(8);
            (0..n)
                .map(|_| match rng.below(8) {
                    0 => *rng.pick(&PATH_CLASSES[1..]),
                    1 => 1 + rng.below(0x1f) as u8,
                    2 => 0x80 + rng.below(0x80) as u8,
                    _ => 0x21 + rng.below(0x5e) as u8,
                })
                .filter(|&b| b != b'/')
                .collect()
        }
    }
}

fn random_path(rng: &mut Rng) -> Vec<u8> {
    let mut p = Vec::new();
    if rng.chance(9, 10) {
        p.push(b'/');
        if rng.chance(1, 10) {
            p.push(b'/');
        }
    }
    let n = rng.below(6);
    for i in 0..n {
        if i > 0 {
            p.push(b'/');
            if rng.chance(1, 8) {
                p.push(b'/');
            }
        }
        p.extend(random_component(rng));
    }
    if rng.chance(1, 4) {
        p.push(b'/');
    }
    if rng.chance(1, 40) {
        p.insert(rng.below(p.len() + 1), 0);
    }
    p
}

fn to_url_pool() -> Vec<&'static str> {
    vec![
        "file:///", "file:///tmp/foo.txt", "file://localhost/", "file://localhost/etc/passwd", "file://LOCALHOST/", "file://LocalHost/x",
        "file://host/", "file://host/share/f", "file://1.2.3.4/x", "file://[::1]/x", "file://example.com/a/b",
        "file:///c:/x", "file:///C|/", "file:///c:", "file:///C|", "file:///c:/", "file:///dir/c:", "file:///dir/C|", "file:///a/b/Z:",
        "file://host/c:", "file:///c", "file:///:", "file:///1:", "file:///ab:",
        "file:///%2F", "file:///a%2Fb", "file:///%00", "file:///a%00b", "file:///%", "file:///%4", "file:///%41", "file:///%zz", "file:///%2e", "file:///%2E%2e/x",
        "file:///a%20b", "file:///%C3%A9", "file:///%FF", "file:///%ff%FE", "file:///\u{e9}", "file:///a/../b", "file:///a/./b", "file:///a//b", "file:///a/b/", "file:///a/b//",
        "file:///a?q", "file:///a#f", "file:///a?q#f", "file:///a%3Fb", "file:///a%23b", "file:///a%3a", "file:///x/c%3A", "file:///x/c%7C", "file:///x/c%7c",
        "file:", "file:/", "file://", "file:a", "file:/a", "file:c:/x", "file:/c:/x", "file:\\\\host\\x", "file:///a\\b",
        "http://localhost/x", "http://example.com/x", "http://localhost:8080/a/b", "https://LOCALHOST/", "ftp://h/", "ws://localhost/c:",
        "a:/x", "a:/", "a://localhost/x", "a://h/x", "a://localhost", "a://h", "a:x", "a:", "a://", "a:///x", "non-spec:/.//x", "non-spec:/..//x",
        "mailto:x@y", "data:text/plain,hi", "about:blank", "a:/c:", "a:/x/C|", "a://localhost/%2F%00", "a://LOCALHOST/x", "a://localhost:1/x", "a://u:p@localhost/x",
        "http://127.0.0.1/x", "http://[::1]/x", "a://[::1]/x", "a://1.2.3.4/x",
    ]
}

fn random_to_url(rng: &mut Rng) -> String {
    let mut s = String::new();
    s.push_str(*rng.pick(&["file:", "file:", "file:", "file:", "FILE:", "http:", "a:", "non-spec:", "ftp:"]));
    s.push_str(*rng.pick(&["//", "//", "//", "/", "", "///", "\\\\"]));
    if rng.chance(1, 2) {
        s.push_str(*rng.pick(&["localhost", "LOCALHOST", "LocalHost", "host", "h", "1.2.3.4", "[::1]", "", "localhost.", "localhost:80", "u@localhost", "c:", "C|", "local%68ost"]));
    }
    let n = rng.below(5);
    for _ in 0..n {
        s.push('/');
        s.push_str(*rng.pick(&[
            "a", "b", "", ".", "..", "c:", "C|", "Z:", "z|", "%2F", "%2f", "%00", "%", "%4", "%41", "%zz", "%2e", "%2E", "%25", "%5C", "%3A", "%7C", "%7c", "a b", "\u{e9}",
            "%C3%A9", "%FF", "\\", "x\\y", "a:b", ":", "|", "1:", "ab:", "file.txt", "%E2%82", " ",
        ]));
    }
    if rng.chance(1, 5) {
        s.push('/');
    }
    if rng.chance(1, 6) {
        s.push_str(*rng.pick(&["?q", "#f", "?", "#", "?a=b#c"]));
    }
    s
}

fn name_pool() -> Vec<&'static [u8]> {
    vec![
        b"index.html", b"f", b"foo.txt", b"a-b_c.d", b"...", b".hidden", b"x.", b"A1", b"", b".", b"..", b"c:", b"C|", b"c|", b"Z:", b"c:x", b"ab:", b"a+b:", b"1:", b":", b"|",
        b"http:x", b"file:x", b"a:b", b"a b", b" x", b"x ", b"x?y", b"?", b"x#y", b"#", b"a\\b", b"\\", b"\\\\h", b"%", b"100%", b"%41", b"%2e", b"%2E", b".%2e", b"%2e%2e", b"%2F",
        b"a/b", b"/", b"/abs", b"//h/x", b"\tx", b"x\ty", b"x\ny", b"\n", b"\x00", b"a\x00", b"\xC3\xA9", b"\xFF", b"\x80\x81", b"\"", b"<>", b"`", b"{}", b"~", b"^", b"[", b"]", b"@", b"u@h", b"&", b"=", b"+", b";", b",", b"$", b"!", b"*", b"(", b")", b"'",
        b"c%3A", b"C%7C", b"-", b"_", b"0", b"9z", b"%25", b"\x7f", b"\x01", b"a.b.c", b"..a", b"a..", b". ", b".. ", b"c|x", b"c||",
    ]
}

fn dir_pool() -> Vec<&'static [u8]> {
    vec![b"/", b"/tmp", b"/tmp/", b"/var/www", b"/a/../b", b"/a/./b//", b"/c:", b"/C|", b"/c:/x", b"/x/c:", b"/dir with space", b"/100%", b"/a?b", b"/a#b", b"/back\\slash", b"/\xC3\xA9", b"/\xFF\xFE", b"//", b"/..", b"/.", b"/a:b", b"/c", b"/c|/d|"]
}

fn run_corr(args: &Args) -> Report {
    let mut rep = Report::new();
    let mut drv = Driver::spawn(&args.driver);
    let thorough = args.tier == "thorough";
    let mut rng = Rng::new(args.seed);

    // (1) corpus
    if let Ok(txt) = std::fs::read_to_string(format!("{}/C20/cases.txt", args.file)) {
        for l in txt.lines().filter(|l| !l.is_empty() && !l.starts_with('#')) {
            compare(&mut drv, &mut rep, "corpus", l);
        }
    }

    // (2) exhaustive small scope: all byte strings over the class alphabet, prefixed with '/' and unprefixed
    let exh_len = if thorough { 6 } else { 5 };
    let rel_len = if thorough { 5 } else { 4 };
    for_all_strings(&PATH_CLASSES, exh_len, |s| {
        let mut abs = vec![b'/'];
        abs.extend_from_slice(s);
        compare(&mut drv, &mut rep, "exh-path-abs", &format!("path {}", hexb(&abs)));
        // unprefixed: relative unless the string itself starts with '/'
        if s.len() <= rel_len && s.first() != Some(&b'/') {
            compare(&mut drv, &mut rep, "exh-path-rel", &format!("path {}", hexb(s)));
        }
    });
    rep.exhaustive.push(format!(
        "path (from_file_path, from_directory_path, to_file_path of both, is_absolute + components): all byte strings of length <= {} over {{/ . a % ? # \\ : | c space 0xC3 0xFF}} prefixed with '/', and unprefixed up to length {}",
        exh_len, rel_len
    ));
    // directory variant and names: smaller scope
    for_all_strings(&PATH_CLASSES, 3, |s| {
        compare(&mut drv, &mut rep, "exh-name", &format!("name {}", hexb(s)));
    });
    // joins: every pool directory x every pool name (encoded reference and, when the name is UTF-8, the raw name)
    for d in dir_pool() {
        for f in name_pool() {
            compare(&mut drv, &mut rep, "exh-join-enc", &format!("join {} {}", hexb(d), hexs(&name_reference(f))));
            if let Ok(s) = std::str::from_utf8(f) {
                compare(&mut drv, &mut rep, "exh-join-raw", &format!("join {} {}", hexb(d), hexs(s)));
            }
        }
    }
    for f in name_pool() {
        compare(&mut drv, &mut rep, "exh-name", &format!("name {}", hexb(f)));
        for d in dir_pool() {
            compare(&mut drv, &mut rep, "exh-pathjoin", &format!("pathjoin {} {}", hexb(d), hexb(f)));
        }
        compare(&mut drv, &mut rep, "exh-pathjoin", &format!("pathjoin - {}", hexb(f)));
    }
    for_all_strings(&[b'.', b'a', b'c', b':', b'|', b'%', b'2', b'e', b'?', b'\\'], if thorough { 4 } else { 3 }, |s| {
        for d in [&b"/"[..], b"/d", b"/c:"] {
            compare(&mut drv, &mut rep, "exh-join-enc", &format!("join {} {}", hexb(d), hexs(&name_reference(s))));
            compare(&mut drv, &mut rep, "exh-join-raw", &format!("join {} {}", hexb(d), hexb(s)));
        }
    });
    rep.exhaustive.push("join: 23 directories x 107 names (encoded and raw reference); all names of length <= 3 (4) over {. a c : | % 2 e ? \\} under /, /d, /c:; name: all strings <= 3 over the path alphabet".into());
    for s in to_url_pool() {
        compare(&mut drv, &mut rep, "pool-to", &format!("to s {}", hexs(s)));
    }

    // (3) structured random
    let n = if thorough { 300_000 } else { 12_000 };
    for _ in 0..n {
        let p = random_path(&mut rng);
        let h = hexb(&p);
        compare(&mut drv, &mut rep, "rnd-path", &format!("path {}", h));
        let q = if rng.chance(1, 2) {
            // a respelling of p: doubled separators, '.' components, trailing slash
            let mut q = Vec::new();
            for &b in &p {
                q.push(b);
                if b == b'/' && rng.chance(1, 3) {
                    q.extend_from_slice(*rng.pick(&[&b"/"[..], b"./", b"/./", b".//"]));
                }
            }
            if rng.chance(1, 3) {
                q.extend_from_slice(*rng.pick(&[&b"/"[..], b"/.", b"//"]));
            }
            q
        } else {
            random_path(&mut rng)
        };
        compare(&mut drv, &mut rep, "rnd-patheq", &format!("patheq {} {}", h, hexb(&q)));
        let f = if rng.chance(1, 4) { random_path(&mut rng) } else { random_component(&mut rng) };
        compare(&mut drv, &mut rep, "rnd-pathjoin", &format!("pathjoin {} {}", h, hexb(&f)));
        let s = random_to_url(&mut rng);
        compare(&mut drv, &mut rep, "rnd-to-url", &format!("to s {}", hexs(&s)));
    }
    for _ in 0..n / 3 {
        let mut p = random_path(&mut rng);
        if p.first() != Some(&b'/') {
            p.insert(0, b'/');
        }
        let f = if rng.chance(1, 3) { rng.pick(&name_pool()).to_vec() } else { random_component(&mut rng) };
        compare(&mut drv, &mut rep, "rnd-name", &format!("name {}", hexb(&f)));
        compare(&mut drv, &mut rep, "rnd-join-enc", &format!("join {} {}", hexb(&p), hexs(&name_reference(&f))));
        if let Ok(s) = std::str::from_utf8(&f) {
            compare(&mut drv, &mut rep, "rnd-join-raw", &format!("join {} {}", hexb(&p), hexs(s)));
        }
    }
    rep.notes = outside_class_notes();
    // (4) malformed: URL strings from the shared URL generator (any scheme), mutated pool URLs
    for _ in 0..n / 2 {
        let s = if rng.chance(1, 2) {
            verif_harness::urlrec::random_url_string(&mut rng)
        } else {
            let b = *rng.pick(&to_url_pool());
            verif_harness::urlrec::mutate_string(&mut rng, b)
        };
        compare(&mut drv, &mut rep, "mal-to-url", &format!("to s {}", hexs(&s)));
    }
    rep
}

// ---------------------------------------------------------------- the C20 statements on the implementation
/// F-C02-5 and relatives: the classes of paths whose hand-built Url the parser does not reproduce
/// (C02's business; used only by the supplementary re-parse statement of the search)
fn known_reparse_class(p: &[u8]) -> bool {
    let comps: Vec<Vec<u8>> = path_of(p)
        .components()
        .skip(1)
        .map(|c| c.as_os_str().as_bytes().to_vec())
        .collect();
    // '..' components are written unresolved (F-C02-5)
    if comps.iter().any(|c| c == b"..") {
        return true;
    }
    false
}

fn std_join(p: &[u8], f: &[u8]) -> PathBuf {
    path_of(p).join(path_of(f))
}

fn prop_path(p: &[u8]) -> Option<String> {
    let p = p.to_vec();
    let r = std::panic::catch_unwind(move || -> Option<String> {
        let path = path_of(&p);
        let rf = Url::from_file_path(path);
        let rd = Url::from_directory_path(path);
        if !path.is_absolute() {
            if rf.is_ok() || rd.is_ok() {
                return Some("rel: a relative path was accepted".into());
            }
            return None;
        }
        if p.contains(&0) {
            return None;
        }
        let (u, d) = match (rf, rd) {
            (Ok(u), Ok(d)) => (u, d),
            _ => return Some("rt: an absolute path was rejected".into()),
        };
        match u.to_file_path() {
            Ok(q) => {
                if q != path || !q.components().eq(path.components()) {
                    return Some(format!("rt: to_file_path(from_file_path(p)) = {:?} (url {})", q, u));
                }
            }
            Err(()) => return Some(format!("rt: to_file_path(from_file_path(p)) = Err (url {})", u)),
        }
        if !d.as_str().ends_with('/') {
            return Some(format!("dir: from_directory_path(p) = {} has no trailing slash", d));
        }
        match d.to_file_path() {
            Ok(q) if q == path => {}
            other => return Some(format!("dir: to_file_path(from_directory_path(p)) = {:?} (url {})", other, d)),
        }
        // supplementary (C02 overlap, 'the parser agrees with the hand-built Url'), outside the known classes
        if !known_reparse_class(&p) {
            for x in [&u, &d] {
                match Url::parse(x.as_str()) {
                    Ok(y) if url_token(&y) == url_token(x) => {}
                    other => return Some(format!("reparse: {} re-parses to {:?}", x, other.map(|y| y.to_string()))),
                }
            }
        }
        None
    });
    r.unwrap_or_else(|_| Some("panic".into()))
}

fn prop_join(p: &[u8], f: &[u8]) -> Option<String> {
    if !plain_name(f) || p.first() != Some(&b'/') || p.contains(&0) {
        return None;
    }
    let (p, f) = (p.to_vec(), f.to_vec());
    let r = std::panic::catch_unwind(move || -> Option<String> {
        let d = match Url::from_directory_path(path_of(&p)) {
            Ok(d) => d,
            Err(()) => return Some("dir: absolute directory rejected".into()),
        };
        let reference = name_reference(&f);
        let j = match d.join(&reference) {
            Ok(j) => j,
            Err(e) => return Some(format!("dir: {}.join({:?}) = Err({:?})", d, reference, e)),
        };
        let want = std_join(&p, &f);
        match j.to_file_path() {
            Ok(q) if q == want => None,
            other => Some(format!("dir: to_file_path({}.join({:?}) = {}) = {:?}, expected {:?}", d, reference, j, other, want)),
        }
    });
    r.unwrap_or_else(|_| Some("panic".into()))
}

fn prop_host(u: &Url) -> Option<String> {
    let u = u.clone();
    let r = std::panic::catch_unwind(move || -> Option<String> {
        let host_ok = matches!(u.host(), None | Some(Host::Domain("localhost")));
        let has_segments = u.path_segments().is_some();
        let r = u.to_file_path();
        if (!host_ok || !has_segments) && r.is_ok() {
            return Some(format!("host: to_file_path({}) = {:?} although host = {:?}, path_segments present = {}", u, r, u.host(), has_segments));
        }
        if host_ok && has_segments {
            match r {
                Err(()) => return Some(format!("host: to_file_path({}) = Err although the host is empty/localhost", u)),
                Ok(q) => {
                    if !q.is_absolute() {
                        return Some(format!("host: to_file_path({}) = {:?} is not absolute", u, q));
                    }
                    // segment-wise decoding
                    let mut want = Vec::new();
                    for s in u.path_segments().unwrap() {
                        want.push(b'/');
                        want.extend(percent_encoding::percent_decode(s.as_bytes()));
                    }
                    if path_of(&want) != q {
                        return Some(format!("to: to_file_path({}) = {:?}, segment-wise decoding gives {:?}", u, q, path_of(&want)));
                    }
                }
            }
        }
        None
    });
    r.unwrap_or_else(|_| Some("panic".into()))
}

fn property_of_request(req: &str) -> Option<String> {
    let w: Vec<&str> = req.split(' ').collect();
    match (w[0], w.len()) {
        ("path", 2) => prop_path(&unhexb(w[1])),
        ("to", 3) => url_of_to(w[1], w[2]).and_then(|u| prop_host(&u)),
        ("join", 3) => {
            // the names whose reference this is
            let p = unhexb(w[1]);
            let r = unhexs(w[2]);
            let f: Vec<u8> = percent_encoding::percent_decode(r.as_bytes()).collect();
            if name_reference(&f) == r { prop_join(&p, &f) } else { None }
        }
        ("name", 2) => {
            let f = unhexb(w[1]);
            [&b"/"[..], b"/d", b"/c:"].iter().find_map(|d| prop_join(d, &f))
        }
        ("patheq", 3) => prop_path(&unhexb(w[1])).or_else(|| prop_path(&unhexb(w[2]))),
        _ => None,
    }
}

fn run_search(args: &Args) -> Report {
    let mut rep = Report::new();
    let mut rng = Rng::new(args.seed ^ 0x5EA4C4);
    let try_req = |rep: &mut Report, req: String| {
        rep.evaluations += 1;
        if rep.failures.len() < 40 {
            if let Some(w) = property_of_request(&req) {
                rep.failures.push((req, w));
            }
        }
    };
    // (b) the differing cases
    if let Ok(txt) = std::fs::read_to_string(&args.file) {
        for l in txt.lines().filter(|l| !l.is_empty()) {
            try_req(&mut rep, l.to_string());
        }
    }
    // (c) the generator streams, property-directed
    for_all_strings(&PATH_CLASSES, 4, |s| {
        let mut abs = vec![b'/'];
        abs.extend_from_slice(s);
        try_req(&mut rep, format!("path {}", hexb(&abs)));
        if s.first() != Some(&b'/') {
            try_req(&mut rep, format!("path {}", hexb(s)));
        }
    });
    for d in dir_pool() {
        for f in name_pool() {
            try_req(&mut rep, format!("join {} {}", hexb(d), hexs(&name_reference(f))));
        }
    }
    for_all_strings(&PATH_CLASSES, 3, |s| try_req(&mut rep, format!("name {}", hexb(s))));
    for s in to_url_pool() {
        try_req(&mut rep, format!("to s {}", hexs(s)));
    }
    for _ in 0..60_000 {
        if rep.failures.len() >= 40 {
            break;
        }
        let p = random_path(&mut rng);
        try_req(&mut rep, format!("path {}", hexb(&p)));
        let s = random_to_url(&mut rng);
        try_req(&mut rep, format!("to s {}", hexs(&s)));
        let s = verif_harness::urlrec::random_url_string(&mut rng);
        try_req(&mut rep, format!("to s {}", hexs(&s)));
        let mut d = random_path(&mut rng);
        if d.first() != Some(&b'/') {
            d.insert(0, b'/');
        }
        let f = random_component(&mut rng);
        try_req(&mut rep, format!("join {} {}", hexb(&d), hexs(&name_reference(&f))));
    }
    // shrink: prefer the shortest failing request
    rep.failures.sort_by_key(|(c, _)| c.len());
    rep
}

/// behaviour just outside the classes of the theorems, observed on the implementation (notes only)
fn outside_class_notes() -> Vec<String> {
    let mut v = Vec::new();
    let show = |p: &[u8], reference: &str| -> String {
        let d = Url::from_directory_path(path_of(p)).unwrap();
        match d.join(reference) {
            Ok(u) => format!("{}.join({:?}) = {} -> to_file_path {:?}", d, reference, u, u.to_file_path()),
            Err(e) => format!("{}.join({:?}) = Err({:?})", d, reference, e),
        }
    };
    for (p, r) in [
        (&b"/d"[..], "C|"), (b"/d", "c:"), (b"/d", "a:b"), (b"/d", "http:x"),
        // raw (unencoded) names as references
        (b"/d", "x?y"), (b"/d", "x#y"), (b"/d", "a\\b"), (b"/d", "%41"), (b"/d", " x "), (b"/d", "x\ty"), (b"/d", "%2e%2E"), (b"/d", ".."),
    ] {
        v.push(format!("outside plain_name / raw reference: {}", g(|| show(p, r))));
    }
    v.push(format!("NUL: {}", g(|| format!("file:///a%00b -> to_file_path {:?}", Url::parse("file:///a%00b").unwrap().to_file_path()))));
    v.push(format!("drive-letter rule: {}", g(|| format!("file:///x/c%3A -> {:?}; file:///x/ab: -> {:?}", Url::parse("file:///x/c%3A").unwrap().to_file_path(), Url::parse("file:///x/ab:").unwrap().to_file_path()))));
    v
}

fn run_known(_args: &Args) -> Report {
    let mut rep = Report::new();
    // F-C02-5 (C02's finding, replayed here because from_file_path is modelled here)
    let r = g(|| {
        let u = Url::from_file_path("/a/../b").unwrap();
        let back = Url::parse(u.as_str()).unwrap();
        format!("{} re-parses to {}", u, back)
    });
    rep.known.push(("F-C02-5".into(), r == "file:///a/../b re-parses to file:///b", r));
    // documentation of to_file_path promises Err for a decoded NUL; the Unix code returns the path
    let r = g(|| format!("{:?}", Url::parse("file:///a%00b").unwrap().to_file_path()));
    rep.known.push(("F-C20-1".into(), r.starts_with("Ok("), format!("to_file_path(file:///a%00b) = {}", r)));
    rep.notes = outside_class_notes();
    rep
}

fn run_replay(args: &Args) -> Report {
    let mut rep = Report::new();
    let txt = std::fs::read_to_string(&args.file).unwrap_or_default();
    let req = txt.split("\"request\":").nth(1).and_then(|s| s.split('"').nth(1)).unwrap_or("").to_string();
    if req.is_empty() {
        rep.notes.push("replay file has no request (no-failing-input-found replay): nothing to re-run".into());
        return rep;
    }
    let imp = impl_request(&req);
    rep.notes.push(format!("request: {}", req));
    rep.notes.push(format!("implementation: {}", imp));
    if !args.driver.is_empty() {
        if let Some(m) = model_request(&req) {
            let mut drv = Driver::spawn(&args.driver);
            let model = drv.ask_with(&m, url_oracle);
            rep.notes.push(format!("model: {}", model));
        }
    }
    rep.evaluations = 1;
    if let Some(w) = property_of_request(&req) {
        rep.failures.push((req, w));
    }
    rep
}

fn main() {
    quiet_panics();
    let args = parse_args();
    let rep = match args.mode.as_str() {
        "corr" => run_corr(&args),
        "search" => run_search(&args),
        "known" => run_known(&args),
        "replay" => run_replay(&args),
        m => panic!("unknown mode {}", m),
    };
    finish(&args, &rep);
}
