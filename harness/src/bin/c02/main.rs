//! C02 - every reachable Url is a fixpoint of serialize-then-parse.
//! = the history streams of `urlhist` (hist.rs is a verbatim copy, see tools/sync_c02_hist.py) + parse/join streams:
//! urlhist reaches the parser only through its start URLs and the setters that re-enter it, so a
//! change of the parser's canonical output (dot segments, default ports, '/.' marker, scheme case)
//! is invisible to it.  corr: model vs implementation on `parse` requests; search: the property
//! (Url::parse(u.as_str()) gives the same record) on every parse/join result of the implementation
//! outside the known file drive-letter class, then the history search.
use url::Url;
use verif_harness::urlops::start_pool;
use verif_harness::urlprops::prop_c02;
use verif_harness::urlrec::*;
use verif_harness::{hexs, host_premise_pool, parse_args, quiet_panics, unhexs, Args, Driver, Report, Rng};

#[allow(dead_code)]
mod hist;

/// encoding override 2 of the model driver (ocaml/drv_url.ml ovr_of): scalar values below 256 as one byte, '?' otherwise
fn latin1ish(s: &str) -> std::borrow::Cow<'_, [u8]> {
    std::borrow::Cow::Owned(s.chars().map(|c| if (c as u32) < 256 { c as u32 as u8 } else { b'?' }).collect())
}

fn impl_parse(base: Option<&Url>, input: &str) -> (String, Option<Url>) {
    impl_parse_o(0, base, input)
}

/// ovr = 0: no encoding override; 2: latin1ish (Coq: C02_parse_Canon_any_override - the result is a fixpoint of the
/// UTF-8 re-parse for every override, because the override's bytes are percent-encoded with the query set)
fn impl_parse_o(ovr: u32, base: Option<&Url>, input: &str) -> (String, Option<Url>) {
    let r = std::panic::catch_unwind(std::panic::AssertUnwindSafe(|| {
        let o = Url::options().base_url(base);
        let o = if ovr == 2 { o.encoding_override(Some(&latin1ish)) } else { o };
        o.parse(input)
    }));
    match r {
        Ok(r) => (parse_result_token(&r), r.ok()),
        Err(_) => ("panic".to_string(), None),
    }
}

/// mirror of Known_file_drive (coq/Proofs/C02_Reach.v): file URL with a drive-letter-like segment
fn known_file_drive(u: &Url) -> bool {
    u.scheme() == "file"
        && u.path().split('/').any(|seg| {
            let b = seg.as_bytes();
            b.len() >= 2 && b[0].is_ascii_alphabetic() && (b[1] == b':' || b[1] == b'|')
        })
}

/// mirror of Known_F_C02_9 (coq/Proofs/C02_Hist.v): set_ip_host with an IPv4 address on a URL whose scheme is
/// not special - the result has host() = Ipv4 while its text re-parses with host() = Domain (Host::parse_opaque
/// has no IPv4 arm).  Used by the history search (known_step_c02) and by the known mode to check the witness.
fn known_f_c02_9(before: &Url, ip: &std::net::IpAddr) -> bool {
    ip.is_ipv4() && !before.is_special()
}

/// the steps on which the C02 history search does not evaluate the property (hist.rs, property_on_step):
/// the class Known_F_C02_9, and every later step of such a history - a non-special URL whose host kind is Ipv4
/// is reachable only through the class (the parser gives such a host the kind Domain), i.e. it is outside
/// Reachable2 of coq/Proofs/C02_Hist.v
fn known_step_c02(before: &Url, op: &verif_harness::urlops::Op) -> bool {
    use verif_harness::urlops::Op;
    let outside = !before.is_special() && matches!(before.host(), Some(url::Host::Ipv4(_)));
    outside || matches!(op, Op::SetIpHost(ip) if known_f_c02_9(before, ip)) || known_f_c07_8(before, op)
}

/// mirror of Known_F_C02_10 (coq/Proofs/C02_Stmt4.v; the class F-C07-8 seen from C02 - C02_F_C02_10_witness,
/// C02_statement_refuted): quirks::set_host on a non-special URL that has a password and no user name - an empty host
/// part is accepted (the code looks at the user name and the port only) and gives scheme://:pw@/..., which does not
/// re-parse.  Over-approximation: every quirks host call on such a URL.
fn known_f_c07_8(before: &Url, op: &verif_harness::urlops::Op) -> bool {
    use verif_harness::urlops::Op;
    matches!(op, Op::Quirk("host", _)) && !before.is_special() && before.username().is_empty() && before.password().is_some()
}

const SCHEMES2: [&str; 14] =
    ["http", "https", "ws", "wss", "ftp", "file", "a", "non-spec", "HTTP", "About", "data", "mailto", "web+demo", "FiLe"];
const AUTH: [&str; 16] = [
    "h", "example.com", "EXAMPLE.com", "u@h", "u:p@h", "u:@h", ":@h", ":p@h", "@h", "[::1]", "1.2.3.4", "0x7f.1", "h%41", "", "localhost",
    "x.y",
];
const PORTS: [&str; 10] = ["", "", ":", ":80", ":443", ":8080", ":0", ":65535", ":21", ":00080"];
const SEGS: [&str; 26] = [
    ".", "..", "%2e", "%2E", "%2e.", ".%2E", "%2e%2E", "a", "b c", "", "", "c:", "C|", "\u{e9}", "%41", "a\\b", "a\tb", ";x=1", "%", "%zz", "x ",
    " ", "a.", "..a", "%2", "~",
];
const QUERIES: [&str; 10] = ["", "", "?", "?a=b", "?q#", "?'", "? x", "?\u{e9}", "?a\tb", "?%20 "];
const FRAGS: [&str; 9] = ["", "", "#", "#f", "# x", "#\u{e9}`", "#a#b", "#x ", "#a\nb"];
const OPAQUE: [&str; 12] = ["", "x", "b c", "b c ", " b", "p/q", ".", "..", "%2e", "\u{e9}\u{7f}", "a\tb ", "x?"];

fn structured(rng: &mut Rng) -> String {
    let mut s = String::new();
    if rng.chance(1, 12) {
        s.push_str(*rng.pick(&[" ", "\t", "\n ", "\u{0}"]));
    }
    let sch = *rng.pick(&SCHEMES2);
    s.push_str(sch);
    s.push(':');
    match rng.below(10) {
        0 | 1 => {
            // opaque path (or path-relative text for special schemes)
            s.push_str(*rng.pick(&OPAQUE));
        }
        2 | 3 | 4 => {
            // no authority, hierarchical path
            for _ in 0..1 + rng.below(4) {
                s.push_str(*rng.pick(&["/", "/", "/", "//", "\\"]));
                s.push_str(*rng.pick(&SEGS));
            }
        }
        _ => {
            s.push_str(*rng.pick(&["//", "//", "//", "\\\\", "/\\", "///"]));
            s.push_str(*rng.pick(&AUTH));
            s.push_str(*rng.pick(&PORTS));
            for _ in 0..rng.below(5) {
                s.push_str(*rng.pick(&["/", "/", "/", "//", "\\"]));
                s.push_str(*rng.pick(&SEGS));
            }
        }
    }
    s.push_str(*rng.pick(&QUERIES));
    s.push_str(*rng.pick(&FRAGS));
    if rng.chance(1, 12) {
        s.push_str(*rng.pick(&[" ", "\t", " \n", "\u{1f}"]));
    }
    s
}

fn relative(rng: &mut Rng) -> String {
    let mut s = String::new();
    match rng.below(6) {
        0 => {}
        1 => s.push('/'),
        2 => s.push_str("//"),
        3 => s.push_str("../"),
        4 => s.push_str("./"),
        _ => s.push('\\'),
    }
    for _ in 0..rng.below(4) {
        s.push_str(*rng.pick(&SEGS));
        s.push_str(*rng.pick(&["/", "/", "//", ""]));
    }
    s.push_str(*rng.pick(&QUERIES));
    s.push_str(*rng.pick(&FRAGS));
    s
}

struct Px {
    drv: Driver,
    rep: Report,
    dbg: &'static str,
    search: bool,
}

impl Px {
    fn one(&mut self, stream: &str, base: Option<&Url>, input: &str) -> Option<Url> {
        self.one_o(0, stream, base, input)
    }

    fn one_o(&mut self, ovr: u32, stream: &str, base: Option<&Url>, input: &str) -> Option<Url> {
        let bt = match base {
            Some(b) => url_token(b),
            None => "~".to_string(),
        };
        let req = format!("parse {} {} {} {}", self.dbg, ovr, bt, hexs(input));
        let (imp, parsed) = impl_parse_o(ovr, base, input);
        if !self.search {
            let model = self.drv.ask_with(&req, url_oracle);
            let sig = if let Some(u) = &parsed {
                format!(
                    "ok{}:{}:{}{}{}",
                    if ovr == 0 { "" } else { "+ovr" },
                    if u.cannot_be_a_base() { "opaque" } else if u.scheme() == "file" { "file" } else if u.is_special() { "special" } else { "other" },
                    if u.has_authority() { "A" } else { "-" },
                    if u.query().is_some() { "Q" } else { "-" },
                    if u.fragment().is_some() { "F" } else { "-" }
                )
            } else {
                imp.clone()
            };
            self.rep.case(stream, &req, &model, &imp, !input.is_empty(), &sig);
        } else {
            self.rep.evaluations += 1;
            match &parsed {
                None if imp == "panic" => {
                    // pre-existing panics (F-C04-7, file drive-letter family) are panics of the model too
                    let model = self.drv.ask_with(&req, url_oracle);
                    if model != "panic" && self.rep.failures.len() < 20 {
                        self.rep.failures.push((req.clone(), format!("Url::parse panics on {:?} (the model of the unchanged code gives {})", input, model)));
                    }
                }
                Some(u) if !known_file_drive(u) => {
                    if let Some(w) = prop_c02(u) {
                        if self.rep.failures.len() < 20 {
                            self.rep.failures.push((req.clone(), format!("parse result of {:?}: {}", input, w)));
                        }
                    }
                }
                _ => {}
            }
        }
        parsed
    }
}

fn parse_request(line: &str) -> Option<(u32, Option<Url>, String)> {
    // "parse <dbg> <ovr> <base token|~> <hex input>"
    let w: Vec<&str> = line.split(' ').collect();
    if w.len() != 5 || w[0] != "parse" {
        return None;
    }
    let base = if w[3] == "~" {
        None
    } else {
        let ser = w[3].split(',').next()?;
        let bytes = verif_harness::unhexb(ser);
        Some(impl_parse(None, std::str::from_utf8(&bytes).ok()?).1?)
    };
    Some((if w[2] == "2" { 2 } else { 0 }, base, unhexs(w[4])))
}

fn parse_streams(args: &Args, search: bool) -> Report {
    let dbg = if cfg!(debug_assertions) { "1" } else { "0" };
    let mut px = Px { drv: Driver::spawn(&args.driver), rep: Report::new(), dbg, search };
    let thorough = args.tier == "thorough" || search;
    let mut rng = Rng::new(args.seed ^ 0xC02);
    // corpus: "parse ~ <hex>" / "parse <hex base> <hex>"
    let corpus = if search { String::new() } else { std::fs::read_to_string(format!("{}/C02/cases.txt", args.file)).unwrap_or_default() };
    for l in corpus.lines().filter(|l| l.starts_with("parse ")) {
        let w: Vec<&str> = l.split(' ').collect();
        if w.len() == 3 {
            let base = if w[1] == "~" { None } else { impl_parse(None, &unhexs(w[1])).1 };
            px.one("parse-corpus", base.as_ref(), &unhexs(w[2]));
        }
    }
    // after a break: the differing parse requests first
    if search {
        if let Ok(txt) = std::fs::read_to_string(&args.file) {
            for l in txt.lines() {
                if let Some((ovr, base, input)) = parse_request(l) {
                    px.one_o(ovr, "differing", base.as_ref(), &input);
                }
            }
        }
    }
    // pools
    // (a mutated parser may panic on a pool URL: then the pool is skipped, the strings are still parsed)
    let starts = std::panic::catch_unwind(start_pool).unwrap_or_default();
    for s in ["http://h", "http://u@h:81/p/q/?a=b#c", "a://host//x", "a:/x", "a:///x", "a://h:80/", "foo://", "file://h/", "a:b c ", "a:b #f", "a:/..//x", "ws://h/a/../b"] {
        px.one("parse-pool", None, s);
    }
    let mut bases: Vec<Url> = base_pool().iter().filter_map(|s| impl_parse(None, s).1).collect();
    for s in base_pool() {
        px.one("parse-pool", None, s);
    }
    for u in &starts {
        let s = u.as_str().to_string();
        px.one("parse-pool", None, &s);
    }
    bases.extend(starts.iter().cloned());
    // structured canonicalisation-directed inputs, shared random generator, joins
    let n = if thorough { 120_000 } else { 9_000 };
    for i in 0..n {
        if search && px.rep.failures.len() >= 20 {
            break;
        }
        let s = if i % 3 == 2 { random_url_string(&mut rng) } else { structured(&mut rng) };
        let s = if i % 7 == 0 { mutate_string(&mut rng, &s) } else { s };
        let parsed = px.one("parse-structured", None, &s);
        if i % 2 == 0 {
            let b = match (&parsed, rng.chance(1, 2)) {
                (Some(u), true) => u.clone(),
                _ => bases[rng.below(bases.len())].clone(),
            };
            let r = if rng.chance(2, 3) { relative(&mut rng) } else { structured(&mut rng) };
            px.one("join", Some(&b), &r);
            // the same join / a parse with an encoding override and a query the override changes (one in four)
            if i % 8 == 0 {
                let q = "?\u{e9}k='\"<> \u{100}\u{3b1}`#\u{e9}";
                let r2 = if r.contains('?') || r.contains('#') { r.clone() } else { format!("{}{}", r, q) };
                px.one_o(2, "join-override", Some(&b), &r2);
                let s2 = if s.contains('?') || s.contains('#') { s.clone() } else { format!("{}{}", s, q) };
                px.one_o(2, "parse-override", None, &s2);
            }
        }
    }
    px.rep
}

/// search mode, directed stream for Url::query_pairs_mut (Coq: C02_form_query_clean / C02_qpm_Canon).
/// form_urlencoded::Serializer writes into the URL's query WITHOUT passing through the parser's query state, so
/// the result is a fixpoint of re-parsing only while every byte the serializer leaves unescaped is also left
/// alone by the query percent-encode sets of both scheme kinds.  A change of byte_serialized_unchanged (or of a
/// query encode set) changes the regenerated model exactly as it changes the implementation, so the
/// correspondence cannot see it; here the property is evaluated on the implementation alone: for every ASCII
/// byte c, query_pairs_mut().append_pair(c, c) (and append_key_only / extend_pairs with c) on a special, a
/// non-special and a file URL, with and without an existing query and fragment.
/// Failing inputs are reported as histories ("hist <start> ;; qpm ..."), which the replay mode re-runs.
fn directed_qpm(rep: &mut Report) {
    use verif_harness::urlops::{impl_op_result, Op, QOp};
    let starts = ["http://h/", "a://h/", "file:///p", "https://u:p@h:8080/p?a=b#f", "a:/p?q", "a:o"];
    for s in starts.iter() {
        let u = match impl_parse(None, s).1 {
            Some(u) => u,
            None => continue,
        };
        for c in 0u8..128 {
            let t = (c as char).to_string();
            let sessions = [
                vec![QOp::AppendPair(t.clone(), t.clone())],
                vec![QOp::AppendKeyOnly(t.clone())],
                vec![QOp::Clear, QOp::ExtendPairs(vec![(t.clone(), "v".to_string()), ("k".to_string(), t.clone())])],
            ];
            for (i, ops) in sessions.iter().enumerate() {
                let op = Op::Qpm(i != 1, ops.clone());
                rep.evaluations += 1;
                let case = format!("hist {} ;; {}", hexs(s), op.token());
                match impl_op_result(&op, &u).1 {
                    Some(a) => {
                        if let Some(w) = prop_c02(&a) {
                            if rep.failures.len() < 20 {
                                rep.failures.push((case, format!("query_pairs_mut session with the byte {:?}: {}", c as char, w)));
                            }
                        }
                    }
                    None => {
                        if rep.failures.len() < 20 {
                            rep.failures.push((case, format!("query_pairs_mut session with the byte {:?} panics", c as char)));
                        }
                    }
                }
            }
        }
    }
    rep.exhaustive.push(format!(
        "directed query_pairs_mut: {} start URLs x 128 ASCII bytes x 3 sessions (append_pair(c,c); append_key_only(c); clear + extend_pairs), prop_c02 evaluated on the implementation",
        starts.len()
    ));
}

fn merge(mut a: Report, b: Report) -> Report {
    a.evaluations += b.evaluations;
    for (k, v) in b.streams {
        *a.streams.entry(k).or_insert(0) += v;
    }
    for (k, v) in b.histogram {
        *a.histogram.entry(k).or_insert(0) += v;
    }
    a.mismatch_count += b.mismatch_count;
    a.mismatches.extend(b.mismatches);
    a.samples.extend(b.samples);
    a.samples.truncate(24);
    a.exhaustive.extend(b.exhaustive);
    a.notes.extend(b.notes);
    a.known.extend(b.known);
    a.failures.extend(b.failures);
    a
}

/// the history streams; a panic while building the start pool (mutated parser) is reported, not fatal
fn guarded_hist(args: &Args, search: bool) -> Report {
    match std::panic::catch_unwind(std::panic::AssertUnwindSafe(|| hist::run_streams(args, search))) {
        Ok(r) => r,
        Err(_) => {
            let mut r = Report::new();
            r.notes.push("history streams aborted: Url::parse panicked on a start-pool URL".into());
            r.mismatch_count += 1;
            r.mismatches.push(("hist-start-pool".into(), "ok".into(), "panic".into()));
            r
        }
    }
}

/// the shared witnesses (hist.rs) + the two C02 classes that have no entry there yet
fn run_known(args: &Args) -> Report {
    let mut rep = hist::run_known(args);
    let r = verif_harness::guarded(|| {
        let u = Url::parse("file://x.y///c:").unwrap();
        let v = Url::parse(u.as_str()).unwrap();
        format!("{} -> {}", u, v)
    });
    rep.known.push(("F-C02-1".into(), r == "file://x.y/c: -> file:///c:", r));
    let r = verif_harness::guarded(|| {
        let mut u = Url::parse("a://h:80/").unwrap();
        let _ = u.set_host(Some(""));
        format!("{} reparse={:?}", u, Url::parse(u.as_str()).map(|v| v.to_string()))
    });
    rep.known.push(("F-C02-4".into(), r.starts_with("a://:80/ reparse=Err"), r));
    let r = verif_harness::guarded(|| {
        let ip = std::net::IpAddr::V4(std::net::Ipv4Addr::new(127, 0, 0, 1));
        let mut u = Url::parse("a://x/").unwrap();
        let in_class = known_f_c02_9(&u, &ip);
        let _ = u.set_ip_host(ip);
        let v = Url::parse(u.as_str()).unwrap();
        format!("{} host={:?} reparse={} host={:?} in_class={} prop_c02={}", u, u.host(), v, v.host(), in_class, prop_c02(&u).is_some())
    });
    rep.known.push((
        "F-C02-9".into(),
        r.starts_with("a://127.0.0.1/ host=Some(Ipv4(127.0.0.1)) reparse=a://127.0.0.1/ host=Some(Domain(\"127.0.0.1\")) in_class=true prop_c02=true"),
        r,
    ));
    // F-C07-8 seen from C02 (Known_F_C02_10): the step is in the class, the result does not re-parse
    let r = verif_harness::guarded(|| {
        let mut u = Url::parse("a://:pw@h/p").unwrap();
        let op = verif_harness::urlops::Op::Quirk("host", String::new());
        let in_class = known_f_c07_8(&u, &op);
        let res = url::quirks::set_host(&mut u, "");
        format!("{:?} {} reparse={:?} in_class={} prop_c02={}", res, u, Url::parse(u.as_str()).map(|v| v.to_string()), in_class, prop_c02(&u).is_some())
    });
    rep.known.push(("F-C07-8".into(), r == "Ok(()) a://:pw@/p reparse=Err(EmptyHost) in_class=true prop_c02=true", r));
    // ===== F-C10-1 at URL level (task c09long) - begin =====
    // Url::parse accepts a host label of 1000 ideographs (U+4E00 + 20*i); the host of the result is xn-- + 2958 bytes,
    // inside Known_C10_long, which the idna crate rejects: the serialization does not parse (C02 violated on a plain
    // parse result; coq: C09_long_model, C09_inst2_C02_refuted)
    let r = verif_harness::guarded(|| {
        let host: String = (0..1000u32).map(|i| char::from_u32(0x4E00 + 20 * i).unwrap()).collect();
        match Url::parse(&format!("http://{}/", host)) {
            Ok(u) => format!(
                "parse ok len={} host_len={} reparse={:?} prop_c02={}",
                u.as_str().len(),
                u.host_str().map(|h| h.len()).unwrap_or(0),
                Url::parse(u.as_str()).map(|v| v.as_str().len()),
                prop_c02(&u).is_some()
            ),
            Err(e) => format!("parse Err({:?})", e),
        }
    });
    rep.known.push(("F-C10-1".into(), r == "parse ok len=2970 host_len=2962 reparse=Err(IdnaError) prop_c02=true", r));
    // ===== F-C10-1 at URL level (task c09long) - end =====
    rep
}

fn run_replay(args: &Args) -> Report {
    let txt = std::fs::read_to_string(&args.file).unwrap_or_default();
    let req = txt.split("\"request\":").nth(1).and_then(|s| s.split('"').nth(1)).unwrap_or("").to_string();
    if let Some((ovr, base, input)) = parse_request(&req) {
        let mut rep = Report::new();
        rep.evaluations = 1;
        let (imp, parsed) = impl_parse_o(ovr, base.as_ref(), &input);
        rep.notes.push(format!("input: {:?} base: {:?} override: {} -> {}", input, base.as_ref().map(|b| b.as_str().to_string()), ovr, imp));
        match parsed {
            None if imp == "panic" => rep.failures.push((req.clone(), "Url::parse panics".into())),
            Some(u) => {
                if let Some(w) = prop_c02(&u) {
                    rep.failures.push((req.clone(), w));
                }
            }
            None => {}
        }
        return rep;
    }
    hist::run_replay(args)
}

/// Premise sampling (corr mode): C02's fixpoint theorems are relative to host hypotheses (HostRT: the text Display
/// writes for a host that Host::parse returned parses back to it) which the correspondence cannot observe - host
/// parsing and IDNA are answered by the real crates on both sides.  The premise is evaluated on the implementation
/// for the fixed host premise pool: every URL that parses must be a fixpoint of re-parsing.  The classes of the
/// open findings F-C10-1 (over-long Punycode label) and F-C12-1 (label decoding to xn--...) are skipped.
fn premise_reparse(rep: &mut Report) {
    let mut n = 0u64;
    for h in host_premise_pool() {
        for pre in ["http://", "ws://u:p@", "a://", "file://"] {
            let s = format!("{}{}/p?q#f", pre, h);
            if let Ok(u) = Url::parse(&s) {
                if u.host_str().map_or(false, |t| t.len() > 2000 || t.contains("xn--xn--")) {
                    continue;
                }
                n += 1;
                let v = prop_c02(&u).unwrap_or_else(|| "fixpoint".into());
                rep.case("premise-reparse", &format!("parse {}", hexs(&s)), "fixpoint", &v, true, if v == "fixpoint" { "premise:ok" } else { "premise:violated" });
            }
        }
    }
    rep.exhaustive.push(format!("premise-reparse: {} URLs over the fixed host premise pool are re-parse fixpoints on the implementation", n));
}

fn main() {
    quiet_panics();
    let args = parse_args();
    let rep = match args.mode.as_str() {
        "corr" => {
            let mut r = merge(parse_streams(&args, false), guarded_hist(&args, false));
            premise_reparse(&mut r);
            r
        }
        "search" => {
            let mut d = Report::new();
            directed_qpm(&mut d);
            let p = if d.failures.is_empty() { merge(d, parse_streams(&args, true)) } else { d };
            if p.failures.is_empty() {
                merge(p, guarded_hist(&args, true))
            } else {
                p
            }
        }
        "known" => run_known(&args),
        "replay" => run_replay(&args),
        m => panic!("unknown mode {}", m),
    };
    verif_harness::finish(&args, &rep);
}
