//! C17 - data: URL processing = URL parsing + Fetch data: URL processor.
//! Correspondence model <-> data_url crate, validation of the specification side, fixed-seed differential
//! crate <-> (URL parser model + Spec/Fetch.v), property search, known findings, replay.
//!
//! Requests (strings: dot-separated hex of the code points, "-" = empty, "~" = absent):
//!   process <input>          DataUrl::process + mime_type() + decode_to_vec() + to_percent_encoded()
//!                            -> "notdata" | "nocomma" | "ok T ST P <b64> <body | err:details> F" | "PANIC.."
//!   fetch <dbg> <input>      (driver only) URL parser model + Fetch processor -> "notdata" | "fail" | "ok T ST P SER body F"
//!   fetchser <ser> <frag>    (driver only) Fetch processor on a given serialization without fragment
//!   known17 <input>          Known_C17 -> 0 | 1 | 2
//!   mimesniff <s>            (driver only) MIME Sniffing "parse a MIME type" -> "~" | "ok T ST P SER"
use data_url::forgiving_base64::InvalidBase64;
use data_url::mime::Mime;
use data_url::DataUrl;
use url::{Position, Url};
use verif_harness::urlrec::url_oracle;
use verif_harness::*;

// ---------------------------------------------------------------- implementation side
fn show_params(ps: &[(String, String)]) -> String {
    if ps.is_empty() {
        "_".to_string()
    } else {
        ps.iter().map(|(n, v)| format!("{}={}", hexs(n), hexs(v))).collect::<Vec<_>>().join(",")
    }
}

fn show_invalid(e: &InvalidBase64) -> String {
    let t = e.to_string();
    if let Some(r) = t.strip_prefix("symbol with codepoint ") {
        if let Some(n) = r.strip_suffix(" not expected") {
            if let Ok(v) = n.parse::<u32>() {
                return format!("sym:{:x}", v);
            }
        }
    }
    match t.as_str() {
        "alphabet symbol present after padding" => "after-pad".into(),
        "lone alphabet symbol present" => "lone".into(),
        "incorrect padding" => "pad".into(),
        _ => format!("?{}", t.replace(' ', "_")),
    }
}

/// `base64` is a private field of DataUrl.  It is observed through behaviour: DataUrl::process on the
/// same header followed by the body "A" decodes to the byte 'A' without the flag, and fails (one lone
/// alphabet symbol) with it.  The header seen by parse_header is the same in both calls (the text up to
/// the first ',' before any '#').
fn base64_flag(input: &str) -> Option<bool> {
    // the text DataUrl::process splits at: first ',' before any '#'
    let cut = input.bytes().position(|b| b == b',' || b == b'#')?;
    if input.as_bytes()[cut] != b',' {
        return None;
    }
    let probe = format!("{}A", &input[..=cut]);
    let du = DataUrl::process(&probe).ok()?;
    Some(match du.decode_to_vec() {
        Ok((body, _)) => body != b"A",
        Err(_) => true,
    })
}

fn impl_process(input: &str) -> String {
    let input = input.to_string();
    guarded(move || match DataUrl::process(&input) {
        Err(data_url::DataUrlError::NotADataUrl) => "notdata".to_string(),
        Err(data_url::DataUrlError::NoComma) => "nocomma".to_string(),
        Ok(du) => {
            let m = du.mime_type();
            let b64 = match base64_flag(&input) {
                Some(true) => "1",
                Some(false) => "0",
                None => "?",
            };
            let (body, frag) = match du.decode_to_vec() {
                Ok((body, frag)) => (hexb(&body), opt(&frag, |f| hexs(&f.to_percent_encoded()))),
                Err(e) => (format!("err:{}", show_invalid(&e)), "~".to_string()),
            };
            format!("ok {} {} {} {} {} {}", hexs(&m.type_), hexs(&m.subtype), show_params(&m.parameters), b64, body, frag)
        }
    })
}

/// the crate's answer in the vocabulary of the property: failure = process() or decode_to_vec() is Err
fn impl_view(input: &str) -> String {
    let input = input.to_string();
    guarded(move || match DataUrl::process(&input) {
        Err(data_url::DataUrlError::NotADataUrl) => "notdata".to_string(),
        Err(data_url::DataUrlError::NoComma) => "fail".to_string(),
        Ok(du) => match du.decode_to_vec() {
            Err(_) => "fail".to_string(),
            Ok((body, frag)) => {
                let m = du.mime_type();
                format!(
                    "ok {} {} {} {} {} {}",
                    hexs(&m.type_),
                    hexs(&m.subtype),
                    show_params(&m.parameters),
                    hexs(&m.to_string()),
                    hexb(&body),
                    opt(&frag, |f| hexs(&f.to_percent_encoded()))
                )
            }
        },
    })
}

/// Some(url) when the real URL parser accepts the string with scheme "data"
fn parse_data(input: &str) -> Option<Url> {
    let s = input.to_string();
    match std::panic::catch_unwind(move || Url::parse(&s)) {
        Ok(Ok(u)) if u.scheme() == "data" => Some(u),
        _ => None,
    }
}

// ---------------------------------------------------------------- Known_C17 (Rust twin of Model/KnownC17.v)
fn cleaned(input: &str) -> Vec<char> {
    input.trim_matches(|c: char| c <= ' ').chars().filter(|c| !matches!(c, '\t' | '\n' | '\r')).collect()
}

/// 0 = not known, 1 = K1 (text after "data:" begins with '/'), 2 = K2 (a '?' in the header followed by a
/// space that ends the header, or that separates ';' from a trailing base64), 3 = K3 (a tab / newline
/// inside a percent escape of the body)
fn known_c17(input: &str) -> u32 {
    match known_k12(input) {
        0 if known_k3(input) => 3,
        k => k,
    }
}
fn known_k12(input: &str) -> u32 {
    let t = cleaned(input);
    let rest: &[char] = if t.len() >= 5 { &t[5..] } else { &[] };
    match rest.first() {
        None => return 0,
        Some('/') => return 1,
        _ => {}
    }
    let end = rest.iter().position(|&c| c == ',' || c == '#').unwrap_or(rest.len());
    let header = &rest[..end];
    let q = match header.iter().position(|&c| c == '?') {
        None => return 0,
        Some(p) => &header[p + 1..],
    };
    if q.is_empty() {
        return 0;
    }
    if *q.last().unwrap() == ' ' {
        return 2;
    }
    // ';' space+ "base64" at the end of q
    let n = q.len();
    if n >= 6 && q[n - 6..].iter().collect::<String>().eq_ignore_ascii_case("base64") {
        let before = &q[..n - 6];
        if before.last() == Some(&' ') {
            let k = before.iter().rposition(|&c| c != ' ');
            if let Some(k) = k {
                if before[k] == ';' {
                    return 2;
                }
            }
        }
    }
    0
}

/// K3: in the raw body (after the first ',' before any '#', up to the first '#') a '%' followed by two
/// hex digits with a tab / newline directly after the '%' or between the digits
fn known_k3(input: &str) -> bool {
    let t: Vec<char> = input.trim_matches(|c: char| c <= ' ').chars().collect();
    let tnl = |c: char| matches!(c, '\t' | '\n' | '\r');
    // skip the five code points of "data:" and the tabs / newlines before them
    let mut i = 0;
    let mut n = 0;
    while i < t.len() && n < 5 {
        if !tnl(t[i]) {
            n += 1;
        }
        i += 1;
    }
    let rest = &t[i..];
    let comma = match rest.iter().position(|&c| c == ',' || c == '#') {
        Some(p) if rest[p] == ',' => p,
        _ => return false,
    };
    let body = &rest[comma + 1..];
    let body = &body[..body.iter().position(|&c| c == '#').unwrap_or(body.len())];
    let next = |from: usize| -> Option<(char, bool, usize)> {
        let mut j = from;
        let mut skipped = false;
        while j < body.len() {
            if tnl(body[j]) {
                skipped = true;
                j += 1;
            } else {
                return Some((body[j], skipped, j + 1));
            }
        }
        None
    };
    for (p, &c) in body.iter().enumerate() {
        if c == '%' {
            if let Some((h, s1, j)) = next(p + 1) {
                if let Some((l, s2, _)) = next(j) {
                    if h.is_ascii_hexdigit() && l.is_ascii_hexdigit() && (s1 || s2) {
                        return true;
                    }
                }
            }
        }
    }
    false
}

// ---------------------------------------------------------------- comparing
fn features(input: &str) -> String {
    let t = cleaned(input);
    let rest: String = if t.len() >= 5 { t[5..].iter().collect() } else { String::new() };
    let header: String = rest.chars().take_while(|&c| c != ',' && c != '#').collect();
    let mut f = String::new();
    if rest.starts_with('/') { f.push('/'); }
    if header.contains('?') { f.push('?'); }
    if header.contains('"') { f.push('q'); }
    if header.to_ascii_lowercase().contains("base64") { f.push('b'); }
    if rest.contains('%') { f.push('%'); }
    if !input.is_ascii() { f.push('u'); }
    if input.contains(|c| matches!(c, '\t' | '\n' | '\r')) { f.push('t'); }
    if input.trim_matches(|c: char| c <= ' ') != input { f.push('w'); }
    f
}

fn sig_process(out: &str, input: &str) -> (bool, String) {
    let o: Vec<&str> = out.split(' ').collect();
    if o[0] == "ok" && o.len() == 7 {
        let np = if o[3] == "_" { 0 } else { o[3].split(',').count().min(3) };
        let body = if o[5].starts_with("err:sym") { "err:sym" } else if o[5].starts_with("err") { o[5] } else if o[5] == "-" { "empty" } else { "bytes" };
        let fallback = o[3] == "63.68.61.72.73.65.74=55.53.2d.41.53.43.49.49";
        (true, format!("ok:p{}{}:b{}:{}:{}:{}", np, if fallback { "f" } else { "" }, o[4], body, if o[6] == "~" { "nofrag" } else { "frag" }, features(input)))
    } else {
        (false, format!("{}:{}", out.split(':').next().unwrap_or(out), features(input)))
    }
}

struct Ctx {
    drv: Driver,
    rep: Report,
    dbg: &'static str,
}

impl Ctx {
    /// (a) model process <-> crate
    fn compare(&mut self, stream: &str, input: &str) {
        let req = format!("process {}", hexs(input));
        let model = self.drv.ask(&req);
        let imp = impl_process(input);
        let (nt, sig) = sig_process(&imp, input);
        self.rep.case(stream, &req, &model, &imp, nt, &sig);
    }

    /// (c) crate <-> URL parser model + Fetch processor, outside Known_C17; the two versions of the
    /// predicate are compared on every case
    fn differential(&mut self, stream: &str, input: &str) {
        let kreq = format!("known17 {}", hexs(input));
        let accepted = parse_data(input).is_some();
        let freq = format!("fetch {} {}", self.dbg, hexs(input));
        let spec = self.drv.ask_with(&freq, url_oracle);
        let human = format!("{}   [input {:?}]", freq, input);
        if !accepted {
            // outside the quantifier of C17; the URL parser model must agree that this is not a data: URL
            if spec != "notdata" {
                self.rep.case(stream, &human, &spec, "notdata", true, "diff:parser-model-accepts");
            } else {
                self.rep.evaluations += 1;
                self.rep.bump("diff:not-a-data-url");
            }
            return;
        }
        let km = self.drv.ask(&kreq);
        let ki = format!("{:x}", known_c17(input));
        if km != ki {
            self.rep.case("known-predicate", &kreq, &km, &ki, true, "known17");
        }
        let imp = impl_view(input);
        if spec == imp {
            let s = if spec == "fail" { "diff:fail" } else if ki != "0" { "diff:ok-in-known" } else { "diff:ok" };
            self.rep.case(stream, &human, &spec, &imp, true, &format!("{}:{}", s, features(input)));
        } else if ki != "0" {
            self.rep.evaluations += 1;
            self.rep.bump(&format!("known-divergence:K{}", ki));
        } else {
            self.rep.case(stream, &human, &spec, &imp, true, "diff:DIVERGES");
        }
    }
}

// ---------------------------------------------------------------- generators
/// the class alphabet of the exhaustive stream (after the prefix "data:")
const ATOMS: [&str; 14] = [",", ";", "=", "%", "2", "C", "#", "?", " ", "\t", ";base64", "\"", "/", "\u{e9}"];

fn exhaustive<F: FnMut(String)>(max_len: usize, mut f: F) -> String {
    for_all_strings(&ATOMS, max_len, |s| {
        let mut st = String::from("data:");
        for a in s {
            st.push_str(a);
        }
        f(st);
    });
    format!("\"data:\" followed by every sequence of at most {} atoms from {{ , ; = % 2 C # ? space TAB \";base64\" \" / U+00E9 }}", max_len)
}

fn pick_s(rng: &mut Rng, xs: &[&'static str]) -> &'static str {
    xs[rng.below(xs.len())]
}

const SCHEMES: [&str; 8] = ["data:", "data:", "data:", "DATA:", "dAtA:", "d\tata:", "da\nta\r:", "Data:"];
const JUNK: [&str; 8] = ["", "", "", " ", "\u{0}", "\u{1f} ", "\t\n", " \u{c}"];
const HEAD_ATOMS: [&str; 60] = [
    "text/plain", "text/html", "x/y", "IMAGE/gif", "a/b", "text", "/", "x", "",
    ";charset=x", ";charset=UTF-8", ";CHARSET=\"X\"", ";a=b", ";A=1;a=2", ";a=\"b\"", ";a=\"b;c\"", ";a=\"b\\\"c\"", ";a=\"b", ";a=\"b\"x", ";=", ";x", ";;",
    ";base64", ";base64", "; base64", ";  base64", ";BASE64", ";bAsE64", ";base64 ", ";base64;", ";base64x", "base64", " base64", ";base 64", ";%62ase64", "%3Bbase64", ";ba\tse64", ";\nbase64",
    " ", "  ", "%20", "%3B", "%2C", "%23", "%", "%C3%A9", "\u{e9}", "\u{2020}", "\u{c}", "\u{1}", "\u{7f}",
    "?", "?q", "? ", "?;", "<", ">", "\"", "\\", "`",
];
const PATHY: [&str; 10] = ["/", "//", "//h", "//h:80", "/..", "/.", "/a/../", "//u@h/", "/%2e", "//[::1]"];
const BODY_ATOMS: [&str; 40] = [
    "X", "Hello", "%41", "%4", "%", "%zz", "%%41", "%2C", "%23", "%3B", "%20", "%0A", "%C3%A9", "%c3", "\u{e9}", "\u{2020}", "\u{1f4a9}",
    "WA", "WA==", "W A", "WA=", "W%20A", "W%0CA", "YWJj", "=", "!", "+", "/",
    " ", "\t", "\n", ",", ";", "?", "?x", "<", ">", "\"", "`", "\u{7f}",
];
const FRAG_ATOMS: [&str; 18] = ["x", " ", "\"", "<", ">", "`", "\u{e9}", "%41", "%", "#", "\t", "\n", ",", "?", "\u{0}", "\u{7f}", "{", "\u{1f4a9}"];

fn gen_structured(rng: &mut Rng) -> String {
    let mut s = String::new();
    s.push_str(pick_s(rng, &JUNK));
    s.push_str(pick_s(rng, &SCHEMES));
    if rng.chance(1, 12) {
        s.push_str(pick_s(rng, &PATHY));
    }
    let k = rng.below(5);
    for _ in 0..k {
        s.push_str(pick_s(rng, &HEAD_ATOMS));
    }
    if rng.chance(9, 10) {
        s.push(',');
        let k = rng.below(5);
        for _ in 0..k {
            s.push_str(pick_s(rng, &BODY_ATOMS));
        }
    }
    if rng.chance(1, 3) {
        s.push('#');
        let k = rng.below(4);
        for _ in 0..k {
            s.push_str(pick_s(rng, &FRAG_ATOMS));
        }
    }
    s.push_str(pick_s(rng, &JUNK));
    if rng.chance(1, 6) {
        // tabs / newlines anywhere
        let mut v: Vec<char> = s.chars().collect();
        let n = 1 + rng.below(3);
        for _ in 0..n {
            let p = rng.below(v.len() + 1);
            v.insert(p, *rng.pick(&['\t', '\n', '\r']));
        }
        s = v.into_iter().collect();
    }
    s
}

fn mutate(rng: &mut Rng, s: &str) -> String {
    let mut v: Vec<char> = s.chars().collect();
    let k = 1 + rng.below(3);
    let ins: [char; 24] = [',', ';', '=', '%', '#', '?', ' ', '\t', '\n', '\r', '"', '\\', '/', ':', '4', '6', 'b', 'B', 'e', '\u{e9}', '\u{0}', '\u{7f}', '\u{c}', '<'];
    for _ in 0..k {
        let pos = rng.below(v.len() + 1);
        match rng.below(4) {
            0 if !v.is_empty() => {
                v.remove(pos.min(v.len() - 1));
            }
            1 if !v.is_empty() => {
                let p = pos.min(v.len() - 1);
                let c = v[p];
                v.insert(p, c);
            }
            2 if v.len() >= 2 => {
                let p = pos.min(v.len() - 2);
                v.swap(p, p + 1);
            }
            _ => v.insert(pos, *rng.pick(&ins)),
        }
    }
    v.into_iter().collect()
}

fn gen_garbage(rng: &mut Rng) -> String {
    let n = rng.below(14);
    let mut s = String::from(if rng.chance(3, 4) { "data:" } else { "" });
    for _ in 0..n {
        let c = match rng.below(6) {
            0 => char::from_u32(rng.below(0x80) as u32).unwrap(),
            1 => char::from_u32(0x80 + rng.below(0x180) as u32).unwrap(),
            2 => *rng.pick(&['\u{7ff}', '\u{800}', '\u{d7ff}', '\u{e000}', '\u{ffff}', '\u{10000}', '\u{10ffff}']),
            _ => *rng.pick(&[',', ';', '=', '%', '#', '?', ' ', '"', '/', ':', 'a', 'd', 't', '4', '6']),
        };
        s.push(c);
    }
    s
}

fn repo_dir() -> String {
    std::env::var("VERIF_REPO").unwrap_or_else(|_| "/repo".to_string())
}

fn wpt_data_urls() -> Vec<(String, Option<String>, Option<Vec<u8>>)> {
    let p = format!("{}/data-url/tests/data-urls.json", repo_dir());
    let mut out = vec![];
    if let Ok(txt) = std::fs::read_to_string(&p) {
        if let Ok(serde_json::Value::Array(items)) = serde_json::from_str::<serde_json::Value>(&txt) {
            for it in items {
                if let Some(a) = it.as_array() {
                    let input = a.first().and_then(|v| v.as_str()).unwrap_or("").to_string();
                    let mime = a.get(1).and_then(|v| v.as_str()).map(|s| s.to_string());
                    let body = a.get(2).and_then(|v| v.as_array()).map(|b| b.iter().map(|x| x.as_u64().unwrap_or(0) as u8).collect());
                    out.push((input, mime, body));
                }
            }
        }
    }
    out
}

fn wpt_mime_types() -> Vec<(String, Option<String>)> {
    let mut out = vec![];
    for f in ["mime-types.json", "generated-mime-types.json"] {
        let p = format!("{}/data-url/tests/{}", repo_dir(), f);
        if let Ok(txt) = std::fs::read_to_string(&p) {
            if let Ok(serde_json::Value::Array(items)) = serde_json::from_str::<serde_json::Value>(&txt) {
                for it in items {
                    if let Some(i) = it.get("input").and_then(|v| v.as_str()) {
                        out.push((i.to_string(), it.get("output").and_then(|v| v.as_str()).map(|s| s.to_string())));
                    }
                }
            }
        }
    }
    out
}

/// (b) the specification side against the vendored WPT data, no exception list
fn validate_spec(cx: &mut Ctx) {
    let vectors = wpt_data_urls();
    if vectors.is_empty() {
        cx.rep.notes.push("data-url/tests/data-urls.json not found: the specification side is NOT validated".into());
    }
    for (input, mime, body) in &vectors {
        let req = format!("fetch {} {}", cx.dbg, hexs(input));
        let got = cx.drv.ask_with(&req, url_oracle);
        let g: Vec<&str> = got.split(' ').collect();
        // reduce the answer to what the vector states
        let (shown, want) = match mime {
            None => (if g[0] == "ok" { got.clone() } else { "failure".to_string() }, "failure".to_string()),
            Some(m) => {
                let m = if m.is_empty() { "text/plain;charset=US-ASCII" } else { m.as_str() };
                if g[0] == "ok" && g.len() == 7 {
                    match body {
                        Some(b) => (format!("{} {}", unhexs(g[4]), g[5]), format!("{} {}", m, hexb(b))),
                        None => (unhexs(g[4]), m.to_string()),
                    }
                } else {
                    (got.clone(), m.to_string())
                }
            }
        };
        cx.rep.case("spec-wpt-data-urls", &format!("{}   [input {:?}]", req, input), &shown, &want, true, if mime.is_some() { "spec:ok" } else { "spec:failure" });
    }
    let mimes = wpt_mime_types();
    if mimes.is_empty() {
        cx.rep.notes.push("data-url/tests/mime-types.json not found: Spec/MimeSniff.v is NOT validated".into());
    }
    for (input, output) in &mimes {
        let req = format!("mimesniff {}", hexs(input));
        let got = cx.drv.ask(&req);
        let g: Vec<&str> = got.split(' ').collect();
        let shown = if g[0] == "ok" && g.len() == 5 { unhexs(g[4]) } else { got.clone() };
        let want = output.clone().unwrap_or_else(|| "~".to_string());
        cx.rep.case("spec-wpt-mime-types", &format!("{}   [input {:?}]", req, input), &shown, &want, true, if output.is_some() { "mimesniff:ok" } else { "mimesniff:failure" });
    }
}

/// C17_mime_statement as a test: on printable ASCII (all a data: URL header can hand to the MIME parser)
/// the crate's Mime::from_str against Spec/MimeSniff.v; FIXED inputs in both tiers
fn mime_differential(cx: &mut Ctx, thorough: bool) {
    const CLASSES: [char; 9] = ['a', 'A', '/', ';', '=', '"', '\\', ' ', '%'];
    const PREFIXES: [&str; 4] = ["", "a/b;", "a/b;x=", "a/b;x=\""];
    let one = |cx: &mut Ctx, stream: &str, t: &str| {
        let req = format!("mimesniff {}", hexs(t));
        let spec = cx.drv.ask(&req);
        let imp = match t.parse::<Mime>() {
            Err(_) => "~".to_string(),
            Ok(m) => format!("ok {} {} {} {}", hexs(&m.type_), hexs(&m.subtype), show_params(&m.parameters), hexs(&m.to_string())),
        };
        cx.rep.case(stream, &format!("{}   [input {:?}]", req, t), &spec, &imp, imp != "~", if imp == "~" { "mime:failure" } else { "mime:ok" });
    };
    let k = if thorough { 6 } else { 4 };
    for pre in PREFIXES {
        for_all_strings(&CLASSES, k, |s| {
            let t: String = pre.chars().chain(s.iter().copied()).collect();
            one(cx, "mime-differential-exh", &t);
        });
    }
    let mut rng = Rng::new(0xC19);
    let n = if thorough { 200_000 } else { 20_000 };
    for _ in 0..n {
        let mut t = String::new();
        let k = 1 + rng.below(5);
        for _ in 0..k {
            t.push_str(pick_s(&mut rng, &HEAD_ATOMS));
        }
        let t: String = t.chars().filter(|c| (' '..='~').contains(c)).collect();
        one(cx, "mime-differential-rnd", &t);
    }
}

/// the byte classes of parse_header / to_percent_encoded as observable behaviour
fn table_inputs() -> Vec<String> {
    let mut v = vec![];
    for c in 0u32..0x120 {
        let ch = char::from_u32(c).unwrap();
        v.push(format!("data:a/b;x=\"{}\"z,#{}z", ch, ch));
        v.push(format!("data:a/b?;x=\"{}\"z,{}z", ch, ch));
    }
    v
}

/// inputs run first in every mode: witnesses of the known findings, shapes that distinguish realistic
/// mutations of the code (tools/mutants/C17)
const SEEDS: [&str; 30] = [
    "data:,",
    "data:,X#,",
    "data:text/plain#,X",
    "data:x/y;base64,WA",
    "data:x/ybase64,WA",
    "data:x/y; base64,WA",
    "data:x/y;base64 ,WA==",
    "data:x/y ;charset=x ,X",
    " data:x/y,X ",
    "data: x/y ,X",
    "DATA:x/y,X",
    "dAtA:,%41%4%zz%",
    "d\tat\na:,\tX",
    "data:;charset=x,X",
    "data:x,X",
    "data:\u{e9}/\u{e9},\u{e9}#\u{e9}",
    "data:?x/y,\"<> `#\"<> `",
    "data:x/y?a b\"<>,X",
    "data:x/y;a=\"b;c\";d=e,X",
    "data:x/y;a=\"b\\\"c\",X",
    "data:/,\u{e9}%2Ca=2/..#",
    "DATA://,:#",
    "data:charset=x?/; base64,a=2",
    "DATA:;base64a=2:\"? ,x",
    "data:x/y;BASE64,W A",
    "data:x/y;base64,W",
    "data:%3Bbase64,WA",
    "data:x/y,%2",
    "data:,%2\t0",
    "data:,%\n41%4\r1",
];

fn corpus_inputs(dir: &str) -> Vec<String> {
    let mut v = vec![];
    if let Ok(txt) = std::fs::read_to_string(format!("{}/C17/cases.txt", dir)) {
        for l in txt.lines().filter(|l| !l.is_empty() && !l.starts_with('#')) {
            v.push(unhexs(l.trim()));
        }
    }
    v
}

fn new_ctx(args: &Args) -> Ctx {
    Ctx { drv: Driver::spawn(&args.driver), rep: Report::new(), dbg: if cfg!(debug_assertions) { "1" } else { "0" } }
}

fn run_corr(args: &Args) -> Report {
    let mut cx = new_ctx(args);
    let thorough = args.tier == "thorough";
    let mut rng = Rng::new(args.seed);

    // ---- (a) model <-> crate, seeded by VERIF_SEED
    for s in table_inputs() {
        cx.compare("tables", &s);
    }
    let mut corpus: Vec<String> = SEEDS.iter().map(|s| s.to_string()).collect();
    corpus.extend(corpus_inputs(&args.file));
    for s in &corpus {
        cx.compare("corpus", s);
    }
    let wpt = wpt_data_urls();
    for (s, _, _) in &wpt {
        cx.compare("wpt", s);
    }
    let scope = exhaustive(if thorough { 5 } else { 4 }, |s| cx.compare("exh-atoms", &s));
    cx.rep.exhaustive.push(scope);
    let n = if thorough { 600_000 } else { 40_000 };
    for i in 0..n {
        let s = gen_structured(&mut rng);
        cx.compare("rnd-structured", &s);
        if i % 2 == 0 {
            let t = mutate(&mut rng, &s);
            cx.compare("rnd-mutated", &t);
        }
        if i % 4 == 0 {
            if !wpt.is_empty() {
                let k = rng.below(wpt.len());
                let t = mutate(&mut rng, &wpt[k].0);
                cx.compare("rnd-wpt-mutated", &t);
            }
            let g = gen_garbage(&mut rng);
            cx.compare("rnd-garbage", &g);
        }
    }

    // ---- (b) the specification side
    validate_spec(&mut cx);
    mime_differential(&mut cx, thorough);

    // ---- (c) crate <-> URL parser model + Fetch processor: FIXED seed in both tiers
    run_differential(&mut cx, thorough, &corpus, &wpt);
    cx.rep
}

fn run_differential(cx: &mut Ctx, thorough: bool, corpus: &[String], wpt: &[(String, Option<String>, Option<Vec<u8>>)]) {
    for s in corpus {
        cx.differential("diff-corpus", s);
    }
    for (s, _, _) in wpt {
        cx.differential("diff-wpt", s);
    }
    exhaustive(if thorough { 5 } else { 4 }, |s| cx.differential("diff-exh-atoms", &s));
    let mut rng = Rng::new(0xC17);
    let n = if thorough { 400_000 } else { 30_000 };
    for i in 0..n {
        let s = gen_structured(&mut rng);
        cx.differential("diff-structured", &s);
        if i % 2 == 0 {
            let t = mutate(&mut rng, &s);
            cx.differential("diff-mutated", &t);
        }
        if i % 4 == 0 && !wpt.is_empty() {
            let k = rng.below(wpt.len());
            let t = mutate(&mut rng, &wpt[k].0);
            cx.differential("diff-wpt-mutated", &t);
        }
    }
}

// ---------------------------------------------------------------- property evaluated on the implementation
/// C17 on one input: the real Url::parse, then Spec/Fetch.v (extracted) on its serialization without
/// fragment, against DataUrl::process + decode.  None = holds (or outside the quantifier / inside Known_C17)
fn property(drv: &mut Driver, input: &str) -> Option<String> {
    let u = parse_data(input)?;
    let imp = impl_view(input);
    if imp == "PANIC" {
        return Some(format!("DataUrl::process / decode_to_vec panics on {:?}", input));
    }
    if known_c17(input) != 0 {
        return None;
    }
    let ser = &u[..Position::AfterQuery];
    let frag = u.fragment();
    let req = format!("fetchser {} {}", hexs(ser), frag.map(hexs).unwrap_or_else(|| "~".into()));
    let spec = drv.ask(&req);
    if spec != imp {
        return Some(format!(
            "{:?}: the URL is {:?}; the Fetch data: URL processor gives <{}>, DataUrl::process + decode_to_vec gives <{}>",
            input,
            u.as_str(),
            human(&spec),
            human(&imp)
        ));
    }
    None
}

fn human(ans: &str) -> String {
    let g: Vec<&str> = ans.split(' ').collect();
    if g[0] == "ok" && g.len() == 7 {
        format!("{} body {:?} fragment {}", unhexs(g[4]), unhexb(g[5]), if g[6] == "~" { "none".to_string() } else { format!("{:?}", unhexs(g[6])) })
    } else {
        ans.to_string()
    }
}

fn input_of_request(req: &str) -> Option<String> {
    let w: Vec<&str> = req.split(' ').collect();
    match (w.first().copied(), w.len()) {
        (Some("process"), n) if n >= 2 => Some(unhexs(w[1])),
        (Some("known17"), n) if n >= 2 => Some(unhexs(w[1])),
        (Some("fetch"), n) if n >= 3 => Some(unhexs(w[2])),
        (Some("c17"), n) if n >= 2 => Some(unhexs(w[1])),
        _ => None,
    }
}

fn run_search(args: &Args) -> Report {
    let mut rep = Report::new();
    let mut drv = Driver::spawn(&args.driver);
    let mut rng = Rng::new(args.seed ^ 0x5EA4C17);
    let mut try_input = |rep: &mut Report, s: &str| {
        rep.evaluations += 1;
        if rep.failures.len() < 20 {
            if let Some(w) = property(&mut drv, s) {
                rep.failures.push((format!("c17 {}", hexs(s)), w));
            }
        }
    };
    // the differing cases and their neighbours
    if let Ok(txt) = std::fs::read_to_string(&args.file) {
        for l in txt.lines().filter(|l| !l.is_empty()) {
            if let Some(s) = input_of_request(l) {
                try_input(&mut rep, &s);
                for _ in 0..20 {
                    let t = mutate(&mut rng, &s);
                    try_input(&mut rep, &t);
                }
            }
        }
    }
    for s in SEEDS {
        try_input(&mut rep, s);
    }
    for s in table_inputs() {
        try_input(&mut rep, &s);
    }
    let wpt = wpt_data_urls();
    for (s, _, _) in &wpt {
        try_input(&mut rep, s);
    }
    exhaustive(4, |s| try_input(&mut rep, &s));
    for _ in 0..150_000 {
        if rep.failures.len() >= 20 {
            break;
        }
        let s = gen_structured(&mut rng);
        try_input(&mut rep, &s);
        let t = mutate(&mut rng, &s);
        try_input(&mut rep, &t);
        if !wpt.is_empty() {
            let k = rng.below(wpt.len());
            let t = mutate(&mut rng, &wpt[k].0);
            try_input(&mut rep, &t);
        }
    }
    rep.failures.sort_by_key(|(c, _)| c.len());
    rep
}

// ---------------------------------------------------------------- known findings
fn run_known(args: &Args) -> Report {
    let mut rep = Report::new();
    let mut drv = Driver::spawn(&args.driver);
    // (id, witness): reproduces when the crate's answer differs from URL parser + Fetch processor
    let table: [(&str, &str); 4] = [
        ("F-C17-1", "data:/,\u{e9}%2Ca=2/..#"),
        ("F-C17-2", "data:charset=x?/; base64,a=2"),
        ("F-C17-3", "DATA:;base64a=2:\"? ,x"),
        ("F-C17-4", "data:,%2\t0"),
    ];
    for (id, w) in table.iter() {
        let got = match parse_data(w) {
            None => (false, format!("{:?} is not accepted as a data: URL any more", w)),
            Some(u) => {
                let imp = impl_view(w);
                let req = format!("fetchser {} {}", hexs(&u[..Position::AfterQuery]), u.fragment().map(hexs).unwrap_or_else(|| "~".into()));
                let spec = drv.ask(&req);
                (spec != imp, format!("{:?} (URL {:?}): Fetch processor <{}>, crate <{}>", w, u.as_str(), human(&spec), human(&imp)))
            }
        };
        rep.known.push((id.to_string(), got.0, got.1));
    }
    // F-C19-2 (MIME deviation; listed under C17): can it be reached through a data: URL header?
    let keeps_ctl = "a/b;x=\"a;\u{1}\"".parse::<Mime>().map_or(false, |m| m.get_parameter("x") == Some("a;\u{1}"));
    let drops_x = "a/b;x=\"a\"\u{1}".parse::<Mime>().map_or(false, |m| m.get_parameter("x").is_none());
    rep.known.push(("F-C19-2".into(), keeps_ctl || drops_x, format!("Mime::from_str: a/b;x=\"a;<U+0001>\" keeps the control character: {}; a/b;x=\"a\"<U+0001> drops x: {}", keeps_ctl, drops_x)));
    rep
}

fn run_replay(args: &Args) -> Report {
    let mut rep = Report::new();
    let txt = std::fs::read_to_string(&args.file).unwrap_or_default();
    let req = txt.split("\"request\":").nth(1).and_then(|s| s.split('"').nth(1)).unwrap_or("").to_string();
    let input = match input_of_request(&req) {
        Some(s) => s,
        None => {
            rep.notes.push("replay file has no request (no-failing-input-found replay): nothing to re-run".into());
            return rep;
        }
    };
    rep.notes.push(format!("input: {:?}", input));
    rep.notes.push(format!("Url::parse: {}", parse_data(&input).map_or("not a data: URL".to_string(), |u| u.as_str().to_string())));
    rep.notes.push(format!("implementation: {}", human(&impl_view(&input))));
    rep.evaluations = 1;
    if !args.driver.is_empty() {
        let mut drv = Driver::spawn(&args.driver);
        rep.notes.push(format!("model of the unchanged code: {}", human(&drv.ask(&format!("view {}", hexs(&input))))));
        rep.notes.push(format!("URL parser model + Fetch processor: {}", human(&drv.ask_with(&format!("fetch 1 {}", hexs(&input)), url_oracle))));
        rep.notes.push(format!("Known_C17: {}", known_c17(&input)));
        if let Some(w) = property(&mut drv, &input) {
            rep.failures.push((req, w));
        }
    }
    rep
}

fn main() {
    quiet_panics();
    let args = parse_args();
    let rep = match args.mode.as_str() {
        "corr" => run_corr(&args),
        "search" => run_search(&args),
        "known" => run_known(&args),
        "replay" => run_replay(&args),
        m => panic!("unknown mode {}", m),
    };
    finish(&args, &rep);
}
