//! C15 - form_urlencoded (crate-level part): correspondence model <-> crate, property search, replay.
use form_urlencoded::{byte_serialize, parse, Serializer, Target};
use std::borrow::Cow;
use std::panic::{catch_unwind, AssertUnwindSafe};
use verif_harness::*;

// ---------------------------------------------------------------- panic capture / classification
fn catch<R, F: FnOnce() -> R>(f: F) -> Result<R, String> {
    match catch_unwind(AssertUnwindSafe(f)) {
        Ok(r) => Ok(r),
        Err(e) => Err(if let Some(s) = e.downcast_ref::<&str>() {
            s.to_string()
        } else if let Some(s) = e.downcast_ref::<String>() {
            s.clone()
        } else {
            "?".to_string()
        }),
    }
}
fn classify(msg: &str) -> String {
    if msg.contains("invalid length") {
        "forsuffix".into()
    } else if msg.contains("double finish") {
        "doublefinish".into()
    } else if msg.contains("Serializer finished") {
        "finished".into()
    } else if msg.contains("is_char_boundary") {
        "truncate".into()
    } else {
        format!("other:{}", msg.replace(' ', "_"))
    }
}

// ---------------------------------------------------------------- implementation side: parse, byte_serialize
fn show_cow(c: &Cow<str>) -> String {
    format!("{}:{}", if matches!(c, Cow::Borrowed(_)) { "B" } else { "O" }, hexs(c))
}
fn join_or_none(v: Vec<String>) -> String {
    if v.is_empty() { "none".into() } else { v.join("|") }
}
fn impl_parse(bs: &[u8]) -> String {
    match catch(|| {
        let cow: Vec<String> = parse(bs).map(|(n, v)| format!("{}={}", show_cow(&n), show_cow(&v))).collect();
        let owned: Vec<String> = parse(bs).into_owned().map(|(n, v)| format!("{}={}", hexs(&n), hexs(&v))).collect();
        format!("{} {}", join_or_none(cow), join_or_none(owned))
    }) {
        Ok(s) => s,
        Err(m) => format!("PANIC:{}", classify(&m)),
    }
}
fn impl_byteser(bs: &[u8]) -> String {
    match catch(|| {
        let it = byte_serialize(bs);
        let hint = it.size_hint();
        let chunks: Vec<String> = it.map(|c| hexs(c)).collect();
        let collected: String = byte_serialize(bs).collect();
        // per-byte view: every byte serialized on its own
        let per_byte: String = bs.iter().map(|b| byte_serialize(std::slice::from_ref(b)).collect::<String>()).collect();
        format!(
            "{} {} {:x} {} {}",
            if chunks.is_empty() { "-".to_string() } else { chunks.join("|") },
            hexs(&collected),
            hint.0,
            opt(&hint.1, |h| format!("{:x}", h)),
            hexs(&per_byte)
        )
    }) {
        Ok(s) => s,
        Err(m) => format!("PANIC:{}", classify(&m)),
    }
}
fn impl_bsnext(bs: &[u8]) -> String {
    match catch(|| {
        let mut it = byte_serialize(bs);
        match it.next() {
            None => "~".to_string(),
            Some(c) => {
                // the remaining slice is visible through the derived Debug impl
                let d = format!("{:?}", it);
                let inner = d.split('[').nth(1).and_then(|s| s.split(']').next()).unwrap_or("");
                let rest: Vec<u8> = inner.split(',').filter_map(|x| x.trim().parse::<u8>().ok()).collect();
                format!("{} {}", hexs(c), hexb(&rest))
            }
        }
    }) {
        Ok(s) => s,
        Err(m) => format!("PANIC:{}", classify(&m)),
    }
}
fn impl_unch() -> String {
    (0u32..256)
        .map(|b| {
            let x = [b as u8];
            let s: String = byte_serialize(&x).collect();
            if s.as_bytes() == &x[..] { '1' } else { '0' }
        })
        .collect()
}

// ---------------------------------------------------------------- implementation side: Serializer histories
#[derive(Clone, Debug)]
enum Op {
    Ap(String, String),
    Ak(String),
    Ep(Vec<(String, String)>),
    Ek(Vec<String>),
    Cl,
    Eo(u8),
    Fi,
}
fn ov_latin(s: &str) -> Cow<'_, [u8]> {
    Cow::Owned(s.chars().map(|c| (c as u32 % 256) as u8).collect())
}
fn ov_const(_s: &str) -> Cow<'_, [u8]> {
    Cow::Borrowed(&[32, 38, 255, 61, 43, 37, 97])
}
fn parse_op(tok: &str) -> Op {
    let f: Vec<&str> = tok.split(':').collect();
    match f[0] {
        "ap" => Op::Ap(unhexs(f[1]), unhexs(f[2])),
        "ak" => Op::Ak(unhexs(f[1])),
        "ep" => Op::Ep(f[1..].chunks(2).map(|c| (unhexs(c[0]), unhexs(c[1]))).collect()),
        "ek" => Op::Ek(f[1..].iter().map(|k| unhexs(k)).collect()),
        "cl" => Op::Cl,
        "eo" => Op::Eo(f[1].parse().unwrap()),
        "fi" => Op::Fi,
        _ => panic!("bad op {}", tok),
    }
}
fn show_op(op: &Op) -> String {
    match op {
        Op::Ap(n, v) => format!("ap:{}:{}", hexs(n), hexs(v)),
        Op::Ak(n) => format!("ak:{}", hexs(n)),
        Op::Ep(l) => {
            let mut s = String::from("ep");
            for (n, v) in l {
                s.push_str(&format!(":{}:{}", hexs(n), hexs(v)));
            }
            s
        }
        Op::Ek(l) => {
            let mut s = String::from("ek");
            for k in l {
                s.push_str(&format!(":{}", hexs(k)));
            }
            s
        }
        Op::Cl => "cl".into(),
        Op::Eo(i) => format!("eo:{}", i),
        Op::Fi => "fi".into(),
    }
}
fn apply<'a, T: Target>(ser: &mut Serializer<'a, T>, op: &Op) {
    match op {
        Op::Ap(n, v) => {
            ser.append_pair(n, v);
        }
        Op::Ak(n) => {
            ser.append_key_only(n);
        }
        Op::Ep(l) => {
            ser.extend_pairs(l.iter());
        }
        Op::Ek(l) => {
            ser.extend_keys_only::<_, String>(l.iter());
        }
        Op::Cl => {
            ser.clear();
        }
        Op::Eo(id) => {
            ser.encoding_override(match id {
                0 => None,
                1 => Some(&ov_latin),
                _ => Some(&ov_const),
            });
        }
        Op::Fi => unreachable!(),
    }
}

/// a Target of the shape of url's UrlQuery: a String plus a detached tail that finish() re-attaches
struct Custom {
    s: String,
    tail: String,
}
impl Target for Custom {
    fn as_mut_string(&mut self) -> &mut String {
        &mut self.s
    }
    fn finish(self) -> String {
        format!("{}#{}", self.s, self.tail)
    }
    type Finished = String;
}
const CUSTOM_TAIL: &str = "fr&=";

/// what finish() would return after ops (no Fi among them), on a fresh target
fn snapshot<T: Target, M: Fn() -> T, S: Fn(T::Finished) -> Vec<u8>>(make: &M, fin: &S, start: usize, ops: &[Op]) -> String {
    match catch(|| {
        let mut ser = Serializer::for_suffix(make(), start);
        for op in ops {
            apply(&mut ser, op);
        }
        fin(ser.finish())
    }) {
        Ok(b) => hexb(&b),
        Err(m) => format!("!snapshot-panic:{}", classify(&m)),
    }
}

fn run_hist<T: Target, M: Fn() -> T, S: Fn(T::Finished) -> Vec<u8>>(make: &M, fin: &S, start: usize, ops: &[Op]) -> String {
    let mut out: Vec<String> = vec![];
    let mut ser = match catch(|| Serializer::for_suffix(make(), start)) {
        Ok(s) => s,
        Err(m) => return format!("PANIC:{}", classify(&m)),
    };
    out.push("ok".into());
    let mut finished = false;
    for (i, op) in ops.iter().enumerate() {
        match op {
            Op::Fi => match catch(|| ser.finish()) {
                Ok(f) => {
                    finished = true;
                    out.push(format!("f:{}", hexb(&fin(f))));
                }
                Err(m) => {
                    out.push(format!("PANIC:{}", classify(&m)));
                    break;
                }
            },
            _ => match catch(|| apply(&mut ser, op)) {
                Ok(()) => {
                    if finished {
                        out.push("s:~".into());
                    } else {
                        out.push(format!("s:{}", snapshot(make, fin, start, &ops[..=i])));
                    }
                }
                Err(m) => {
                    out.push(format!("PANIC:{}", classify(&m)));
                    break;
                }
            },
        }
    }
    out.join(" ")
}

fn impl_ser(tk: &str, init: &[u8], start: usize, ops: &[Op]) -> String {
    let init = match String::from_utf8(init.to_vec()) {
        Ok(s) => s,
        Err(_) => return "!init-not-utf8".into(),
    };
    match tk {
        "0" => run_hist(&|| init.clone(), &|f: String| f.into_bytes(), start, ops),
        "1" => run_hist(
            &|| -> &'static mut String { Box::leak(Box::new(init.clone())) },
            &|f: &'static mut String| f.as_bytes().to_vec(),
            start,
            ops,
        ),
        _ => run_hist(&|| Custom { s: init.clone(), tail: CUSTOM_TAIL.into() }, &|f: String| f.into_bytes(), start, ops),
    }
}

fn impl_serpairs(pairs: &[(String, String)]) -> String {
    match catch(|| {
        let s: String = Serializer::new(String::new()).extend_pairs(pairs.iter()).finish();
        let back: Vec<String> = parse(s.as_bytes()).into_owned().map(|(n, v)| format!("{}={}", hexs(&n), hexs(&v))).collect();
        format!("f:{} {}", hexb(s.as_bytes()), join_or_none(back))
    }) {
        Ok(s) => s,
        Err(m) => format!("PANIC:{}", classify(&m)),
    }
}

fn impl_request(req: &str) -> String {
    let w: Vec<&str> = req.split(' ').collect();
    match w[0] {
        "parse" => impl_parse(&unhexb(w[1])),
        "byteser" => impl_byteser(&unhexb(w[1])),
        "bsnext" => impl_bsnext(&unhexb(w[1])),
        "unch" => impl_unch(),
        "serpairs" => {
            let pairs: Vec<(String, String)> = w[1..]
                .iter()
                .map(|p| {
                    let mut it = p.split(':');
                    (unhexs(it.next().unwrap()), unhexs(it.next().unwrap()))
                })
                .collect();
            impl_serpairs(&pairs)
        }
        "ser" => {
            let ops: Vec<Op> = w[4..].iter().map(|t| parse_op(t)).collect();
            impl_ser(w[1], &unhexb(w[2]), usize::from_str_radix(w[3], 16).unwrap(), &ops)
        }
        _ => "?".into(),
    }
}

fn signature(req: &str, out: &str) -> (bool, String) {
    let w: Vec<&str> = req.split(' ').collect();
    let o: Vec<&str> = out.split(' ').collect();
    match w[0] {
        "parse" => {
            let n = if o[0] == "none" { 0 } else { o[0].split('|').count() };
            let kinds: String = ["B:", "O:"].iter().map(|k| if o[0].contains(k) { '1' } else { '0' }).collect();
            let lossy = o[0].contains("fffd");
            let has_val = o[0].split('|').any(|p| p.split('=').nth(1).map_or(false, |v| v.len() > 3));
            (w[1] != "-", format!("parse:n{}:k{}:l{}:v{}", n.min(4), kinds, lossy as u8, has_val as u8))
        }
        "byteser" => {
            let n = if o[0] == "-" { 0 } else { o[0].split('|').count() };
            (w[1] != "-", format!("byteser:c{}:{}", n.min(5), if o.get(1) == Some(&w[1]) { "same" } else { "changed" }))
        }
        "bsnext" => (w[1] != "-", format!("bsnext:{}", if out == "~" { "none" } else { "some" })),
        "unch" => (true, "unch".into()),
        "serpairs" => (w.len() > 1, format!("serpairs:{}", (w.len() - 1).min(3))),
        "ser" => {
            let classes: Vec<String> = o
                .iter()
                .map(|x| if x.starts_with("PANIC") { x.to_string() } else { x.split(':').next().unwrap_or("").to_string() })
                .collect();
            let mut opk: Vec<&str> = w[4..].iter().map(|t| &t[..2]).collect();
            opk.sort();
            opk.dedup();
            (w.len() > 4 || o[0] != "ok", format!("ser:t{}:{}:{}", w[1], opk.join(","), classes.last().cloned().unwrap_or_default()))
        }
        other => (true, other.to_string()),
    }
}

// ---------------------------------------------------------------- batching over the pipe
struct Batch {
    items: Vec<(String, String)>,
}
impl Batch {
    fn new() -> Self {
        Batch { items: vec![] }
    }
    fn push(&mut self, drv: &mut Driver, rep: &mut Report, stream: &str, req: String) {
        self.items.push((stream.to_string(), req));
        if self.items.len() >= 48 {
            self.flush(drv, rep);
        }
    }
    fn flush(&mut self, drv: &mut Driver, rep: &mut Report) {
        if self.items.is_empty() {
            return;
        }
        let line: Vec<&str> = self.items.iter().map(|(_, r)| r.as_str()).collect();
        let ans = drv.ask(&line.join(" ;; "));
        let parts: Vec<&str> = ans.split(" ;; ").collect();
        for (i, (stream, req)) in self.items.iter().enumerate() {
            let model = if parts.len() == self.items.len() { parts[i].to_string() } else { format!("!batch:{}", ans) };
            let imp = impl_request(req);
            let (nt, sig) = signature(req, &imp);
            rep.case(stream, req, &model, &imp, nt, &sig);
        }
        self.items.clear();
    }
}

// ---------------------------------------------------------------- generators (shared by corr and search)
const PARSE_CLASSES: [u8; 10] = [b'a', b'&', b'=', b'+', b'%', b'4', b'1', 0xC3, 0xA9, b' '];
const BSER_CLASSES: [u8; 9] = [b'a', b'*', b' ', b'~', b'%', b'&', b'+', 0xC3, 0xFF];
const SMALL_POOL: [&str; 6] = ["", "a", "&", "=", "+ %", "\u{e9}"];
const STR_POOL: [&str; 20] = [
    "", "a", "b c", "&", "=", "+", "%", "\u{e9}", "%41", "*-._", "~!", "\u{1F496}", " ", "a=b&c", "k\u{0}", "\u{163}\u{100}",
    // code points that decoders like to treat specially: byte order mark (alone, leading, inner), U+FFFD, U+FFFE
    "\u{FEFF}", "\u{FEFF}x", "x\u{FEFF}", "\u{FFFD}\u{FFFE}",
];
const INIT_POOL: [&str; 10] = ["", "a", "a=b", "a=b&", "&", "\u{e9}", "x?a=b", "a=b&c", "%", "a\u{1F496}="];

fn random_bytes(rng: &mut Rng, maxlen: usize) -> Vec<u8> {
    let n = rng.below(maxlen + 1);
    (0..n)
        .map(|_| match rng.below(12) {
            0 | 1 => b'&',
            2 | 3 => b'=',
            4 => b'+',
            5 => b'%',
            6 => *rng.pick(b"0123456789abcdefABCDEF"),
            7 => 0x80 + rng.below(0x80) as u8,
            8 => *rng.pick(&[0xC3u8, 0xA9, 0xE2, 0x82, 0xAC, 0xF0, 0x9F, 0x92, 0x96, 0xED, 0xA0, 0x80]),
            9 => rng.below(0x20) as u8,
            _ => 0x20 + rng.below(0x5f) as u8,
        })
        .collect()
}
fn random_str(rng: &mut Rng) -> String {
    match rng.below(4) {
        0 | 1 => rng.pick(&STR_POOL).to_string(),
        2 => {
            let n = rng.below(5);
            (0..n).map(|_| *rng.pick(&['a', 'Z', '0', ' ', '&', '=', '+', '%', '*', '~', '\u{e9}', '\u{20ac}', '\u{1F496}', '\u{7f}', '#'])).collect()
        }
        _ => {
            let n = rng.below(4);
            (0..n)
                .map(|_| loop {
                    if let Some(c) = char::from_u32(rng.below(0x11_0000) as u32) {
                        break c;
                    }
                })
                .collect()
        }
    }
}
/// text shaped like a query string: pieces joined by '&', most with one '=', escapes and '+' inside
fn structured_query(rng: &mut Rng) -> Vec<u8> {
    let atoms: [&[u8]; 18] = [b"a", b"bc", b"+", b"%41", b"%C3%A9", b"%c3", b"%", b"%4", b"%zz", b"=", b"\xC3\xA9", b"\xC3", b"*-._", b"%2B%26%3D",
        b"%EF%BB%BF", b"\xEF\xBB\xBF", b"%EF%BB%BFv", b"%EF%BB"];
    let mut out = Vec::new();
    let pieces = rng.below(5);
    for i in 0..pieces {
        if i > 0 || rng.chance(1, 8) {
            out.push(b'&');
            if rng.chance(1, 6) {
                out.push(b'&');
            }
        }
        for _ in 0..rng.below(3) {
            { let a: &[u8] = atoms[rng.below(atoms.len())]; out.extend_from_slice(a); }
        }
        if rng.chance(4, 5) {
            out.push(b'=');
            for _ in 0..rng.below(3) {
                { let a: &[u8] = atoms[rng.below(atoms.len())]; out.extend_from_slice(a); }
            }
        }
    }
    if rng.chance(1, 8) {
        out.push(b'&');
    }
    out
}
fn random_op(rng: &mut Rng) -> Op {
    match rng.below(16) {
        0..=5 => Op::Ap(random_str(rng), random_str(rng)),
        6..=8 => Op::Ak(random_str(rng)),
        9 | 10 => Op::Ep((0..rng.below(3)).map(|_| (random_str(rng), random_str(rng))).collect()),
        11 => Op::Ek((0..rng.below(3)).map(|_| random_str(rng)).collect()),
        12 => Op::Cl,
        13 => Op::Eo(rng.below(3) as u8),
        _ => Op::Fi,
    }
}
fn ser_req(tk: usize, init: &str, start: usize, ops: &[Op]) -> String {
    let mut s = format!("ser {} {} {:x}", tk, hexb(init.as_bytes()), start);
    for op in ops {
        s.push(' ');
        s.push_str(&show_op(op));
    }
    s
}

fn for_all_requests<F: FnMut(&str, String)>(tier: &str, seed: u64, corpus_dir: &str, mut f: F) -> Vec<String> {
    let thorough = tier == "thorough";
    let mut rng = Rng::new(seed);
    let mut exhaustive = vec![];

    // (1) corpus
    if let Ok(txt) = std::fs::read_to_string(format!("{}/C15/cases.txt", corpus_dir)) {
        for l in txt.lines().filter(|l| !l.is_empty() && !l.starts_with('#')) {
            f("corpus", l.to_string());
        }
    }

    // (2) exhaustive small scopes
    f("exh-unch", "unch".to_string());
    for b in 0u32..256 {
        f("exh-byteser-1", format!("byteser {:x}", b));
        f("exh-parse-1", format!("parse {:x}", b));
        f("exh-parse-pct", format!("parse 25.{:x}.41.3d.25.34.{:x}", b, b));
    }
    let bl = if thorough { 5 } else { 4 };
    for_all_strings(&BSER_CLASSES, bl, |s| f("exh-byteser-classes", format!("byteser {}", hexb(s))));
    for_all_strings(&BSER_CLASSES, 3, |s| f("exh-bsnext-classes", format!("bsnext {}", hexb(s))));
    let pl = if thorough { 6 } else { 5 };
    for_all_strings(&PARSE_CLASSES, pl, |s| f("exh-parse-classes", format!("parse {}", hexb(s))));
    exhaustive.push(format!(
        "parse: all byte strings of length <= {} over {{a,&,=,+,%,4,1,0xC3,0xA9,space}} and all single bytes; byte_serialize: all single bytes, all strings of length <= {} over {{a,*,space,~,%,&,+,0xC3,0xFF}}; byte_serialized_unchanged: all 256 bytes",
        pl, bl
    ));

    // all pair lists of length <= 2 over the small pool: append_pair sequence, extend_pairs, serialize_pairs
    let mut pairs: Vec<(String, String)> = vec![];
    for n in SMALL_POOL.iter() {
        for v in SMALL_POOL.iter() {
            pairs.push((n.to_string(), v.to_string()));
        }
    }
    let mut lists: Vec<Vec<(String, String)>> = vec![vec![]];
    for p in &pairs {
        lists.push(vec![p.clone()]);
    }
    for p in &pairs {
        for q in &pairs {
            lists.push(vec![p.clone(), q.clone()]);
        }
    }
    for l in &lists {
        let mut ops: Vec<Op> = l.iter().map(|(n, v)| Op::Ap(n.clone(), v.clone())).collect();
        ops.push(Op::Fi);
        f("exh-ser-pairs", ser_req(0, "", 0, &ops));
        f("exh-ser-pairs", ser_req(0, "", 0, &[Op::Ep(l.clone()), Op::Fi]));
        let mut r = String::from("serpairs");
        for (n, v) in l {
            r.push_str(&format!(" {}:{}", hexs(n), hexs(v)));
        }
        f("exh-serpairs", r);
    }
    // key-only lists of length <= 2
    for a in SMALL_POOL.iter() {
        f("exh-ser-keys", ser_req(0, "", 0, &[Op::Ak(a.to_string()), Op::Fi]));
        for b in SMALL_POOL.iter() {
            f("exh-ser-keys", ser_req(0, "", 0, &[Op::Ak(a.to_string()), Op::Ak(b.to_string()), Op::Fi]));
            f("exh-ser-keys", ser_req(0, "", 0, &[Op::Ek(vec![a.to_string(), b.to_string()]), Op::Fi]));
            f("exh-ser-keys", ser_req(0, "", 0, &[Op::Ak(a.to_string()), Op::Ap(b.to_string(), a.to_string()), Op::Fi]));
        }
    }
    // for_suffix: every initial content x every start 0..=len+1 x target kind x scripts (incl. the
    // documented panics: start beyond the end, second finish, any operation after finish)
    let ab = |n: &str, v: &str| Op::Ap(n.into(), v.into());
    let scripts: Vec<Vec<Op>> = vec![
        vec![Op::Fi],
        vec![Op::Fi, Op::Fi],
        vec![ab("a", "b"), Op::Fi],
        vec![Op::Ak("k".into()), Op::Fi],
        vec![Op::Ak("".into()), ab("", ""), Op::Fi],
        vec![Op::Cl, ab("a", "b c"), Op::Fi],
        vec![ab("a", "b"), Op::Cl, Op::Fi],
        vec![ab("a", "b"), Op::Cl, Op::Ak("k".into()), Op::Fi, Op::Fi],
        vec![Op::Fi, ab("a", "b")],
        vec![Op::Fi, Op::Cl],
        vec![Op::Fi, Op::Ak("k".into())],
        vec![Op::Fi, Op::Ep(vec![])],
        vec![Op::Fi, Op::Ek(vec![])],
        vec![Op::Fi, Op::Eo(0), Op::Fi],
        vec![Op::Ep(vec![]), Op::Ek(vec![]), Op::Fi],
        vec![Op::Ep(vec![("x".into(), "&".into()), ("".into(), "".into())]), Op::Fi],
        vec![Op::Ek(vec!["x".into(), "".into(), "=".into()]), Op::Fi],
        vec![Op::Eo(1), ab("\u{e9}", "\u{163}"), Op::Fi],
        vec![Op::Eo(2), Op::Ak("x".into()), Op::Eo(0), Op::Ak("x".into()), Op::Fi],
    ];
    for init in INIT_POOL.iter() {
        for start in 0..=init.len() + 1 {
            for tk in 0..3 {
                for sc in &scripts {
                    f("exh-ser-suffix", ser_req(tk, init, start, sc));
                }
            }
        }
    }
    exhaustive.push("Serializer: all pair lists of length <= 2 with names/values in {\"\",a,&,=,\"+ %\",e-acute} (append_pair sequence, extend_pairs, serialize_pairs), all key lists of length <= 2; for_suffix: 10 initial contents x every start 0..=len+1 x 3 target kinds x 19 scripts".into());

    // (3) structured mostly-valid random
    let n = if thorough { 600_000 } else { 50_000 };
    for _ in 0..n {
        f("rnd-parse-structured", format!("parse {}", hexb(&structured_query(&mut rng))));
    }
    for _ in 0..n / 2 {
        let init = if rng.chance(1, 2) { "".to_string() } else { rng.pick(&INIT_POOL).to_string() };
        let start = if rng.chance(9, 10) { rng.below(init.len() + 1) } else { init.len() + 1 + rng.below(3) };
        let k = 1 + rng.below(6);
        let mut ops: Vec<Op> = (0..k).map(|_| random_op(&mut rng)).collect();
        if rng.chance(3, 4) {
            ops.push(Op::Fi);
        }
        f("rnd-ser", ser_req(rng.below(3), &init, start, &ops));
    }
    // (3b) serializer output re-parsed (the implementation writes, both sides parse)
    for _ in 0..n / 2 {
        let k = rng.below(4);
        let pairs: Vec<(String, String)> = (0..k).map(|_| (random_str(&mut rng), random_str(&mut rng))).collect();
        let mut ser = Serializer::new(String::new());
        if rng.chance(1, 5) {
            ser.encoding_override(Some(&ov_latin));
        }
        for (a, b) in &pairs {
            if rng.chance(1, 6) {
                ser.append_key_only(a);
            } else {
                ser.append_pair(a, b);
            }
        }
        let s = ser.finish();
        f("rnd-parse-of-ser", format!("parse {}", hexb(s.as_bytes())));
        let bs = random_bytes(&mut rng, 12);
        let e: String = byte_serialize(&bs).collect();
        f("rnd-parse-of-byteser", format!("parse {}", hexb(e.as_bytes())));
    }
    // (4) malformed random
    for _ in 0..n {
        f("rnd-parse-bytes", format!("parse {}", hexb(&random_bytes(&mut rng, 16))));
    }
    for _ in 0..n / 2 {
        f("rnd-byteser", format!("byteser {}", hexb(&random_bytes(&mut rng, 20))));
    }
    exhaustive
}

fn run_corr(args: &Args) -> Report {
    let mut rep = Report::new();
    let mut drv = Driver::spawn(&args.driver);
    let mut batch = Batch::new();
    let ex = for_all_requests(&args.tier, args.seed, &args.file, |stream, req| batch.push(&mut drv, &mut rep, stream, req));
    batch.flush(&mut drv, &mut rep);
    rep.exhaustive = ex;
    rep
}

// ---------------------------------------------------------------- the property on the implementation
// Independent reference algorithms (no form_urlencoded, no percent_encoding).
fn ref_percent_decode(bs: &[u8]) -> Vec<u8> {
    let hv = |c: u8| (c as char).to_digit(16);
    let mut o = Vec::new();
    let mut i = 0;
    while i < bs.len() {
        if bs[i] == b'%' && i + 2 < bs.len() {
            if let (Some(h), Some(l)) = (hv(bs[i + 1]), hv(bs[i + 2])) {
                o.push((h * 16 + l) as u8);
                i += 3;
                continue;
            }
        }
        o.push(bs[i]);
        i += 1;
    }
    o
}
fn ref_decode(bs: &[u8]) -> String {
    let replaced: Vec<u8> = bs.iter().map(|&b| if b == b'+' { b' ' } else { b }).collect();
    String::from_utf8_lossy(&ref_percent_decode(&replaced)).into_owned()
}
fn ref_parse(bs: &[u8]) -> Vec<(String, String)> {
    let mut out = vec![];
    for piece in bs.split(|&b| b == b'&') {
        if piece.is_empty() {
            continue;
        }
        let (n, v) = match piece.iter().position(|&b| b == b'=') {
            Some(i) => (&piece[..i], &piece[i + 1..]),
            None => (piece, &piece[..0]),
        };
        out.push((ref_decode(n), ref_decode(v)));
    }
    out
}
fn ref_byteser(bs: &[u8]) -> String {
    let mut o = String::new();
    for &b in bs {
        if b.is_ascii_alphanumeric() || b"*-._".contains(&b) {
            o.push(b as char);
        } else if b == b' ' {
            o.push('+');
        } else {
            o.push_str(&format!("%{:02X}", b));
        }
    }
    o
}
fn in_alphabet(b: u8) -> bool {
    b.is_ascii_alphanumeric() || b"*-._+%&=".contains(&b)
}
fn real_parse(bs: &[u8]) -> Result<Vec<(String, String)>, String> {
    catch(|| parse(bs).into_owned().collect())
}

fn property_parse(bs: &[u8]) -> Option<String> {
    let got = match real_parse(bs) {
        Ok(g) => g,
        Err(m) => return Some(format!("total: parse panics ({})", m)),
    };
    let want = ref_parse(bs);
    if got != want {
        return Some(format!("parse gives {:?}, reference algorithm gives {:?}", got, want));
    }
    // empty '&&' segments, leading / trailing '&' are ignored
    for i in 0..=bs.len() {
        if i == 0 || i == bs.len() || bs[i - 1] == b'&' || bs[i] == b'&' {
            let mut v = bs[..i].to_vec();
            v.push(b'&');
            v.extend_from_slice(&bs[i..]);
            match real_parse(&v) {
                Ok(g) if g == got => {}
                Ok(g) => return Some(format!("an extra '&' at offset {} next to a '&' or an end changes the result to {:?}", i, g)),
                Err(m) => return Some(format!("total: parse panics ({})", m)),
            }
        }
    }
    None
}

fn property_byteser(bs: &[u8]) -> Option<String> {
    let r = catch(|| {
        let chunks: Vec<String> = byte_serialize(bs).map(|c| c.to_string()).collect();
        let s: String = byte_serialize(bs).collect();
        (chunks, s)
    });
    let (chunks, s) = match r {
        Ok(x) => x,
        Err(m) => return Some(format!("byte_serialize panics ({})", m)),
    };
    if s != ref_byteser(bs) {
        return Some(format!("byte_serialize gives {:?}, per-byte rule gives {:?}", s, ref_byteser(bs)));
    }
    if chunks.concat() != s || chunks.iter().any(|c| c.is_empty()) {
        return Some("byte_serialize chunks: empty chunk or concatenation differs".into());
    }
    if let Some(b) = s.bytes().find(|&b| !in_alphabet(b) || b == b'&' || b == b'=') {
        return Some(format!("alphabet: byte_serialize output contains {:?}", b as char));
    }
    let back = ref_percent_decode(&s.bytes().map(|b| if b == b'+' { b' ' } else { b }).collect::<Vec<u8>>());
    if back != bs {
        return Some(format!("round trip: decoding {:?} gives {:?}", s, back));
    }
    None
}

fn ov_apply(id: u8, s: &str) -> Vec<u8> {
    match id {
        0 => s.as_bytes().to_vec(),
        1 => ov_latin(s).into_owned(),
        _ => ov_const(s).into_owned(),
    }
}

/// the C15 statement on one serializer history (String-like targets); None = holds
fn property_ser(tk: &str, init: &[u8], start: usize, ops: &[Op]) -> Option<String> {
    let init_s = match std::str::from_utf8(init) {
        Ok(s) => s.to_string(),
        Err(_) => return None,
    };
    let out = impl_ser(tk, init, start, ops);
    let toks: Vec<&str> = out.split(' ').collect();
    // documented panic 1: for_suffix beyond the end
    if start > init.len() {
        return if toks[0] == "PANIC:forsuffix" { None } else { Some(format!("for_suffix({}, {}) beyond the end does not panic as documented: {}", init_s, start, toks[0])) };
    }
    if toks[0] != "ok" {
        return Some(format!("for_suffix within the target panics: {}", toks[0]));
    }
    // walk the history with the expected pair list
    let boundary = init_s.is_char_boundary(start);
    let mut expected: Vec<(String, String)> = ref_parse(&init[start..]);
    let mut enc: u8 = 0;
    let mut finished = false;
    for (i, op) in ops.iter().enumerate() {
        let t = match toks.get(i + 1) {
            Some(t) => *t,
            None => return Some(format!("history stopped early: {}", out)),
        };
        if finished {
            // documented panic 2: anything after finish (encoding_override does not touch the target)
            match op {
                Op::Eo(_) => {
                    if t.starts_with("PANIC") {
                        return Some(format!("encoding_override after finish panics: {}", t));
                    }
                    continue;
                }
                Op::Fi => return if t == "PANIC:doublefinish" { None } else { Some(format!("second finish does not panic as documented: {}", t)) },
                _ => return if t == "PANIC:finished" { None } else { Some(format!("{} after finish does not panic as documented: {}", show_op(op), t)) },
            }
        }
        if let Op::Cl = op {
            if !boundary {
                // known class F-C15-1: clear() with start_position inside a multi-byte character
                return None;
            }
        }
        if t.starts_with("PANIC") || t.starts_with('!') {
            return Some(format!("undocumented panic at op {} ({}): {}", i, show_op(op), t));
        }
        let push = |e: &mut Vec<(String, String)>, n: &str, v: Option<&str>, enc: u8| {
            let nb = ov_apply(enc, n);
            match v {
                Some(v) => e.push((String::from_utf8_lossy(&nb).into_owned(), String::from_utf8_lossy(&ov_apply(enc, v)).into_owned())),
                None => {
                    if !nb.is_empty() {
                        e.push((String::from_utf8_lossy(&nb).into_owned(), String::new()))
                    }
                }
            }
        };
        match op {
            Op::Ap(n, v) => push(&mut expected, n, Some(v), enc),
            Op::Ak(n) => push(&mut expected, n, None, enc),
            Op::Ep(l) => {
                for (n, v) in l {
                    push(&mut expected, n, Some(v), enc)
                }
            }
            Op::Ek(l) => {
                for n in l {
                    push(&mut expected, n, None, enc)
                }
            }
            Op::Cl => expected.clear(),
            Op::Eo(id) => enc = *id,
            Op::Fi => finished = true,
        }
        // the state after this operation
        let bytes = match t.split(':').nth(1) {
            Some("~") | None => continue,
            Some(h) => unhexb(h),
        };
        let body: &[u8] = if tk == "2" { &bytes[..bytes.len() - CUSTOM_TAIL.len() - 1] } else { &bytes[..] };
        if tk == "2" && &bytes[body.len()..] != format!("#{}", CUSTOM_TAIL).as_bytes() {
            return Some("custom target: finish() result does not end with the detached tail".into());
        }
        if body.len() < start || body[..start] != init[..start] {
            return Some(format!("prefix before start_position changed: {:?}", String::from_utf8_lossy(body)));
        }
        let suffix = &body[start..];
        match real_parse(suffix) {
            Ok(g) if g == expected => {}
            Ok(g) => return Some(format!("after {} the text {:?} parses to {:?}, expected {:?}", show_op(op), String::from_utf8_lossy(suffix), g, expected)),
            Err(m) => return Some(format!("parse panics ({})", m)),
        }
        if ref_parse(suffix) != expected {
            return Some(format!("after {} the text {:?} does not read back (reference parser) as {:?}", show_op(op), String::from_utf8_lossy(suffix), expected));
        }
        if init[start..].iter().all(|&b| in_alphabet(b)) {
            if let Some(b) = suffix.iter().find(|&&b| !in_alphabet(b)) {
                return Some(format!("alphabet: serializer wrote byte 0x{:02x}", b));
            }
        }
    }
    None
}

fn property_of_request(req: &str) -> Option<String> {
    let w: Vec<&str> = req.split(' ').collect();
    match w[0] {
        "parse" => property_parse(&unhexb(w[1])),
        "byteser" | "bsnext" => property_byteser(&unhexb(w[1])),
        "unch" => {
            let want: String = (0u32..256).map(|b| if (b as u8).is_ascii_alphanumeric() || b"*-._".contains(&(b as u8)) { '1' } else { '0' }).collect();
            let got = impl_unch();
            if got != want {
                let b = got.chars().zip(want.chars()).position(|(a, b)| a != b).unwrap_or(0);
                Some(format!("byte_serialized_unchanged differs from [A-Za-z0-9*-._] at byte 0x{:02x}", b))
            } else {
                None
            }
        }
        "serpairs" => {
            let pairs: Vec<(String, String)> = w[1..]
                .iter()
                .map(|p| {
                    let mut it = p.split(':');
                    (unhexs(it.next().unwrap()), unhexs(it.next().unwrap()))
                })
                .collect();
            let ops = vec![Op::Ep(pairs), Op::Fi];
            property_ser("0", b"", 0, &ops)
        }
        "ser" => {
            let ops: Vec<Op> = w[4..].iter().map(|t| parse_op(t)).collect();
            property_ser(w[1], &unhexb(w[2]), usize::from_str_radix(w[3], 16).unwrap(), &ops)
        }
        _ => None,
    }
}

fn run_search(args: &Args) -> Report {
    let mut rep = Report::new();
    let try_req = |rep: &mut Report, req: String| {
        if rep.failures.len() >= 40 {
            return;
        }
        rep.evaluations += 1;
        if let Some(w) = property_of_request(&req) {
            rep.failures.push((req, w));
        }
    };
    // (b) the differing cases first
    if let Ok(txt) = std::fs::read_to_string(&args.file) {
        for l in txt.lines().filter(|l| !l.is_empty()) {
            for r in l.split(" ;; ") {
                try_req(&mut rep, r.to_string());
            }
        }
    }
    // (a)/(c) the generator streams, property-directed
    for_all_requests("quick", args.seed ^ 0x5EA4C4, "/nonexistent", |_, req| try_req(&mut rep, req));
    // prefer the shortest failing request
    rep.failures.sort_by_key(|(c, _)| c.len());
    rep
}

fn run_known(_args: &Args) -> Report {
    let mut rep = Report::new();
    // F-C15-1: for_suffix accepts a start_position inside a multi-byte character; clear() then panics
    // in String::truncate (undocumented panic)
    let r = impl_ser("0", "\u{e9}".as_bytes(), 1, &[Op::Cl]);
    rep.known.push(("F-C15-1".into(), r == "ok PANIC:truncate", format!("Serializer::for_suffix(String::from(\"\\u{{e9}}\"), 1).clear(): {}", r)));
    rep
}

fn run_replay(args: &Args) -> Report {
    let mut rep = Report::new();
    let txt = std::fs::read_to_string(&args.file).unwrap_or_default();
    let req = txt.split("\"request\":").nth(1).and_then(|s| s.split('"').nth(1)).unwrap_or("").to_string();
    if req.is_empty() {
        rep.notes.push("replay file has no request (no-failing-input-found replay): nothing to re-run".into());
        return rep;
    }
    let imp = impl_request(&req);
    rep.notes.push(format!("request: {}", req));
    rep.notes.push(format!("implementation: {}", imp));
    if !args.driver.is_empty() {
        let mut drv = Driver::spawn(&args.driver);
        rep.notes.push(format!("model: {}", drv.ask(&req)));
    }
    rep.evaluations = 1;
    if let Some(w) = property_of_request(&req) {
        rep.failures.push((req, w));
    }
    rep
}

fn main() {
    quiet_panics();
    let args = parse_args();
    let rep = match args.mode.as_str() {
        "corr" => run_corr(&args),
        "search" => run_search(&args),
        "known" => run_known(&args),
        "replay" => run_replay(&args),
        m => panic!("unknown mode {}", m),
    };
    finish(&args, &rep);
}
