//! ad-hoc witness probe for the known / fixed findings (development aid; not a registered check)
use url::{Position, Url};
fn g<F: FnOnce() -> String + std::panic::UnwindSafe>(f: F) -> String { verif_harness::guarded(f) }
fn main() {
    verif_harness::quiet_panics();
    println!("P1 {}", g(|| { let mut u = Url::parse("file://1.2.3.4/").unwrap(); let _ = u.set_host(None); format!("{} has_host={} host_str={:?}", u, u.has_host(), u.host_str()) }));
    println!("P2a {}", g(|| { let u = Url::parse("foo://").unwrap(); format!("{:?}", &u[Position::BeforePassword..]) }));
    println!("P2b {}", g(|| { let u = Url::parse("http://user@host/").unwrap(); format!("{:?}", &u[Position::BeforePassword..Position::AfterPassword]) }));
    println!("P3 {}", g(|| { let m: data_url::mime::Mime = "text/plain;A=1;A=2".parse().unwrap(); format!("{:?}", m.parameters) }));
    println!("P5 {}", g(|| { let b = Url::parse("non-spec://good.example/dir/file").unwrap(); format!("{:?} {:?}", b.join("\\\\evil.example/x").map(|u| u.to_string()), b.join("\\x").map(|u| u.to_string())) }));
    println!("P6 {}", g(|| { let b = Url::parse("web+demo:/").unwrap(); let t = Url::parse("web+demo:'<C|").unwrap(); format!("{:?}", b.make_relative(&t)) }));
    println!("P7 {}", g(|| { format!("{:?} {:?}", Url::parse("non-spec://@").map(|u| u.to_string()), Url::parse("a://u@").map(|u| u.to_string())) }));
    println!("P8 {}", g(|| { let b = Url::parse("http://h/a/b").unwrap(); format!("{:?} {:?}", b.join("///x/y").map(|u| u.to_string()), b.join("///\u{5d0}").map(|u| u.to_string())) }));
    println!("P4 {}", g(|| {
        struct Bad(usize);
        impl core::fmt::Write for Bad { fn write_str(&mut self, _s: &str) -> core::fmt::Result { if self.0 == 0 { Err(core::fmt::Error) } else { self.0 -= 1; Ok(()) } } }
        let u = idna::uts46::Uts46::new();
        let mut out = String::new();
        for k in 0..6 {
            let mut sink = Bad(k);
            let r = u.process("a.\u{e9}x.b".as_bytes(), idna::uts46::AsciiDenyList::URL, idna::uts46::Hyphens::Allow, idna::uts46::ErrorPolicy::FailFast, |_, _, _| false, &mut sink, None);
            out.push_str(&format!("[k={} {:?}]", k, r.map(|_| "ok")));
        }
        out
    }));
}
